package main

import (
	"fmt"
	"math"
	"os"
	"time"

	"github.com/esimov/gogu"
	"verif/enum"
)

// C13 — search, selection, aggregates, numerics, Range.

func init() { registry["C13"] = c13 }

func c13(r *R) {
	L := 6
	if thorough {
		L = 9
	}
	alpha := []int{0, 1, 2}
	all := enum.AllSlices(alpha, L)
	r.Sample(fmt.Sprintf("every []int of length <= %d over %v with every probe in {0,1,2,3} and every index in -(len+3)..len+3", L, alpha))
	for _, s := range all {
		for probe := 0; probe <= 3; probe++ {
			first, last := -1, -1
			for i, v := range s {
				if v == probe {
					if first < 0 {
						first = i
					}
					last = i
				}
			}
			wit := func(fn string) string { return fmt.Sprintf("%s(%v,%d)", fn, s, probe) }
			if g := gogu.IndexOf(cp(s), probe); g != first {
				r.Bad("IndexOf/wrong", wit("IndexOf"), "got %d, want %d", g, first)
			}
			if g := gogu.LastIndexOf(cp(s), probe); g != last {
				r.Bad("LastIndexOf/wrong", wit("LastIndexOf"), "got %d, want %d", g, last)
			}
			eq := func(v int) bool { return v == probe }
			if g := gogu.FindIndex(cp(s), eq); g != first {
				r.Bad("FindIndex/wrong", wit("FindIndex"), "got %d, want %d", g, first)
			}
			if g := gogu.FindLastIndex(cp(s), eq); g != last {
				r.Bad("FindLastIndex/wrong", wit("FindLastIndex"), "got %d, want %d", g, last)
			}
			if g := gogu.Contains(cp(s), probe); g != (first >= 0) {
				r.Bad("Contains/wrong", wit("Contains"), "got %t", g)
			}
			if g := gogu.Some(cp(s), eq); g != (first >= 0) {
				r.Bad("Some/wrong", wit("Some"), "got %t", g)
			}
			allEq := true
			for _, v := range s {
				allEq = allEq && v == probe
			}
			if g := gogu.Every(cp(s), eq); g != allEq {
				r.Bad("Every/wrong", wit("Every"), "got %t, want %t", g, allEq)
			}
			fa := gogu.FindAll(cp(s), eq)
			okFA := true
			n := 0
			for i, v := range s {
				if v == probe {
					n++
					if g, ok := fa[i]; !ok || g != v {
						okFA = false
					}
				}
			}
			if !okFA || len(fa) != n {
				r.Bad("FindAll/wrong", wit("FindAll"), "got %v", fa)
			}
			for i := 0; i < 8; i++ {
				r.Eval("search")
			}
			if first >= 0 && first != last {
				r.Nontrivial("s" + fmt.Sprint(s, probe))
			}
		}
		// Nth
		nthIdx := append([]int{}, extremeInts...)
		for i := -(len(s) + 3); i <= len(s)+3; i++ {
			nthIdx = append(nthIdx, i)
		}
		for _, i := range nthIdx {
			var g int
			var err error
			p, msg := enum.Try(func() { g, err = gogu.Nth(cp(s), i) })
			r.Eval("Nth")
			wit := fmt.Sprintf("Nth(%v,%d)", s, i)
			valid := i >= -len(s) && i < len(s)
			switch {
			case p:
				cls := "out-of-range-index"
				if len(s) == 0 {
					cls = "empty-slice"
				}
				if isExtreme(i) {
					cls = "extreme-index"
				}
				r.Bad("Nth/panic/"+cls, wit, "panicked: %s", msg)
			case valid && err != nil:
				r.Bad("Nth/error-for-valid-index", wit, "returned error %v", err)
			case valid:
				want := 0
				if i >= 0 {
					want = s[i]
				} else {
					want = s[len(s)+i]
				}
				if g != want {
					r.Bad("Nth/wrong-element", wit, "got %d, want %d", g, want)
				}
			case err == nil:
				r.Bad("Nth/no-error-for-out-of-range-index", wit, "returned (%d, nil)", g)
			}
			if len(s) > 0 {
				r.Nontrivial("nth" + fmt.Sprint(s, i))
			}
		}
		// extremal
		if len(s) > 0 {
			mn, mx := s[0], s[0]
			sum := 0
			for _, v := range s {
				if v < mn {
					mn = v
				}
				if v > mx {
					mx = v
				}
				sum += v
			}
			chk := func(fn string, got, want int) {
				r.Eval(fn)
				if got != want {
					r.Bad(fn+"/wrong", fmt.Sprintf("%s(%v)", fn, s), "got %d, want %d", got, want)
				}
			}
			chk("FindMin", gogu.FindMin(cp(s)), mn)
			chk("FindMax", gogu.FindMax(cp(s)), mx)
			chk("Min", gogu.Min(cp(s)...), mn)
			chk("Max", gogu.Max(cp(s)...), mx)
			chk("Sum", gogu.Sum(cp(s)), sum)
			chk("SumBy", gogu.SumBy(cp(s), func(v int) int { return 2*v + 1 }), 2*sum+len(s))
			chk("Mean", gogu.Mean(cp(s)), sum/len(s))
			for _, k := range []struct {
				name string
				f    func(int) int
			}{{"id", func(x int) int { return x }}, {"neg", func(x int) int { return -x }}, {"mod2", func(x int) int { return x % 2 }}, {"const", func(int) int { return 4 }}} {
				// first element whose image is extremal
				bi, ba := 0, 0
				for i, v := range s {
					if k.f(v) < k.f(s[bi]) {
						bi = i
					}
					if k.f(v) > k.f(s[ba]) {
						ba = i
					}
				}
				gmin := gogu.FindMinBy(cp(s), k.f)
				gmax := gogu.FindMaxBy(cp(s), k.f)
				r.Eval("FindMinBy")
				r.Eval("FindMaxBy")
				// the statement: "an element of the input that is extremal (the first such one under a key function)".
				// Elements are plain ints: "first such one" is only observable through the value.
				if gmin != s[bi] {
					r.Bad("FindMinBy/not-first-extremal", fmt.Sprintf("FindMinBy(%v,%s)", s, k.name), "got %d, want %d", gmin, s[bi])
				}
				if gmax != s[ba] {
					r.Bad("FindMaxBy/not-first-extremal", fmt.Sprintf("FindMaxBy(%v,%s)", s, k.name), "got %d, want %d", gmax, s[ba])
				}
			}
		} else {
			for fn, g := range map[string]int{"FindMin": gogu.FindMin([]int{}), "FindMax": gogu.FindMax([]int{}), "FindMinBy": gogu.FindMinBy([]int{}, func(x int) int { return x }), "FindMaxBy": gogu.FindMaxBy([]int{}, func(x int) int { return x }), "Sum": gogu.Sum([]int{})} {
				r.Eval(fn)
				if g != 0 {
					r.Bad(fn+"/empty-slice-not-zero", fn+"([])", "got %d", g)
				}
			}
		}
	}
	c13Other(r)
	c13ByKey(r)
	c13Int8(r)
	c13Range(r)
}

func c13Other(r *R) {
	// floats and strings: min/max/sum/mean, compare
	fs := enum.AllSlices([]float64{-1.5, 0, 2.5}, 4)
	for _, s := range fs {
		if len(s) == 0 {
			continue
		}
		mn, mx, sum := s[0], s[0], 0.0
		for _, v := range s {
			mn, mx, sum = math.Min(mn, v), math.Max(mx, v), sum+v
		}
		r.Eval("float-aggregates")
		if gogu.FindMin(cp(s)) != mn || gogu.FindMax(cp(s)) != mx || gogu.Min(cp(s)...) != mn || gogu.Max(cp(s)...) != mx {
			r.Bad("FindMin-Max/float64", fmt.Sprintf("FindMin/FindMax/Min/Max(%v)", s), "got %v %v %v %v", gogu.FindMin(cp(s)), gogu.FindMax(cp(s)), gogu.Min(cp(s)...), gogu.Max(cp(s)...))
		}
		if gogu.Sum(cp(s)) != sum || gogu.Mean(cp(s)) != sum/float64(len(s)) {
			r.Bad("Sum-Mean/float64", fmt.Sprintf("Sum/Mean(%v)", s), "got %v %v, want %v %v", gogu.Sum(cp(s)), gogu.Mean(cp(s)), sum, sum/float64(len(s)))
		}
		r.Nontrivial("f" + fmt.Sprint(s))
	}
	for _, s := range enum.AllSlices([]string{"a", "b", "ab"}, 4) {
		if len(s) == 0 {
			continue
		}
		mn, mx := s[0], s[0]
		for _, v := range s {
			if v < mn {
				mn = v
			}
			if v > mx {
				mx = v
			}
		}
		r.Eval("string-extremal")
		if gogu.FindMin(cp(s)) != mn || gogu.FindMax(cp(s)) != mx {
			r.Bad("FindMin-Max/string", fmt.Sprintf("FindMin/FindMax(%q)", s), "got %q %q", gogu.FindMin(cp(s)), gogu.FindMax(cp(s)))
		}
	}
	vals := []int{-2, -1, 0, 1, 2}
	lt := func(a, b int) bool { return a < b }
	gt := func(a, b int) bool { return a > b }
	for _, a := range vals {
		for _, b := range vals {
			r.Eval("Compare")
			want := 0
			if a < b {
				want = 1
			} else if b < a {
				want = -1
			}
			if g := gogu.Compare(a, b, lt); g != want {
				r.Bad("Compare/wrong", fmt.Sprintf("Compare(%d,%d,<)", a, b), "got %d, want %d (1 when comp(a,b), -1 when comp(b,a), else 0)", g, want)
			}
			if g := gogu.Compare(a, b, gt); g != -want {
				r.Bad("Compare/wrong", fmt.Sprintf("Compare(%d,%d,>)", a, b), "got %d, want %d", g, -want)
			}
			// "Compare reflects the comparator", whatever the comparator: 1 when comp(a,b), else -1 when comp(b,a), else 0
			for _, cf := range []struct {
				name string
				f    func(a, b int) bool
			}{{"<=", func(a, b int) bool { return a <= b }}, {">=", func(a, b int) bool { return a >= b }}, {"==", func(a, b int) bool { return a == b }}, {"true", func(a, b int) bool { return true }}, {"false", func(a, b int) bool { return false }}} {
				w := 0
				if cf.f(a, b) {
					w = 1
				} else if cf.f(b, a) {
					w = -1
				}
				r.Eval("Compare")
				if g := gogu.Compare(a, b, cf.f); g != w {
					r.Bad("Compare/wrong/non-strict-comparator", fmt.Sprintf("Compare(%d,%d,%s)", a, b, cf.name), "got %d, want %d", g, w)
				}
			}
			if gogu.Less(a, b) != (a < b) || gogu.Equal(a, b) != (a == b) {
				r.Bad("Less-Equal/wrong", fmt.Sprintf("Less/Equal(%d,%d)", a, b), "got %t %t", gogu.Less(a, b), gogu.Equal(a, b))
			}
		}
	}
}

func c13ByKey(r *R) {
	keys := []string{"a", "b"}
	vals := []int{0, 1, 2}
	var ms []map[string]int
	enum.Maps(keys, vals, 2, func(m map[string]int) {
		c := map[string]int{}
		for k, v := range m {
			c[k] = v
		}
		ms = append(ms, c)
	})
	var colls [][]map[string]int
	colls = append(colls, []map[string]int{})
	for _, a := range ms {
		colls = append(colls, []map[string]int{a})
		for _, b := range ms {
			colls = append(colls, []map[string]int{a, b})
			if thorough {
				for _, c := range ms {
					colls = append(colls, []map[string]int{a, b, c})
				}
			}
		}
	}
	for _, coll := range colls {
		for _, key := range []string{"a", "b", "zz"} {
			for _, fn := range []string{"FindMinByKey", "FindMaxByKey"} {
				var g int
				var err error
				withChoices(0, func() {
					p, msg := enum.Try(func() {
						if fn == "FindMinByKey" {
							g, err = gogu.FindMinByKey(coll, key)
						} else {
							g, err = gogu.FindMaxByKey(coll, key)
						}
					})
					r.Eval(fn)
					wit := fmt.Sprintf("%s(%v,%q)", fn, coll, key)
					if p {
						cls := "non-empty"
						if len(coll) == 0 {
							cls = "empty-slice"
						}
						r.Bad(fn+"/panic/"+cls, wit, "panicked: %s", msg)
						return
					}
					// reference: extremal value of key among the maps that have it; zero value for an empty slice
					have := false
					want := 0
					for _, m := range coll {
						if v, ok := m[key]; ok {
							if !have || (fn == "FindMinByKey" && v < want) || (fn == "FindMaxByKey" && v > want) {
								want = v
							}
							have = true
						}
					}
					if len(coll) == 0 {
						if g != 0 {
							r.Bad(fn+"/empty-slice-not-zero", wit, "got %d", g)
						}
						return
					}
					if _, ok := coll[0][key]; !ok {
						return // documented: error when the first map lacks the key
					}
					if err != nil || g != want {
						r.Bad(fn+"/not-extremal", wit, "got (%d,%v), want %d", g, err, want)
					}
				})
			}
		}
		if len(coll) >= 2 {
			r.Nontrivial("bk" + fmt.Sprint(coll))
		}
	}
}

func c13Int8(r *R) {
	// all int8 triples for Clamp / InRange, all int8 for Abs; int8 Sum wrap-around
	n := 0
	for a := -128; a <= 127; a++ {
		x := int8(a)
		p, msg := enum.Try(func() {
			g := gogu.Abs(x)
			if x != -128 && (g < 0 || (g != x && g != -x)) {
				r.Bad("Abs/wrong", fmt.Sprintf("Abs(int8(%d))", x), "got %d", g)
			}
		})
		if p {
			r.Bad("Abs/panic", fmt.Sprintf("Abs(int8(%d))", x), "panicked: %s", msg)
		}
		step := 1 // all 2^24 int8 triples
		for lo := -128; lo <= 127; lo += step {
			for hi := -128; hi <= 127; hi += step {
				l, h := int8(lo), int8(hi)
				n++
				if gogu.InRange(x, l, h) != (x >= l && x <= h) {
					r.Bad("InRange/wrong", fmt.Sprintf("InRange(int8 %d,%d,%d)", x, l, h), "got %t", gogu.InRange(x, l, h))
				}
				if l <= h {
					g := gogu.Clamp(x, l, h)
					want := x
					if x < l {
						want = l
					} else if x > h {
						want = h
					}
					if g != want {
						r.Bad("Clamp/wrong", fmt.Sprintf("Clamp(int8 %d,%d,%d)", x, l, h), "got %d, want %d", g, want)
					}
				}
			}
		}
	}
	r.mu.Lock()
	r.evals += 2 * n
	r.perFn["Clamp/InRange(int8 triples)"] += 2 * n
	r.mu.Unlock()
	r.Nontrivial("int8-triples-a")
	r.Nontrivial("int8-triples-b")
	for _, s := range enum.AllSlices([]int8{100, 27, -128, 1}, 4) {
		var want int8
		for _, v := range s {
			want += v
		}
		r.Eval("Sum[int8]")
		if g := gogu.Sum(cp(s)); g != want {
			r.Bad("Sum/int8-wraparound", fmt.Sprintf("Sum(%v)", s), "got %d, want %d", g, want)
		}
	}
	for _, v := range []float64{-2.5, -0.0, 0, 3.25} {
		if g := gogu.Abs(v); g != math.Abs(v) {
			r.Bad("Abs/float64", fmt.Sprintf("Abs(%v)", v), "got %v", g)
		}
	}
	c13Wide(r)
	c13Identity(r)
}

// c13Wide: the aggregates in the element type itself, at the ends of the 64-bit types (a detour through
// float64 loses everything beyond 2^53), and the comparisons on floats with NaN and the infinities
// (every comparison with NaN is false: InRange is the conjunction as written, not its negated complement).
func c13Wide(r *R) {
	wideInts := []int64{math.MaxInt64, math.MaxInt64 - 1, 1<<53 + 1, 1 << 53, -(1<<53 + 1), math.MinInt64 + 1, 7, -3, 0}
	for _, s := range enum.AllSlices(wideInts, 2) {
		if len(s) == 0 {
			continue
		}
		var sum int64
		for _, v := range s {
			sum += v
		}
		r.Eval("Sum-Mean[int64,wide]")
		if g := gogu.Sum(cp(s)); g != sum {
			r.Bad("Sum/int64-wide", fmt.Sprintf("Sum(%v)", s), "got %d, want %d", g, sum)
		}
		if g := gogu.Mean(cp(s)); g != sum/int64(len(s)) {
			r.Bad("Mean/int64-wide", fmt.Sprintf("Mean(%v)", s), "got %d, want %d (the mean in the element type)", g, sum/int64(len(s)))
		}
	}
	wideU := []uint64{math.MaxUint64, math.MaxUint64 - 1, 1<<53 + 1, 1<<63 + 3, 5, 0}
	for _, s := range enum.AllSlices(wideU, 2) {
		if len(s) == 0 {
			continue
		}
		var sum uint64
		for _, v := range s {
			sum += v
		}
		r.Eval("Sum-Mean[uint64,wide]")
		if g := gogu.Mean(cp(s)); g != sum/uint64(len(s)) {
			r.Bad("Mean/uint64-wide", fmt.Sprintf("Mean(%v)", s), "got %d, want %d", g, sum/uint64(len(s)))
		}
		if g := gogu.Sum(cp(s)); g != sum {
			r.Bad("Sum/uint64-wide", fmt.Sprintf("Sum(%v)", s), "got %d, want %d", g, sum)
		}
	}
	for _, s := range enum.AllSlices([]int{math.MaxInt, math.MinInt, math.MaxInt - 2, 1, -1}, 3) {
		if len(s) == 0 {
			continue
		}
		mn, mx, sum := s[0], s[0], 0
		for _, v := range s {
			sum += v
			if v < mn {
				mn = v
			}
			if v > mx {
				mx = v
			}
		}
		r.Eval("aggregates[int,extremes]")
		if gogu.Min(cp(s)...) != mn || gogu.Max(cp(s)...) != mx || gogu.FindMin(cp(s)) != mn || gogu.FindMax(cp(s)) != mx {
			r.Bad("FindMin-Max/int-extremes", fmt.Sprintf("Min/Max/FindMin/FindMax(%v)", s), "got %v %v %v %v, want %v %v", gogu.Min(cp(s)...), gogu.Max(cp(s)...), gogu.FindMin(cp(s)), gogu.FindMax(cp(s)), mn, mx)
		}
		if gogu.Sum(cp(s)) != sum || gogu.Mean(cp(s)) != sum/len(s) {
			r.Bad("Sum-Mean/int-extremes", fmt.Sprintf("Sum/Mean(%v)", s), "got %v %v, want %v %v", gogu.Sum(cp(s)), gogu.Mean(cp(s)), sum, sum/len(s))
		}
	}
	nan, inf := math.NaN(), math.Inf(1)
	fl := []float64{nan, -inf, -1.5, 0, 2.5, inf}
	for _, x := range fl {
		for _, lo := range fl {
			for _, hi := range fl {
				r.Eval("InRange-Clamp[float64 with NaN/Inf]")
				if g, want := gogu.InRange(x, lo, hi), x >= lo && x <= hi; g != want {
					r.Bad("InRange/float64-special-values", fmt.Sprintf("InRange(%v,%v,%v)", x, lo, hi), "got %t, want %t (lo <= x && x <= hi)", g, want)
				}
				if lo <= hi && x == x { // an ordered range and an ordered number
					want := x
					if x < lo {
						want = lo
					} else if x > hi {
						want = hi
					}
					if g := gogu.Clamp(x, lo, hi); g != want {
						r.Bad("Clamp/float64-special-values", fmt.Sprintf("Clamp(%v,%v,%v)", x, lo, hi), "got %v, want %v", g, want)
					}
				}
			}
		}
	}
	for _, x := range []float32{float32(nan), 0, 1, float32(inf)} {
		for _, lo := range []float32{float32(nan), 0, float32(-inf)} {
			for _, hi := range []float32{float32(nan), 1, float32(inf)} {
				r.Eval("InRange[float32 with NaN/Inf]")
				if g, want := gogu.InRange(x, lo, hi), x >= lo && x <= hi; g != want {
					r.Bad("InRange/float32-special-values", fmt.Sprintf("InRange(%v,%v,%v)", x, lo, hi), "got %t, want %t", g, want)
				}
			}
		}
	}
	r.Nontrivial("wide-a")
	r.Nontrivial("wide-b")
}

// refRange is the statement's definition.
func refRange(args []int) (res []int, invalid bool) {
	var start, step, end int
	switch len(args) {
	case 1:
		step, end = 1, args[0]
	case 2:
		start, step, end = args[0], 1, args[1]
	case 3:
		start, step, end = args[0], args[1], args[2]
		if step == 0 || (end > 0 && start > end) || (step < 0 && end > start) {
			return nil, true
		}
	default:
		return nil, true
	}
	if step < 0 {
		step = -step
	}
	if end > 0 {
		for i := start; i < end; i += step {
			res = append(res, i)
		}
	} else {
		for i := start; i > end; i -= step {
			res = append(res, i)
		}
	}
	return res, false
}

// c13RangeNearLimits: ascending ranges that end at (or just below) the largest value of the element
// type, for unsigned and signed types of 8 and 64 bits: the progression must come out exactly, with no
// wrap-around and no detour through a narrower or signed representation.
func c13RangeNearLimits[T gogu.Number](r *R, tn string, max T) {
	for off := T(1); off <= 7; off++ {
		for step := T(1); step <= 3; step++ {
			for _, endOff := range []T{0, 1} {
				start, end := max-off-endOff, max-endOff
				var want []T
				for i := start; i < end; {
					want = append(want, i)
					if end-i <= step {
						break
					}
					i += step
				}
				for _, form := range []int{2, 3} {
					if form == 2 && step != 1 {
						continue
					}
					var got, gotR []T
					var err, errR error
					wit := fmt.Sprintf("Range[%s](%v,%v,%v)", tn, start, step, end)
					p, msg, hung := enum.TryTimeout(3*time.Second, func() {
						if form == 2 {
							got, err = gogu.Range(start, end)
							gotR, errR = gogu.RangeRight(start, end)
						} else {
							got, err = gogu.Range(start, step, end)
							gotR, errR = gogu.RangeRight(start, step, end)
						}
					})
					r.Eval("Range[" + tn + "]")
					if hung {
						// the abandoned call may be appending without end: report and leave at once
						r.Bad("Range/does-not-terminate/near-type-limit", wit, "did not return within 3 s")
						r.Set("exhaustive_note", "left early: a helper call did not terminate")
						os.Exit(r.conclude(nil))
					}
					if p {
						r.Bad("Range/panic/near-type-limit", wit, "panicked: %s", msg)
						continue
					}
					if err != nil || !eqSlice(got, want) {
						r.Bad("Range/wrong-progression/near-type-limit", wit, "got (%v,%v), want %v", got, err, want)
					}
					rev := append([]T{}, want...)
					for i, j := 0, len(rev)-1; i < j; i, j = i+1, j-1 {
						rev[i], rev[j] = rev[j], rev[i]
					}
					if errR != nil || !eqSlice(gotR, rev) {
						r.Bad("RangeRight/not-reverse-of-Range/near-type-limit", wit, "RangeRight = (%v,%v), want %v", gotR, errR, rev)
					}
				}
			}
		}
	}
}

// c13RangeDown: descending ranges that end at the smallest value of the element type (0 for unsigned
// types): start, start-step, ... strictly above end.
func c13RangeDown[T gogu.Number](r *R, tn string, min T) {
	for off := T(1); off <= 8; off++ {
		for step := T(1); step <= 3; step++ {
			start, end := min+off, min
			var want []T
			for i := start; i > end; {
				want = append(want, i)
				if i-end <= step {
					break
				}
				i -= step
			}
			var got []T
			var err error
			wit := fmt.Sprintf("Range[%s](%v,%v,%v)", tn, start, step, end)
			p, msg, hung := enum.TryTimeout(3*time.Second, func() { got, err = gogu.Range(start, step, end) })
			r.Eval("Range[" + tn + "]")
			switch {
			case hung:
				r.Bad("Range/does-not-terminate/near-type-limit", wit, "did not return within 3 s")
				r.Set("exhaustive_note", "left early: a helper call did not terminate")
				os.Exit(r.conclude(nil))
			case p:
				r.Bad("Range/panic/near-type-limit", wit, "panicked: %s", msg)
			case err != nil || !eqSlice(got, want):
				r.Bad("Range/wrong-progression/near-type-limit", wit, "got (%v,%v), want %v", got, err, want)
			}
		}
	}
}

func c13Range(r *R) {
	c13RangeDown[uint8](r, "uint8", 0)
	c13RangeDown[uint64](r, "uint64", 0)
	c13RangeDown[int8](r, "int8", math.MinInt8)
	c13RangeDown[int64](r, "int64", math.MinInt64)
	c13RangeNearLimits[uint8](r, "uint8", math.MaxUint8)
	c13RangeNearLimits[uint64](r, "uint64", math.MaxUint64)
	c13RangeNearLimits[uint](r, "uint", math.MaxUint)
	c13RangeNearLimits[int8](r, "int8", math.MaxInt8)
	c13RangeNearLimits[int64](r, "int64", math.MaxInt64)
	c13RangeNearLimits[uint32](r, "uint32", math.MaxUint32)
	var argLists [][]int
	argLists = append(argLists, []int{}, []int{1, 1, 5, 1})
	for a := -10; a <= 10; a++ {
		argLists = append(argLists, []int{a})
		for b := -10; b <= 10; b++ {
			argLists = append(argLists, []int{a, b})
			for c := -10; c <= 10; c++ {
				argLists = append(argLists, []int{a, b, c})
			}
		}
	}
	for _, args := range argLists {
		want, invalid := refRange(args)
		var got, gotR []int
		var err, errR error
		p, msg := enum.Try(func() {
			got, err = gogu.Range(args...)
			gotR, errR = gogu.RangeRight(args...)
		})
		r.Eval("Range")
		r.Eval("RangeRight")
		wit := fmt.Sprintf("Range(%v)", args)
		if p {
			r.Bad("Range/panic", wit, "panicked: %s", msg)
			continue
		}
		if invalid {
			if err == nil || errR == nil {
				cls := fmt.Sprintf("%d-arguments", len(args))
				r.Bad("Range/invalid-arguments-accepted/"+cls, wit, "returned (%v,%v) / RangeRight (%v,%v), want an error", got, err, gotR, errR)
			}
			continue
		}
		if err != nil || !eqSlice(got, want) {
			r.Bad("Range/wrong-progression", wit, "got (%v,%v), want %v", got, err, want)
		}
		rw := cp(want)
		for i, j := 0, len(rw)-1; i < j; i, j = i+1, j-1 {
			rw[i], rw[j] = rw[j], rw[i]
		}
		if errR != nil || !eqSlice(gotR, rw) {
			r.Bad("RangeRight/not-reverse-of-Range", fmt.Sprintf("RangeRight(%v)", args), "got (%v,%v), want %v", gotR, errR, rw)
		}
		if len(want) >= 2 {
			r.Nontrivial("R" + fmt.Sprint(args))
		}
	}
	c13RangeFloats[float64](r, "float64")
	c13RangeFloats[float32](r, "float32")
	// float steps
	for _, st := range []float64{0.25, 0.5} {
		for _, end := range []float64{1, 2, 2.25} {
			got, err := gogu.Range(0, st, end)
			r.Eval("Range[float64]")
			var want []float64
			for x := 0.0; x < end; x += st {
				want = append(want, x)
			}
			if err != nil || !eqSlice(got, want) {
				r.Bad("Range/float-steps", fmt.Sprintf("Range(0,%v,%v)", st, end), "got (%v,%v), want %v", got, err, want)
			}
		}
	}
}


// c13RangeFloats: every argument list of 1..3 multiples of 1/4 in [-2.5, 2.5] (exact in binary floating
// point, so is every partial sum), for float64 and float32: fractional starts, spans and steps, unit steps
// over a fractional span (round 7: C13-13, an element count computed by truncating end-start).
func c13RangeFloats[T float32 | float64](r *R, tn string) {
	var vals []T
	for q := -10; q <= 10; q++ {
		vals = append(vals, T(q)/4)
	}
	ref := func(args []T) (res []T, invalid bool) {
		var start, step, end T
		switch len(args) {
		case 1:
			step, end = 1, args[0]
		case 2:
			start, step, end = args[0], 1, args[1]
		case 3:
			start, step, end = args[0], args[1], args[2]
			if step == 0 || (end > 0 && start > end) || (step < 0 && end > start) {
				return nil, true
			}
		}
		if step < 0 {
			step = -step
		}
		if end > 0 {
			for i := start; i < end; i += step {
				res = append(res, i)
			}
		} else {
			for i := start; i > end; i -= step {
				res = append(res, i)
			}
		}
		return res, false
	}
	check := func(args []T) {
		want, invalid := ref(args)
		var got, gotR []T
		var err, errR error
		p, msg := enum.Try(func() {
			got, err = gogu.Range(args...)
			gotR, errR = gogu.RangeRight(args...)
		})
		r.Eval("Range[" + tn + "]")
		wit := fmt.Sprintf("Range[%s](%v)", tn, args)
		switch {
		case p:
			r.Bad("Range/panic/fractional-arguments", wit, "panicked: %s", msg)
		case invalid:
			if err == nil || errR == nil {
				r.Bad("Range/invalid-arguments-accepted/fractional-arguments", wit, "returned (%v,%v) / RangeRight (%v,%v), want an error", got, err, gotR, errR)
			}
		default:
			if err != nil || !eqSlice(got, want) {
				r.Bad("Range/wrong-progression/fractional-arguments", wit, "got (%v,%v), want %v", got, err, want)
			}
			rw := append([]T{}, want...)
			for i, j := 0, len(rw)-1; i < j; i, j = i+1, j-1 {
				rw[i], rw[j] = rw[j], rw[i]
			}
			if errR != nil || !eqSlice(gotR, rw) {
				r.Bad("RangeRight/not-reverse-of-Range/fractional-arguments", wit, "RangeRight = (%v,%v), want %v", gotR, errR, rw)
			}
		}
	}
	for _, a := range vals {
		check([]T{a})
		for _, b := range vals {
			check([]T{a, b})
			for _, c := range vals {
				check([]T{a, b, c})
			}
		}
	}
}

// c13Identity: equality of elements is Go's ==, also where == means identity: two distinct pointers to
// equal values are different elements (so are interface values holding them, and structs with a pointer
// field). Every slice up to length 3 over {p, q, nil} with *p == *q.
func c13Identity(r *R) {
	p, q := new(int), new(int)
	type box struct {
		P *int
		N int
	}
	search := func(tn string, check func(probeIsQ bool, s []int) (idx, last int, has bool)) {
		// s encodes the slice: 0 = p, 1 = q, 2 = nil
		for _, s := range enum.AllSlices([]int{0, 1, 2}, 3) {
			for probe := 0; probe <= 1; probe++ {
				wantIdx, wantLast := -1, -1
				for i, v := range s {
					if v == probe {
						if wantIdx < 0 {
							wantIdx = i
						}
						wantLast = i
					}
				}
				idx, last, has := check(probe == 1, s)
				r.Eval("identity[" + tn + "]")
				if idx != wantIdx || last != wantLast || has != (wantIdx >= 0) {
					r.Bad("IndexOf-LastIndexOf-Contains/pointer-identity/"+tn, fmt.Sprintf("slice %v (0 = p, 1 = q, 2 = nil; *p == *q), probe %d", s, probe), "IndexOf = %d, LastIndexOf = %d, Contains = %t, want %d, %d, %t", idx, last, has, wantIdx, wantLast, wantIdx >= 0)
				}
			}
		}
	}
	ptr := []*int{p, q, nil}
	search("*int", func(pq bool, s []int) (int, int, bool) {
		var sl []*int
		for _, v := range s {
			sl = append(sl, ptr[v])
		}
		pr := p
		if pq {
			pr = q
		}
		return gogu.IndexOf(sl, pr), gogu.LastIndexOf(sl, pr), gogu.Contains(sl, pr)
	})
	search("any", func(pq bool, s []int) (int, int, bool) {
		var sl []any
		for _, v := range s {
			sl = append(sl, any(ptr[v]))
		}
		var pr any = p
		if pq {
			pr = q
		}
		return gogu.IndexOf(sl, pr), gogu.LastIndexOf(sl, pr), gogu.Contains(sl, pr)
	})
	search("struct-with-pointer", func(pq bool, s []int) (int, int, bool) {
		var sl []box
		for _, v := range s {
			sl = append(sl, box{ptr[v], 1})
		}
		pr := box{p, 1}
		if pq {
			pr = box{q, 1}
		}
		return gogu.IndexOf(sl, pr), gogu.LastIndexOf(sl, pr), gogu.Contains(sl, pr)
	})
	if gogu.Equal(p, q) || !gogu.Equal(p, p) || gogu.Equal(box{p, 1}, box{q, 1}) || !gogu.Equal(box{q, 1}, box{q, 1}) || gogu.Equal(any(p), any(q)) {
		r.Bad("Equal/pointer-identity", "Equal on two distinct pointers to equal values / on the same pointer", "Equal(p,q)=%t Equal(p,p)=%t Equal(box{p},box{q})=%t", gogu.Equal(p, q), gogu.Equal(p, p), gogu.Equal(box{p, 1}, box{q, 1}))
	}
	r.Nontrivial("identity-a")
	r.Nontrivial("identity-b")
}
