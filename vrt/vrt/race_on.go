//go:build verif && race

package vrt

import "runtime"

// RaceBuild reports whether this binary carries the race detector.
const RaceBuild = true

//go:norace
func raceDisable() { runtime.RaceDisable() }

//go:norace
func raceEnable() { runtime.RaceEnable() }

// Goroutines are pooled in race builds: the race detector never gives back what it allocates per
// goroutine created (about 300 bytes; measured 150 MB per 500 000 goroutines), and a thorough run creates
// hundreds of millions of them. A pooled goroutine runs at most ONE thread per execution (it returns to
// the idle list only when the execution is over), so no happens-before edge is added between two threads
// of one execution; the hand-over of the task through a real channel is the edge of the go statement
// (parent happens-before child), exactly as before. The lists need no lock: one thread runs at a time.
var (
	poolIdle []chan func()
	poolUsed []chan func()
)

//go:norace
func spawn(fn func()) {
	var c chan func()
	if n := len(poolIdle); n > 0 {
		c = poolIdle[n-1]
		poolIdle = poolIdle[:n-1]
	} else {
		c = make(chan func())
		go poolWorker(c)
	}
	poolUsed = append(poolUsed, c)
	c <- fn
}

func poolWorker(c chan func()) {
	for f := range c {
		f()
	}
}

//go:norace
func releasePool() {
	poolIdle = append(poolIdle, poolUsed...)
	poolUsed = poolUsed[:0]
}
