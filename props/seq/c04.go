package main

import (
	"fmt"
	"sort"

	"github.com/esimov/gogu/bstree"
	"verif/seqmc"
)

// C04 — binary search tree as an ordered map. Reference model: Go map + sort.

func init() {
	registry["C04"] = func() []*seqmc.Spec {
		keys := 5
		if thorough {
			keys = 7
		}
		mk := func(name string, less func(a, b int) bool) *seqmc.Spec {
			return &seqmc.Spec{Property: "C04", Component: name, Inits: []string{"empty"}, New: func(string) seqmc.Sys {
				return &bstSys{name: "BsTree", t: bstree.New[int, string](less), less: less, model: map[int]string{}, keys: keys}
			}}
		}
		lt, gt := func(a, b int) bool { return a < b }, func(a, b int) bool { return a > b }
		return []*seqmc.Spec{
			// two trees side by side, opposite comparators (whatever is kept at package level)
			{Property: "C04", Component: "BsTree(<) x BsTree(>)", KeyName: "BsTree", Inits: []string{"empty"}, New: func(string) seqmc.Sys {
				return seqmc.Pair(&bstSys{name: "BsTree", t: bstree.New[int, string](lt), less: lt, model: map[int]string{}, keys: 2},
					&bstSys{name: "BsTree", t: bstree.New[int, string](gt), less: gt, model: map[int]string{}, keys: 2})
			}},
			mk("BsTree(<)", func(a, b int) bool { return a < b }),
			mk("BsTree(>)", func(a, b int) bool { return a > b }),
			// a strict order that is neither ascending nor descending in the natural order of the keys:
			// even keys before odd ones, ascending within each class ("any strict comparator")
			mk("BsTree(evens-first)", func(a, b int) bool {
				pa, pb := a&1, b&1 // parity (also for the negative probe keys of the observer suite)
				if pa != pb {
					return pa == 0
				}
				return a < b
			}),
		}
	}
}

type bstSys struct {
	// drift is the number of times a Delete of an absent key was observed to decrement the size
	// counter (the recorded finding BsTree.Size/after-Delete(absent)/off-by--1). The search continues
	// behind that defect with Size expected at len(model)-drift, so that other defects which only show
	// in those states are still found; it is 0 on a tree without the defect.
	drift int
	name  string
	t     *bstree.BsTree[int, string]
	less  func(a, b int) bool
	model map[int]string
	keys  int
}

var bstVals = []string{"a", "b"}

func (s *bstSys) Ops() []seqmc.Op {
	var ops []seqmc.Op
	for k := 0; k < s.keys; k++ {
		for vi := range bstVals {
			ops = append(ops, op("Upsert", k, vi))
		}
		if _, present := s.model[k]; present || s.drift < 2 {
			ops = append(ops, op("Delete", k)) // behind the recorded Size defect: at most two drifting deletes per history
		}
	}
	return ops
}

func (s *bstSys) Apply(o seqmc.Op, c *seqmc.Ctx) {
	k := o.I[0]
	switch o.N {
	case "Upsert":
		s.t.Upsert(k, bstVals[o.I[1]])
		s.model[k] = bstVals[o.I[1]]
	case "Delete":
		size0 := s.t.Size()
		err := s.t.Delete(k)
		_, present := s.model[k]
		delete(s.model, k)
		if !present && s.t.Size() == size0-1 {
			s.drift++
			c.Soft(s.name+".Size/after-Delete(absent)/off-by--1", "Delete(%d) of an absent key decremented Size from %d to %d (present %v)", k, size0, size0-1, s.sorted())
		}
		if present && err != nil {
			c.Soft(s.name+".Delete/present-key-reported-not-found", "Delete(%d) of a present key returned %v", k, err)
		}
		if !present && err == nil {
			c.Soft(s.name+".Delete/absent-key-not-reported", "Delete(%d) of an absent key returned nil", k)
		}
	}
}

// OpClass refines the attribution of observer failures: deleting an absent
// key and deleting a present key are different operations for the findings file.
func (s *bstSys) OpClass(o seqmc.Op) string {
	if o.N == "Delete" {
		if _, ok := s.model[o.I[0]]; ok {
			return "Delete(present)"
		}
		return "Delete(absent)"
	}
	return o.N
}

func (s *bstSys) sorted() []int {
	ks := make([]int, 0, len(s.model))
	for k := range s.model {
		ks = append(ks, k)
	}
	sort.Slice(ks, func(i, j int) bool { return s.less(ks[i], ks[j]) })
	return ks
}

func (s *bstSys) Observe(c *seqmc.Ctx) {
	if n := s.t.Size(); n != len(s.model)-s.drift {
		cls := fmt.Sprintf("off-by-%+d", n-(len(s.model)-s.drift))
		c.Fail(s.name+".Size/"+cls, "Size = %d, want %d (present %v; %d earlier absent-key deletes each took one off the counter)", n, len(s.model)-s.drift, s.sorted(), s.drift)
	}
	for k := -1; k <= s.keys; k++ {
		it, err := s.t.Get(k)
		want, present := s.model[k]
		switch {
		case present && err != nil:
			c.Fail(s.name+".Get/present-key-not-found", "Get(%d) = %v, want value %q (present %v)", k, err, want, s.model)
		case present && (it.Val != want || it.Key != k):
			c.Fail(s.name+".Get/stale-or-wrong-value", "Get(%d) = {%d %q}, want {%d %q}", k, it.Key, it.Val, k, want)
		case !present && err == nil:
			c.Fail(s.name+".Get/absent-key-found", "Get(%d) = {%d %q} for an absent key (present %v)", k, it.Key, it.Val, s.model)
		}
	}
	var got []string
	s.t.Traverse(func(it bstree.Item[int, string]) { got = append(got, fmt.Sprintf("%d=%s", it.Key, it.Val)) })
	var want []string
	for _, k := range s.sorted() {
		want = append(want, fmt.Sprintf("%d=%s", k, s.model[k]))
	}
	if fmt.Sprint(got) != fmt.Sprint(want) {
		c.Fail(s.name+".Traverse/differs-from-ordered-map", "Traverse visited %v, want %v", got, want)
	}
	// a traversal started from inside a traversal's callback (all-pairs loops): both must still visit
	// every present key once, in order
	if len(want) > 0 && len(want) <= 4 {
		var outer, inner []string
		s.t.Traverse(func(it bstree.Item[int, string]) {
			outer = append(outer, fmt.Sprintf("%d=%s", it.Key, it.Val))
			inner = inner[:0]
			s.t.Traverse(func(in bstree.Item[int, string]) { inner = append(inner, fmt.Sprintf("%d=%s", in.Key, in.Val)) })
		})
		if fmt.Sprint(outer) != fmt.Sprint(want) || fmt.Sprint(inner) != fmt.Sprint(want) {
			c.Fail(s.name+".Traverse/nested-traversal-differs", "Traverse with a Traverse inside its callback visited %v (inner, last round: %v), want %v", outer, inner, want)
		}
	}
}

func (s *bstSys) Key() string {
	return seqmc.Dump(s.t) + "|" + fmt.Sprint(s.sorted(), s.model, s.drift)
}
