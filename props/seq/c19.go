package main

import (
	"fmt"
	"reflect"
	"strings"

	"github.com/esimov/gogu/list"
	"verif/seqmc"
)

// C19 — linked lists as sequences. Reference model: non-empty Go slice of
// distinct values. Operations address elements by position (the handle is
// obtained from Find immediately before use) and insert fresh values, and the
// state key renames values by first occurrence: the lists are generic over
// comparable and only apply == to values, so behaviour is invariant under
// injective renaming.

type seqList interface {
	Unshift(int)
	Append(int)
	Shift()
	Pop()
	InsertAfter(at, v int) error
	InsertBefore(at, v int) error // DList only
	Delete(at int) error
	Replace(old, new int) error
	Find(v int) (int, bool, bool) // value of the node found, node != nil, ok
	First() int
	Last() (int, bool)
	Each(func(int))
	Impl() any
	HasInsertBefore() bool
	Clear() bool // false: the list has no Clear
}

type sl struct{ l *list.SList[int] }

func (s sl) Unshift(v int) { s.l.Unshift(v) }
func (s sl) Append(v int)  { s.l.Append(v) }
func (s sl) Shift()        { s.l.Shift() }
func (s sl) Pop()          { s.l.Pop() }
func (s sl) InsertAfter(at, v int) error {
	n, _ := s.l.Find(at)
	return s.l.InsertAfter(n, v)
}
func (s sl) InsertBefore(at, v int) error { panic("no InsertBefore") }
func (s sl) Delete(at int) error {
	n, _ := s.l.Find(at)
	return s.l.Delete(n)
}
func (s sl) Replace(o, n int) error { return s.l.Replace(o, n) }
func (s sl) Find(v int) (int, bool, bool) {
	n, ok := s.l.Find(v)
	if n == nil {
		return 0, false, ok
	}
	return n.Value, true, ok
}
func (s sl) First() int            { return s.l.Value }
func (s sl) Last() (int, bool)     { return 0, false }
func (s sl) Each(f func(int))      { s.l.Each(f) }
func (s sl) Impl() any             { return s.l }
func (s sl) HasInsertBefore() bool { return false }
func (s sl) Clear() bool           { return false }

type dl struct{ l *list.DList[int] }

func (s dl) Unshift(v int) { s.l.Unshift(v) }
func (s dl) Append(v int)  { s.l.Append(v) }
func (s dl) Shift()        { s.l.Shift() }
func (s dl) Pop()          { s.l.Pop() }
func (s dl) InsertAfter(at, v int) error {
	n, _ := s.l.Find(at)
	return s.l.InsertAfter(n, v)
}
func (s dl) InsertBefore(at, v int) error {
	n, _ := s.l.Find(at)
	return s.l.InsertBefore(n, v)
}
func (s dl) Delete(at int) error {
	n, _ := s.l.Find(at)
	return s.l.Delete(n)
}
func (s dl) Replace(o, n int) error { return s.l.Replace(o, n) }
func (s dl) Find(v int) (int, bool, bool) {
	n, ok := s.l.Find(v)
	if n == nil {
		return 0, false, ok
	}
	return n.Value, true, ok
}
func (s dl) First() int            { return s.l.First() }
func (s dl) Last() (int, bool)     { return s.l.Last(), true }
func (s dl) Each(f func(int))      { s.l.Each(f) }
func (s dl) Impl() any             { return s.l }
func (s dl) HasInsertBefore() bool { return true }
func (s dl) Clear() bool           { s.l.Clear(); return true } // cuts the list back to its first node

func init() {
	registry["C19"] = func() []*seqmc.Spec {
		cap, depth := 6, 12
		if thorough {
			cap, depth = 9, 20
		}
		dcap := 4
		if thorough {
			dcap = 6
		}
		return []*seqmc.Spec{
			// second family: values may repeat (alphabet {1,2,3}, no renaming); only the operations that
			// take values rather than node handles, so that "first occurrence" semantics of Replace/Find is exercised
			{Property: "C19", PureObservers: true, Component: "SList(duplicates)", KeyName: "SList", Inits: []string{"1", "2"}, New: func(in string) seqmc.Sys {
				v := int(in[0] - '0')
				return &listSys{name: "SList", l: sl{list.Init(v)}, model: []int{v}, cap: dcap, dups: true}
			}},
			{Property: "C19", PureObservers: true, Component: "DList(duplicates)", KeyName: "DList", Inits: []string{"1", "2"}, New: func(in string) seqmc.Sys {
				v := int(in[0] - '0')
				return &listSys{name: "DList", l: dl{list.InitDList(v)}, model: []int{v}, cap: dcap, dups: true}
			}},
			{Property: "C19", PureObservers: true, Component: "SList", Inits: []string{"single"}, MaxDepth: depth, New: func(string) seqmc.Sys {
				return &listSys{name: "SList", l: sl{list.Init(1001)}, model: []int{1001}, next: 1002, cap: cap}
			}},
			{Property: "C19", PureObservers: true, Component: "DList", Inits: []string{"single"}, MaxDepth: depth, New: func(string) seqmc.Sys {
				return &listSys{name: "DList", l: dl{list.InitDList(1001)}, model: []int{1001}, next: 1002, cap: cap}
			}},
		}
	}
}

type listSys struct {
	name  string
	l     seqList
	model []int
	next  int // next fresh value
	cap   int
	dups  bool
}

func (s *listSys) Ops() []seqmc.Op {
	if s.dups {
		ops := []seqmc.Op{op("Shift"), op("Pop")}
		for v := 1; v <= 3; v++ {
			if len(s.model) < s.cap && v <= 2 {
				ops = append(ops, op("UnshiftV", v), op("AppendV", v))
			}
			for w := 1; w <= 3; w++ {
				if v != w {
					ops = append(ops, op("ReplaceV", v, w))
				}
			}
			// with duplicates present: the node FOUND for a value is its first occurrence, and it is that
			// node (not another one holding an equal value) that is deleted or gets the new neighbour
			present := false
			for _, m := range s.model {
				present = present || m == v
			}
			if !present {
				continue // the node handed to Delete/InsertAfter/InsertBefore is one the caller found
			}
			ops = append(ops, op("DeleteV", v))
			if len(s.model) < s.cap && v <= 2 {
				ops = append(ops, op("InsertAfterV", v, 3-v))
				if s.l.HasInsertBefore() {
					ops = append(ops, op("InsertBeforeV", v, 3-v))
				}
			}
		}
		return ops
	}
	ops := []seqmc.Op{op("Shift"), op("Pop"), op("ReplaceAbsent")}
	if s.l.HasInsertBefore() && len(s.model) >= 2 {
		ops = append(ops, op("Clear")) // DList: a list that is cut back and used again
	}
	grow := len(s.model) < s.cap
	if grow {
		ops = append(ops, op("Unshift"), op("Append"))
	}
	for i := range s.model {
		if grow {
			ops = append(ops, op("InsertAfter", i))
			if s.l.HasInsertBefore() {
				ops = append(ops, op("InsertBefore", i))
			}
		}
		ops = append(ops, op("Delete", i), op("Replace", i))
	}
	return ops
}

// OpClass: position class (first/middle/last/only) is part of a finding's identity.
func (s *listSys) OpClass(o seqmc.Op) string {
	n := len(s.model)
	switch o.N {
	case "Shift", "Pop":
		if n == 1 {
			return o.N + "(singleton)"
		}
		return o.N
	case "InsertAfter", "InsertBefore", "Delete", "Replace":
		i := o.I[0]
		switch {
		case n == 1:
			return o.N + "(only)"
		case i == 0:
			return o.N + "(first)"
		case i == n-1:
			return o.N + "(last)"
		}
		return o.N + "(middle)"
	}
	return o.N
}

func (s *listSys) fresh() int { v := s.next; s.next++; return v }

func insertAt(m []int, i, v int) []int {
	m = append(m, 0)
	copy(m[i+1:], m[i:])
	m[i] = v
	return m
}

func (s *listSys) Apply(o seqmc.Op, c *seqmc.Ctx) {
	n := s.name + "."
	switch o.N {
	case "UnshiftV":
		s.l.Unshift(o.I[0])
		s.model = insertAt(s.model, 0, o.I[0])
	case "AppendV":
		s.l.Append(o.I[0])
		s.model = append(s.model[:len(s.model):len(s.model)], o.I[0])
	case "ReplaceV":
		err := s.l.Replace(o.I[0], o.I[1])
		at := -1
		for i, m := range s.model {
			if m == o.I[0] {
				at = i
				break
			}
		}
		if (at < 0) != (err != nil) {
			c.Soft(n+"Replace/error-iff-absent", "Replace(%d,%d) on %v returned %v", o.I[0], o.I[1], s.model, err)
		}
		if at >= 0 {
			s.model = append([]int{}, s.model...)
			s.model[at] = o.I[1]
		}
	case "DeleteV", "InsertAfterV", "InsertBeforeV":
		at := -1
		for i, m := range s.model {
			if m == o.I[0] {
				at = i
				break
			}
		}
		var err error
		switch o.N {
		case "DeleteV":
			err = s.l.Delete(o.I[0])
		case "InsertAfterV":
			err = s.l.InsertAfter(o.I[0], o.I[1])
		default:
			err = s.l.InsertBefore(o.I[0], o.I[1])
		}
		switch {
		case at < 0:
			if err == nil {
				c.Soft(n+o.N[:len(o.N)-1]+"/no-error-for-absent-value", "%s(%d) on %v returned nil", o.N, o.I[0], s.model)
			}
		case o.N == "DeleteV" && len(s.model) == 1:
			if err == nil {
				c.Soft(n+"Delete/only-node-not-refused", "Delete of the only node returned nil")
			}
		case err != nil:
			c.Soft(n+o.N[:len(o.N)-1]+"/error-for-present-node", "%s(%d) on %v returned %v", o.N, o.I[0], s.model, err)
		case o.N == "DeleteV":
			s.model = append(s.model[:at:at], s.model[at+1:]...)
		case o.N == "InsertAfterV":
			s.model = insertAt(append([]int{}, s.model...), at+1, o.I[1])
		default:
			s.model = insertAt(append([]int{}, s.model...), at, o.I[1])
		}
	case "Unshift":
		v := s.fresh()
		s.l.Unshift(v)
		s.model = insertAt(s.model, 0, v)
	case "Append":
		v := s.fresh()
		s.l.Append(v)
		s.model = append(s.model, v)
	case "Shift":
		s.l.Shift()
		if len(s.model) > 1 {
			s.model = s.model[1:]
		}
	case "Pop":
		s.l.Pop()
		if len(s.model) > 1 {
			s.model = s.model[:len(s.model)-1]
		}
	case "InsertAfter", "InsertBefore":
		i, v := o.I[0], s.fresh()
		var err error
		if o.N == "InsertAfter" {
			err = s.l.InsertAfter(s.model[i], v)
			s.model = insertAt(s.model, i+1, v)
		} else {
			err = s.l.InsertBefore(s.model[i], v)
			s.model = insertAt(s.model, i, v)
		}
		if err != nil {
			c.Soft(n+o.N+"/error-for-present-node", "%s next to position %d returned %v", o.N, i, err)
		}
	case "Delete":
		i := o.I[0]
		err := s.l.Delete(s.model[i])
		if len(s.model) == 1 {
			if err == nil {
				c.Soft(n+"Delete/only-node-not-refused", "Delete of the only node returned nil")
			}
			return
		}
		if err != nil {
			c.Soft(n+"Delete/error-for-present-node", "Delete at position %d of %d returned %v", i, len(s.model), err)
		}
		s.model = append(s.model[:i:i], s.model[i+1:]...)
	case "Replace":
		i, v := o.I[0], s.fresh()
		if err := s.l.Replace(s.model[i], v); err != nil {
			c.Soft(n+"Replace/error-for-present-value", "Replace at position %d returned %v", i, err)
		}
		s.model = append([]int{}, s.model...)
		s.model[i] = v
	case "Clear":
		if s.l.Clear() {
			s.model = append([]int{}, s.model[:1]...)
		}
	case "ReplaceAbsent":
		v := s.fresh()
		if err := s.l.Replace(-7, v); err == nil {
			c.Soft(n+"Replace/absent-value-not-reported", "Replace of an absent value returned nil")
		}
	default:
		panic("unknown op")
	}
}

// chainLen follows next pointers from the embedded head by reflection; -1 = cyclic.
func chainLen(impl any, limit int) int {
	v := seqmc.Get(impl, "next")
	n := 1
	for v.IsValid() && v.Kind() == reflect.Pointer && !v.IsNil() {
		n++
		if n > limit {
			return -1
		}
		v = seqmc.Get(v.Interface(), "next")
	}
	return n
}

func (s *listSys) Observe(c *seqmc.Ctx) {
	n := s.name + "."
	if chainLen(s.l.Impl(), 64) < 0 {
		c.Fail(n+"structure/next-chain-is-cyclic", "the next pointers form a cycle: every traversal (Each, Find, Append, Pop) would loop forever; model %v", s.model)
		return
	}
	var got []int
	s.l.Each(func(v int) {
		if len(got) < 3*len(s.model)+8 {
			got = append(got, v)
		}
	})
	if fmt.Sprint(got) != fmt.Sprint(s.model) {
		c.Fail(n+"Each/"+seqDiff(got, s.model), "Each yields %v, want %v", got, s.model)
		return
	}
	if f := s.l.First(); f != s.model[0] {
		c.Fail(n+"First/wrong", "First = %d, want %d", f, s.model[0])
	}
	if l, ok := s.l.Last(); ok && l != s.model[len(s.model)-1] {
		c.Fail(n+"Last/wrong", "Last = %d, want %d (sequence %v)", l, s.model[len(s.model)-1], s.model)
	}
	if s.dups {
		for v := 1; v <= 3; v++ {
			held := false
			for _, m := range s.model {
				held = held || m == v
			}
			if gv, nn, ok := s.l.Find(v); ok != held || nn != held || (held && gv != v) {
				c.Fail(n+"Find/agrees-with-sequence", "Find(%d) = (node %t value %d, %t) in %v", v, nn, gv, ok, s.model)
			}
		}
		return
	}
	for _, v := range s.model {
		if gv, nn, ok := s.l.Find(v); !ok || !nn || gv != v {
			c.Fail(n+"Find/present-value", "Find(%d) = (node %t value %d, %t) in %v", v, nn, gv, ok, s.model)
		}
	}
	if _, nn, ok := s.l.Find(-7); ok || nn {
		c.Fail(n+"Find/absent-value-found", "Find(absent) = (node %t, %t)", nn, ok)
	}
}

// seqDiff classifies how the observed sequence differs from the model.
func seqDiff(got, want []int) string {
	in := func(x int, s []int) bool {
		for _, y := range s {
			if x == y {
				return true
			}
		}
		return false
	}
	lost, extra, dup := 0, 0, 0
	for _, w := range want {
		if !in(w, got) {
			lost++
		}
	}
	seen := map[int]bool{}
	for _, g := range got {
		if !in(g, want) {
			extra++
		}
		if seen[g] {
			dup++
		}
		seen[g] = true
	}
	var parts []string
	if lost > 0 {
		parts = append(parts, "loses-elements")
	}
	if extra > 0 {
		parts = append(parts, "has-foreign-elements")
	}
	if dup > 0 {
		parts = append(parts, "duplicates-elements")
	}
	if len(parts) == 0 {
		parts = append(parts, "reorders-elements")
	}
	return strings.Join(parts, "+")
}

func (s *listSys) Key() string {
	if s.dups {
		return seqmc.Dump(s.l.Impl()) + "|" + fmt.Sprint(s.model)
	}
	// element values (>= 1000, fresh ones counting up) are renamed canonically by first occurrence: the
	// lists are data independent. Any OTHER integer in the private state (a length counter, a
	// generation number) is part of the state as it is -- renaming it too would merge "value 2, size 1"
	// with "value 1, size 2"
	ren := map[int64]string{}
	f := func(v int64) string {
		if v < 1000 {
			return fmt.Sprint(v)
		}
		if r, ok := ren[v]; ok {
			return r
		}
		r := fmt.Sprintf("v%d", len(ren)+1)
		ren[v] = r
		return r
	}
	d := seqmc.DumpRenamed(s.l.Impl(), f)
	var m []string
	for _, v := range s.model {
		m = append(m, f(int64(v)))
	}
	return d + "|" + strings.Join(m, ",")
}
