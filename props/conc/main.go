//go:build verif

// Command conc runs the checks that explore schedules and virtual time under
// the controlled runtime: C01 C02 C08 C17 C18 C20.
package main

import (
	"fmt"
	"os"

	"verif/core"
)

var thorough = core.Tier() == "thorough"

var registry = map[string]func(rep *core.Report){}

func main() {
	if len(os.Args) < 2 {
		fmt.Fprintln(os.Stderr, "usage: conc <property> | conc replay <file>")
		os.Exit(2)
	}
	if os.Args[1] == "smoke" {
		smoke()
		return
	}
	if sc, ok := subcommands[os.Args[1]]; ok {
		sc(os.Args[2])
		return
	}
	f, ok := registry[os.Args[1]]
	if !ok {
		fmt.Fprintln(os.Stderr, "unknown property", os.Args[1])
		os.Exit(2)
	}
	rep := core.NewReport(os.Args[1])
	f(rep)
	os.Exit(rep.Finish())
}
