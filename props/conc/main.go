//go:build verif

// Command conc runs the checks that explore schedules and virtual time under
// the controlled runtime: C01 C02 C08 C17 C18 C20.
package main

import (
	"encoding/json"
	"fmt"
	"os"
	"os/exec"

	"verif/core"
)

var thorough = core.Tier() == "thorough"

var registry = map[string]func(rep *core.Report){}

func main() {
	if len(os.Args) < 2 {
		fmt.Fprintln(os.Stderr, "usage: conc <property> | conc replay <file>")
		os.Exit(2)
	}
	if os.Args[1] == "replay" {
		os.Exit(replayFile(os.Args[2]))
	}
	if f := os.Getenv("VERIF_REPLAY_FILE"); f != "" {
		loadReplay(f)
	}
	if os.Args[1] == "smoke" {
		smoke()
		return
	}
	if sc, ok := subcommands[os.Args[1]]; ok {
		sc(os.Args[2])
		if r := replayReq; r != nil {
			switch {
			case !r.Seen:
				fmt.Println("  scenario not found in this shard")
				os.Exit(2)
			case r.Hit:
				os.Exit(1)
			}
			fmt.Println("  not reproduced")
		}
		return
	}
	f, ok := registry[os.Args[1]]
	if !ok {
		fmt.Fprintln(os.Stderr, "unknown property", os.Args[1])
		os.Exit(2)
	}
	rep := core.NewReport(os.Args[1])
	f(rep)
	os.Exit(rep.Finish())
}

type replayArtefact struct {
	Property string `json:"property"`
	Key      string `json:"key"`
	Replay   struct {
		Engine   string          `json:"engine"`
		Check    string          `json:"check"`
		Sub      string          `json:"sub"`
		Shard    string          `json:"shard"`
		Scenario string          `json:"scenario"`
		Program  [][]int         `json:"program"`
		Init     int             `json:"init"`
		A        string          `json:"a"`
		B        string          `json:"b"`
		Choices  []int           `json:"choices"`
		Path     json.RawMessage `json:"path"`
	} `json:"replay"`
}

func readArtefact(file string) (*replayArtefact, error) {
	b, err := os.ReadFile(file)
	if err != nil {
		return nil, err
	}
	var a replayArtefact
	if err := json.Unmarshal(b, &a); err != nil {
		return nil, err
	}
	return &a, nil
}

// loadReplay puts a worker into replay mode: only the recorded scenario runs, once, under the recorded choices.
func loadReplay(file string) {
	a, err := readArtefact(file)
	if err != nil {
		fmt.Fprintln(os.Stderr, "replay:", err)
		os.Exit(2)
	}
	r := &struct {
		Scenario string
		Choices  []int
		Key      string
		Hit      bool
		Seen     bool
	}{Scenario: a.Replay.Scenario, Choices: a.Replay.Choices, Key: a.Key}
	switch a.Replay.Check {
	case "C01":
		r.Scenario = fmt.Sprintf("%d|%s|%s", a.Replay.Init, a.Replay.A, a.Replay.B)
	case "C02":
		r.Scenario = fmt.Sprint(a.Replay.Program)
	}
	replayReq = r
}

// replayFile re-executes a replay artefact in a worker subprocess (its own race-detector log for C01).
func replayFile(file string) int {
	a, err := readArtefact(file)
	if err != nil {
		fmt.Fprintln(os.Stderr, "replay:", err)
		return 2
	}
	if len(a.Replay.Path) > 0 && string(a.Replay.Path) != "null" {
		return c08replaySeq(a, file)
	}
	sub, shard := a.Replay.Sub, a.Replay.Shard
	if sub == "" {
		sub = a.Replay.Check + "worker"
	}
	if shard == "" && a.Replay.Check == "C02" {
		shard = fmt.Sprintf("%s:%d", a.Replay.Scenario, a.Replay.Init)
	}
	if _, ok := subcommands[sub]; !ok || shard == "" {
		fmt.Fprintln(os.Stderr, "replay: artefact does not name a worker and shard (produced by an older version?)")
		return 2
	}
	cmd := exec.Command(os.Args[0], sub, shard)
	cmd.Env = append(os.Environ(), "VERIF_REPLAY_FILE="+file, "GOMAXPROCS=2")
	if a.Replay.Check == "C01" {
		dir, _ := os.MkdirTemp("", "tsan")
		defer os.RemoveAll(dir)
		cmd.Env = append(cmd.Env, "VERIF_TSAN_DIR="+dir, "GORACE=halt_on_error=0 exitcode=0 log_path="+dir+"/tsan")
	}
	cmd.Stdout, cmd.Stderr = os.Stdout, os.Stderr
	err = cmd.Run()
	if ee, ok := err.(*exec.ExitError); ok && ee.ExitCode() == 1 {
		fmt.Printf("VIOLATION property=%s replay=%s\n", a.Property, file)
		return 1
	}
	if err != nil {
		return 2
	}
	return 0
}
