//go:build verif

package main

import (
	"fmt"
	"reflect"
	"sort"
	"strings"
	"time"
	"verif/seqmc"

	"github.com/esimov/gogu/bstree"
	"github.com/esimov/gogu/cache"
	"github.com/esimov/gogu/heap"
	"github.com/esimov/gogu/queue"
	"github.com/esimov/gogu/stack"
	"github.com/esimov/gogu/trie"
	"github.com/esimov/gogu/vrtshim/vrt"
)

// A conType describes one "concurrent safe" container for the schedule-exploring checks.
type conType struct {
	name  string
	ops   []opSpec   // single-element alphabet (C02)
	extra []opSpec   // remaining public methods (C01 only)
	inits []initSpec // small initial contents, built sequentially before the threads start
	final func(inst any) string
	probe func(inst any) // post-run usability probe (C01)
	// c01only: a scenario family about several shared instances at once (no single-element alphabet)
	c01only bool
	// atMostOnce: methods of which a C02 program contains at most one call
	atMostOnce map[string]bool
}

type opSpec struct {
	method string // public method name (finding keys use this)
	label  string // with arguments
	run    func(inst any) string
}

type initSpec struct {
	name string
	mk   func() any
}

func lessInt(a, b int) bool { return a < b }

// grownSizes: non-initial start states of the slice-backed containers -- grown to 100 elements and
// reduced to m, for every m in a window that contains the sizes where capacity-dependent logic
// (shrinking, compaction, ring wrap-around) switches over (powers of two and their neighbours).
func grownSizes() []int {
	var out []int
	for m := 6; m <= 34; m++ {
		if thorough || m <= 9 || (m >= 15 && m <= 18) || m >= 31 {
			out = append(out, m)
		}
	}
	if thorough {
		for m := 35; m <= 70; m++ {
			out = append(out, m)
		}
	}
	return out
}

func errStr(err error) string {
	if err != nil {
		return "err"
	}
	return "ok"
}

func conTypes() []*conType {
	var ts []*conType

	// ---- Stack
	{
		type S = *stack.Stack[int]
		t := &conType{name: "Stack"}
		for _, v := range []int{1, 2} {
			v := v
			t.ops = append(t.ops, opSpec{"Push", fmt.Sprintf("Push(%d)", v), func(i any) string { i.(S).Push(v); return "" }})
		}
		t.ops = append(t.ops,
			opSpec{"Pop", "Pop()", func(i any) string { return fmt.Sprint(i.(S).Pop()) }},
			opSpec{"Peek", "Peek()", func(i any) string { return fmt.Sprint(i.(S).Peek()) }},
			opSpec{"Search", "Search(1)", func(i any) string { return fmt.Sprint(i.(S).Search(1)) }},
			opSpec{"Size", "Size()", func(i any) string { return fmt.Sprint(i.(S).Size()) }},
		)
		for _, c := range [][]int{{}, {1}, {1, 2}} {
			c := c
			t.inits = append(t.inits, initSpec{fmt.Sprint(c), func() any {
				s := stack.New[int]()
				for _, v := range c {
					s.Push(v)
				}
				return s
			}})
		}
		t.inits = append(t.inits, initSpec{"large-with-full-backing-array", func() any {
			s := stack.New[int]()
			for i := 0; i < 4096; i++ {
				s.Push(i%2 + 1)
				if iv := seqmc.Get(s, "items"); i >= 1100 && (!iv.IsValid() || iv.Kind() != reflect.Slice || iv.Len() == iv.Cap()) {
					break
				}
			}
			return s
		}})
		// a non-initial start: a stack that had grown (40 elements) and was popped down to 16 -- its
		// backing array is four times its length, where shrinking/compaction logic would kick in
		// a long stack whose only 1 and only 2 sit deep inside (at depths 256 and 512 from either end):
		// scans that work in portions must still find them while another call changes the length
		t.inits = append(t.inits, initSpec{"long-600-with-1-at-256-and-2-at-343", func() any {
			s := stack.New[int]()
			for i := 0; i < 600; i++ {
				v := 3
				if i == 256 {
					v = 1
				} else if i == 343 { // 256 from the top
					v = 2
				}
				s.Push(v)
			}
			return s
		}})
		for _, m := range grownSizes() {
			m := m
			t.inits = append(t.inits, initSpec{fmt.Sprintf("grown-to-100-popped-to-%d", m), func() any {
				s := stack.New[int]()
				for v := 0; v < 100; v++ {
					s.Push(v%2 + 1)
				}
				for v := 0; v < 100-m; v++ {
					s.Pop()
				}
				return s
			}})
		}
		t.final = func(i any) string {
			s := i.(S)
			out := fmt.Sprintf("size=%d:", s.Size())
			for n := 0; s.Size() > 0 && n < 10; n++ {
				out += fmt.Sprint(s.Pop(), ",")
			}
			return out
		}
		t.probe = func(i any) { s := i.(S); s.Push(9); s.Pop(); s.Size() }
		ts = append(ts, t)
	}
	// ---- LStack
	{
		type S = *stack.LStack[int]
		t := &conType{name: "LStack"}
		for _, v := range []int{1, 2} {
			v := v
			t.ops = append(t.ops, opSpec{"Push", fmt.Sprintf("Push(%d)", v), func(i any) string { i.(S).Push(v); return "" }})
		}
		t.ops = append(t.ops,
			opSpec{"Pop", "Pop()", func(i any) string { return fmt.Sprint(i.(S).Pop()) }},
			opSpec{"Peek", "Peek()", func(i any) string { return fmt.Sprint(i.(S).Peek()) }},
			opSpec{"Search", "Search(1)", func(i any) string { return fmt.Sprint(i.(S).Search(1)) }},
			opSpec{"Size", "Size()", func(i any) string { return fmt.Sprint(i.(S).Size()) }},
		)
		for _, c := range [][]int{{1}, {1, 2}, {2, 1, 1}} {
			c := c
			t.inits = append(t.inits, initSpec{fmt.Sprint(c), func() any {
				s := stack.NewLinked[int](c[0])
				for _, v := range c[1:] {
					s.Push(v)
				}
				return s
			}})
		}
		t.final = func(i any) string {
			s := i.(S)
			out := fmt.Sprintf("size=%d:", s.Size())
			for n := 0; s.Size() > 0 && n < 10; n++ {
				out += fmt.Sprint(s.Pop(), ",")
			}
			return out
		}
		t.probe = func(i any) { s := i.(S); s.Push(9); s.Pop(); s.Size() }
		ts = append(ts, t)
	}
	// ---- Queue
	{
		type Q = *queue.Queue[int]
		t := &conType{name: "Queue"}
		for _, v := range []int{1, 2} {
			v := v
			t.ops = append(t.ops, opSpec{"Enqueue", fmt.Sprintf("Enqueue(%d)", v), func(i any) string { i.(Q).Enqueue(v); return "" }})
		}
		t.ops = append(t.ops,
			opSpec{"Dequeue", "Dequeue()", func(i any) string { v, err := i.(Q).Dequeue(); return fmt.Sprint(v, errStr(err)) }},
			opSpec{"Peek", "Peek()", func(i any) string { return fmt.Sprint(i.(Q).Peek()) }},
			opSpec{"Search", "Search(1)", func(i any) string { return fmt.Sprint(i.(Q).Search(1)) }},
			opSpec{"Size", "Size()", func(i any) string { return fmt.Sprint(i.(Q).Size()) }},
			opSpec{"Clear", "Clear()", func(i any) string { i.(Q).Clear(); return "" }},
		)
		for _, c := range [][]int{{}, {1}, {1, 2}} {
			c := c
			t.inits = append(t.inits, initSpec{fmt.Sprint(c), func() any {
				q := queue.New[int]()
				for _, v := range c {
					q.Enqueue(v)
				}
				return q
			}})
		}
		t.inits = append(t.inits, initSpec{"long-600-with-1-at-256-and-2-at-512", func() any {
			q := queue.New[int]()
			for i := 0; i < 600; i++ {
				v := 3
				if i == 256 {
					v = 1
				} else if i == 512 {
					v = 2
				}
				q.Enqueue(v)
			}
			return q
		}})
		// 8200 elements, the only 1 at index 4096 and the only 2 at index 8192 (whatever is done in portions
		// of a few thousand elements); C02 runs the two-call programs on it
		t.inits = append(t.inits, initSpec{"huge-8200-with-1-at-4096-and-2-at-8192", func() any {
			q := queue.New[int]()
			for i := 0; i < 8200; i++ {
				v := 3
				if i == 4096 {
					v = 1
				} else if i == 8192 {
					v = 2
				}
				q.Enqueue(v)
			}
			return q
		}})
		// a large queue whose backing array is exactly full (what an implementation does when it has to
		// grow a big array -- copy outside the lock, switch to another representation -- happens here)
		t.inits = append(t.inits, initSpec{"large-with-full-backing-array", func() any {
			q := queue.New[int]()
			for i := 0; i < 4096; i++ {
				q.Enqueue(i%2 + 1)
				if iv := seqmc.Get(q, "items"); i >= 1100 && (!iv.IsValid() || iv.Kind() != reflect.Slice || iv.Len() == iv.Cap()) {
					break
				}
			}
			return q
		}})
		for _, m := range grownSizes() {
			m := m
			t.inits = append(t.inits, initSpec{fmt.Sprintf("grown-to-100-dequeued-to-%d", m), func() any {
				q := queue.New[int]()
				for v := 0; v < 100; v++ {
					q.Enqueue(v%2 + 1)
				}
				for v := 0; v < 100-m; v++ {
					q.Dequeue()
				}
				return q
			}})
		}
		t.final = func(i any) string {
			q := i.(Q)
			out := fmt.Sprintf("size=%d:", q.Size())
			for n := 0; q.Size() > 0 && n < 10; n++ {
				v, _ := q.Dequeue()
				out += fmt.Sprint(v, ",")
			}
			return out
		}
		t.probe = func(i any) { q := i.(Q); q.Enqueue(9); q.Dequeue(); q.Size() }
		ts = append(ts, t)
	}
	// ---- LQueue
	{
		type Q = *queue.LQueue[int]
		t := &conType{name: "LQueue"}
		for _, v := range []int{1, 2} {
			v := v
			t.ops = append(t.ops, opSpec{"Enqueue", fmt.Sprintf("Enqueue(%d)", v), func(i any) string { i.(Q).Enqueue(v); return "" }})
		}
		t.ops = append(t.ops,
			opSpec{"Dequeue", "Dequeue()", func(i any) string { return fmt.Sprint(i.(Q).Dequeue()) }},
			opSpec{"Peek", "Peek()", func(i any) string { return fmt.Sprint(i.(Q).Peek()) }},
			opSpec{"Search", "Search(1)", func(i any) string { return fmt.Sprint(i.(Q).Search(1)) }},
			opSpec{"Size", "Size()", func(i any) string { return fmt.Sprint(i.(Q).Size()) }},
			opSpec{"Clear", "Clear()", func(i any) string { i.(Q).Clear(); return "" }},
		)
		for _, c := range [][]int{{1}, {1, 2}, {2, 1, 1}} {
			c := c
			t.inits = append(t.inits, initSpec{fmt.Sprint(c), func() any {
				q := queue.NewLinked[int](c[0])
				for _, v := range c[1:] {
					q.Enqueue(v)
				}
				return q
			}})
		}
		t.final = func(i any) string {
			q := i.(Q)
			out := fmt.Sprintf("size=%d:", q.Size())
			for n := 0; q.Size() > 0 && n < 10; n++ {
				out += fmt.Sprint(q.Dequeue(), ",")
			}
			return out
		}
		t.probe = func(i any) { q := i.(Q); q.Enqueue(9); q.Dequeue(); q.Size() }
		ts = append(ts, t)
	}
	// ---- Heap
	{
		type H = *heap.Heap[int]
		t := &conType{name: "Heap"}
		for _, v := range []int{1, 2} {
			v := v
			t.ops = append(t.ops, opSpec{"Push", fmt.Sprintf("Push(%d)", v), func(i any) string { i.(H).Push(v); return "" }})
		}
		t.ops = append(t.ops,
			opSpec{"Pop", "Pop()", func(i any) string { return fmt.Sprint(i.(H).Pop()) }},
			opSpec{"Peek", "Peek()", func(i any) string { return fmt.Sprint(i.(H).Peek()) }},
			opSpec{"Size", "Size()", func(i any) string { return fmt.Sprint(i.(H).Size()) }},
			opSpec{"IsEmpty", "IsEmpty()", func(i any) string { return fmt.Sprint(i.(H).IsEmpty()) }},
			opSpec{"Clear", "Clear()", func(i any) string { i.(H).Clear(); return "" }},
		)
		for _, v := range []int{1, 2} {
			v := v
			t.ops = append(t.ops, opSpec{"Delete", fmt.Sprintf("Delete(%d)", v), func(i any) string { ok, err := i.(H).Delete(v); return fmt.Sprint(ok, errStr(err)) }})
		}
		t.extra = append(t.extra,
			opSpec{"GetValues", "GetValues()+read", func(i any) string {
				vs := i.(H).GetValues()
				s := 0
				for _, v := range vs { // the caller reads what it was handed
					s += v
				}
				return fmt.Sprint(len(vs))
			}},
			opSpec{"Convert", "Convert(>)", func(i any) string { i.(H).Convert(func(a, b int) bool { return a > b }); return "" }},
			// the caller spreads a slice into Push and keeps using that slice (its own memory) afterwards
			opSpec{"Push", "Push(buf...)+caller-reuses-buf", func(i any) string {
				buf := []int{2, 1, 3}
				i.(H).Push(buf...)
				buf[0], buf[1], buf[2] = 7, 8, 9
				return ""
			}},
			opSpec{"Merge", "Merge(other)", func(i any) string {
				o := heap.NewHeap(lessInt)
				o.Push(5)
				return fmt.Sprint(i.(H).Merge(o).Size())
			}},
			opSpec{"Meld", "Meld(other)", func(i any) string {
				o := heap.NewHeap(lessInt)
				o.Push(5)
				return fmt.Sprint(i.(H).Meld(o).Size())
			}},
		)
		for _, c := range [][]int{{}, {1}, {1, 2, 2}} {
			c := c
			t.inits = append(t.inits, initSpec{fmt.Sprint(c), func() any {
				h := heap.NewHeap(lessInt)
				h.Push(c...)
				return h
			}})
		}
		for _, m := range grownSizes() {
			m := m
			t.inits = append(t.inits, initSpec{fmt.Sprintf("grown-to-100-popped-to-%d", m), func() any {
				h := heap.NewHeap(lessInt)
				for v := 0; v < 100; v++ {
					h.Push(v%2 + 1)
				}
				for v := 0; v < 100-m; v++ {
					h.Pop()
				}
				return h
			}})
		}
		// 1100 elements with the only 2 at the root (on the path of every insertion): what is done
		// differently for large heaps; C02 runs the two-call programs on it
		t.inits = append(t.inits, initSpec{"huge-1100-with-2-at-the-root", func() any {
			h := heap.NewHeap(lessInt)
			h.Push(2)
			for i := 0; i < 1099; i++ {
				h.Push(3)
			}
			return h
		}})
		t.final = func(i any) string {
			h := i.(H)
			out := fmt.Sprintf("size=%d:", h.Size())
			for n := 0; h.Size() > 0 && n < 10; n++ {
				out += fmt.Sprint(h.Pop(), ",")
			}
			return out
		}
		t.probe = func(i any) { h := i.(H); h.Push(9); h.Pop(); h.Size() }
		ts = append(ts, t)
	}
	// ---- two shared heaps used as each other's argument (Merge/Meld take a second heap)
	{
		type P = [2]*heap.Heap[int]
		t := &conType{name: "HeapPair", c01only: true}
		for _, d := range [][2]int{{0, 1}, {1, 0}} {
			d := d
			n := fmt.Sprintf("%c<-%c", 'A'+d[0], 'A'+d[1])
			t.extra = append(t.extra,
				opSpec{"Meld(" + n + ")", "Meld " + n, func(i any) string { p := i.(P); return fmt.Sprint(p[d[0]].Meld(p[d[1]]).Size()) }},
				opSpec{"Merge(" + n + ")", "Merge " + n, func(i any) string { p := i.(P); return fmt.Sprint(p[d[0]].Merge(p[d[1]]).Size()) }},
			)
		}
		for _, x := range []int{0, 1} {
			x := x
			n := string(rune('A' + x))
			t.extra = append(t.extra,
				opSpec{"Push(" + n + ")", "Push 7 on " + n, func(i any) string { i.(P)[x].Push(7); return "" }},
				opSpec{"Pop(" + n + ")", "Pop on " + n, func(i any) string { return fmt.Sprint(i.(P)[x].Pop()) }},
			)
		}
		for _, c := range [][]int{{}, {1}, {1, 2, 2}} {
			c := c
			t.inits = append(t.inits, initSpec{fmt.Sprint(c), func() any {
				a, b := heap.NewHeap(lessInt), heap.NewHeap(lessInt)
				a.Push(c...)
				b.Push(c...)
				b.Push(4)
				return P{a, b}
			}})
		}
		t.final = func(i any) string { p := i.(P); return fmt.Sprint(p[0].Size(), p[1].Size()) }
		t.probe = func(i any) {
			for _, h := range i.(P) {
				h.Push(9)
				h.Pop()
				h.Size()
			}
		}
		ts = append(ts, t)
	}
	// ---- BsTree
	{
		type B = *bstree.BsTree[int, string]
		t := &conType{name: "BsTree"}
		for _, k := range []int{1, 2} {
			for _, v := range []string{"a", "b"} {
				k, v := k, v
				t.ops = append(t.ops, opSpec{"Upsert", fmt.Sprintf("Upsert(%d,%s)", k, v), func(i any) string { i.(B).Upsert(k, v); return "" }})
			}
		}
		for _, k := range []int{1, 2} {
			k := k
			t.ops = append(t.ops,
				opSpec{"Get", fmt.Sprintf("Get(%d)", k), func(i any) string { it, err := i.(B).Get(k); return it.Val + errStr(err) }},
				opSpec{"Delete", fmt.Sprintf("Delete(%d)", k), func(i any) string { return errStr(i.(B).Delete(k)) }},
			)
		}
		t.ops = append(t.ops, opSpec{"Size", "Size()", func(i any) string { return fmt.Sprint(i.(B).Size()) }})
		// Traverse against concurrent writers, judged by what even a weakly consistent traversal owes its
		// caller: a key that no concurrent call touches (3: the calls work on 1 and 2) and that is present
		// throughout is visited exactly once, with its value; what is reported about 1 and 2 is left open
		t.ops = append(t.ops, opSpec{"Traverse", "Traverse()/visits-of-the-untouched-key-3", func(i any) string {
			n, val := 0, ""
			seen := map[int]int{}
			prev, ordered := 0, true
			i.(B).Traverse(func(it bstree.Item[int, string]) {
				if it.Key == 3 {
					n++
					val = it.Val
				}
				seen[it.Key]++
				if len(seen) > 1 && it.Key <= prev && seen[it.Key] == 1 {
					ordered = false
				}
				prev = it.Key
			})
			// ... and whatever else it visits, no key twice and the keys in comparator order
			out := fmt.Sprint(n, val)
			for k, c := range seen {
				if c > 1 {
					out += fmt.Sprintf(" [key %d visited %d times]", k, c)
				}
			}
			if !ordered {
				out += " [not in key order]"
			}
			return out
		}})
		t.extra = append(t.extra, opSpec{"Traverse", "Traverse(record)", func(i any) string {
			var out []string
			i.(B).Traverse(func(it bstree.Item[int, string]) { out = append(out, fmt.Sprint(it.Key, it.Val)) })
			return strings.Join(out, ",")
		}})
		for _, c := range [][]int{{}, {1}, {2, 1, 3}, {1, 2}} { // {1,2}: a root with one child
			c := c
			t.inits = append(t.inits, initSpec{fmt.Sprint(c), func() any {
				b := bstree.New[int, string](lessInt)
				for _, k := range c {
					b.Upsert(k, "i")
				}
				return b
			}})
		}
		t.final = func(i any) string {
			b := i.(B)
			out := fmt.Sprintf("size=%d:", b.Size())
			for k := 1; k <= 3; k++ {
				it, err := b.Get(k)
				out += fmt.Sprint(k, "=", it.Val, errStr(err), ",")
			}
			return out
		}
		t.probe = func(i any) { b := i.(B); b.Upsert(9, "z"); b.Get(9); b.Size() }
		ts = append(ts, t)
	}
	// ---- Trie
	{
		type T = *trie.Trie[string, int]
		t := &conType{name: "Trie"}
		for _, k := range []string{"a", "ab"} {
			for _, v := range []int{1, 2} {
				k, v := k, v
				t.ops = append(t.ops, opSpec{"Put", fmt.Sprintf("Put(%s,%d)", k, v), func(i any) string { i.(T).Put(k, v); return "" }})
			}
		}
		for _, k := range []string{"a", "ab"} {
			k := k
			t.ops = append(t.ops,
				opSpec{"Get", fmt.Sprintf("Get(%s)", k), func(i any) string { v, ok := i.(T).Get(k); return fmt.Sprint(v, ok) }},
				opSpec{"Contains", fmt.Sprintf("Contains(%s)", k), func(i any) string { return fmt.Sprint(i.(T).Contains(k)) }},
			)
		}
		t.ops = append(t.ops, opSpec{"Size", "Size()", func(i any) string { return fmt.Sprint(i.(T).Size()) }})
		drain := func(q trie.Queuer[string]) string {
			var out []string
			for n := 0; q.Size() > 0 && n < 10; n++ {
				k, err := q.Dequeue()
				if err != nil {
					break
				}
				out = append(out, k)
			}
			return strings.Join(out, ",")
		}
		// a prefix query against concurrent Puts (one query per program: the results of two queries go
		// through the trie's one result queue, which is the caller's to keep apart)
		t.ops = append(t.ops, opSpec{"StartsWith", "StartsWith(a)+drain", func(i any) string { q, _ := i.(T).StartsWith("a"); return drain(q) }})
		// a third key under the prefix, so that the set of keys starting with "a" passes through states a
		// torn query can mix ({ab}, {a,ab}, {a,ab,ac})
		t.ops = append(t.ops, opSpec{"Put", "Put(ac,1)", func(i any) string { i.(T).Put("ac", 1); return "" }})
		t.atMostOnce = map[string]bool{"StartsWith": true}
		t.extra = append(t.extra,
			opSpec{"Keys", "Keys()+drain", func(i any) string { q, _ := i.(T).Keys(); return drain(q) }},
			opSpec{"StartsWith", "StartsWith(a)+drain", func(i any) string { q, _ := i.(T).StartsWith("a"); return drain(q) }},
			opSpec{"LongestPrefix", "LongestPrefix(abc)", func(i any) string { p, _ := i.(T).LongestPrefix("abc"); return p }},
		)
		// keys past a length threshold (round 7: C01-14, a last-lookup memo for keys of 12 bytes or more,
		// written under the read lock), as methods of their own so that the short-key variants stay
		for _, k := range []string{"a-key-of-16-byte", "another-long-key-of-27-byte"} {
			k := k
			t.extra = append(t.extra,
				opSpec{"Get/long-key", fmt.Sprintf("Get(%s)", k), func(i any) string { v, ok := i.(T).Get(k); return fmt.Sprint(v, ok) }},
				opSpec{"Contains/long-key", fmt.Sprintf("Contains(%s)", k), func(i any) string { return fmt.Sprint(i.(T).Contains(k)) }},
				opSpec{"Put/long-key", fmt.Sprintf("Put(%s,1)", k), func(i any) string { i.(T).Put(k, 1); return "" }},
			)
		}
		for _, c := range [][]string{{}, {"a"}, {"ab", "b"}, {"a", "a-key-of-16-byte", "another-long-key-of-27-byte"}} {
			c := c
			t.inits = append(t.inits, initSpec{fmt.Sprint(c), func() any {
				tr := trie.New[string, int](queue.New[string]())
				for _, k := range c {
					tr.Put(k, 9)
				}
				return tr
			}})
		}
		t.final = func(i any) string {
			tr := i.(T)
			out := fmt.Sprintf("size=%d:", tr.Size())
			for _, k := range []string{"a", "ab", "ac", "b"} {
				v, ok := tr.Get(k)
				out += fmt.Sprint(k, "=", v, ok, ",")
			}
			return out
		}
		t.probe = func(i any) { tr := i.(T); tr.Put("z", 1); tr.Get("z"); tr.Size() }
		ts = append(ts, t)
	}
	// ---- Cache (clock frozen, no janitor)
	{
		type C = *cache.Cache[string, string]
		t := &conType{name: "Cache"}
		for _, k := range []string{"x", "y"} {
			k := k
			for _, v := range []string{"p", "q"} {
				v := v
				t.ops = append(t.ops,
					opSpec{"Set", fmt.Sprintf("Set(%s,%s)", k, v), func(i any) string { return errStr(i.(C).Set(k, v, cache.NoExpiration)) }},
					opSpec{"Update", fmt.Sprintf("Update(%s,%s)", k, v), func(i any) string { return errStr(i.(C).Update(k, v, cache.NoExpiration)) }},
				)
			}
			t.ops = append(t.ops,
				opSpec{"Get", fmt.Sprintf("Get(%s)", k), func(i any) string { it, err := i.(C).Get(k); return it.Val() + errStr(err) }},
				opSpec{"Delete", fmt.Sprintf("Delete(%s)", k), func(i any) string { return errStr(i.(C).Delete(k)) }},
			)
		}
		t.ops = append(t.ops,
			// the caller keeps the item it was handed and reads it again later (a scheduling point in
			// between): what Get returned must not change under the caller, whatever the other calls do
			opSpec{"Get", "Get(x)+read-item-again-later", func(i any) string {
				it, err := i.(C).Get("x")
				v1 := it.Val()
				vrt.Sched("caller holds the item returned by Get")
				if v2 := it.Val(); v2 != v1 {
					return v1 + errStr(err) + " [the item read again later says " + v2 + "]"
				}
				return v1 + errStr(err)
			}},
			// the sweep the cleanup goroutine runs at every interval
			opSpec{"DeleteExpired", "DeleteExpired()", func(i any) string { return errStr(i.(C).DeleteExpired()) }},
			opSpec{"Count", "Count()", func(i any) string { return fmt.Sprint(i.(C).Count()) }},
			opSpec{"Flush", "Flush()", func(i any) string { i.(C).Flush(); return "" }},
		)
		t.extra = append(t.extra,
			opSpec{"List", "List()+iterate", func(i any) string {
				m := i.(C).List()
				var ks []string
				for k, it := range m { // the caller iterates what it was handed
					ks = append(ks, k+"="+it.Val())
				}
				sort.Strings(ks)
				return strings.Join(ks, ",")
			}},
			opSpec{"SetDefault", "SetDefault(x,p)", func(i any) string { return errStr(i.(C).SetDefault("x", "p")) }},
			opSpec{"MapToCache", "MapToCache({x:p,y:q})", func(i any) string {
				return errStr(i.(C).MapToCache(map[string]string{"x": "p", "y": "q"}, cache.NoExpiration))
			}},
			opSpec{"IsExpired", "IsExpired(x)", func(i any) string { return fmt.Sprint(i.(C).IsExpired("x")) }},
			// the caller keeps using the map it passed in (its own memory): the cache must have copied it
			opSpec{"MapToCache", "MapToCache(m)+caller-reuses-m", func(i any) string {
				m := map[string]string{"x": "p", "z": "q"}
				e := errStr(i.(C).MapToCache(m, cache.NoExpiration))
				m["x"] = "r"
				delete(m, "z")
				m["w"] = "s"
				return e
			}},
		)
		for _, c := range [][]string{{}, {"x"}, {"x", "y"}} {
			c := c
			t.inits = append(t.inits, initSpec{fmt.Sprint(c), func() any {
				ca := cache.New[string, string](cache.NoExpiration, 0)
				for _, k := range c {
					ca.Set(k, "i", cache.NoExpiration)
				}
				return ca
			}})
		}
		// non-initial starts in time: x (and y) stored with a 3 ms lifetime and the virtual clock moved
		// past it -- expired but not purged (the clock stays frozen during the calls themselves)
		for _, c := range [][]string{{"x"}, {"x", "y"}} {
			c := c
			t.inits = append(t.inits, initSpec{fmt.Sprint(c) + "-expired-unpurged", func() any {
				ca := cache.New[string, string](cache.NoExpiration, 0)
				for _, k := range c {
					ca.Set(k, "i", 3*time.Millisecond)
				}
				vrt.Advance(4 * time.Millisecond)
				return ca
			}})
		}
		t.final = func(i any) string {
			ca := i.(C)
			out := fmt.Sprintf("count=%d:", ca.Count())
			for _, k := range []string{"x", "y"} {
				it, err := ca.Get(k)
				out += fmt.Sprint(k, "=", it.Val(), errStr(err), ",")
			}
			return out
		}
		t.probe = func(i any) { ca := i.(C); ca.Update("z", "v", cache.NoExpiration); ca.Get("z"); ca.Count() }
		ts = append(ts, t)
	}
	return ts
}
