//go:build verif

// Package vrand mirrors the math/rand functions gogu uses; when choices are
// driven (explorer attached or ChooseHook set) every answer is a choice point.
package vrand

import (
	"math/rand"

	"github.com/esimov/gogu/vrtshim/vrt"
)

func driven() bool { return vrt.Active() || vrt.ChooseHook != nil }

// IntMod is the rewriting of the expression `rand.Int() % n`.
func IntMod(n int) int {
	if !driven() {
		return rand.Int() % n
	}
	if n == 0 {
		panic("runtime error: integer divide by zero")
	}
	if n < 0 {
		n = -n
	}
	return vrt.Choose(n)
}

func Intn(n int) int {
	if !driven() {
		return rand.Intn(n)
	}
	if n <= 0 {
		panic("invalid argument to Intn")
	}
	return vrt.Choose(n)
}

func Int63n(n int64) int64 { return int64(Intn(int(n))) }
func Int31n(n int32) int32 { return int32(Intn(int(n))) }

// small is the answer set of an unconstrained draw: values hitting every residue class modulo 1..6.
var small = []int{0, 1, 2, 3, 4, 5, 7, 11, 59}

func Int() int {
	if !driven() {
		return rand.Int()
	}
	return small[vrt.Choose(len(small))]
}

func Int63() int64   { return int64(Int()) }
func Int31() int32   { return int32(Int()) }
func Uint32() uint32 { return uint32(Int()) }

func Float64() float64 {
	if !driven() {
		return rand.Float64()
	}
	return []float64{0, 0.25, 0.5, 0.999}[vrt.Choose(4)]
}

func Perm(n int) []int {
	if !driven() {
		return rand.Perm(n)
	}
	p := make([]int, n)
	for i := range p {
		p[i] = i
	}
	for i := n - 1; i > 0; i-- {
		j := vrt.Choose(i + 1)
		p[i], p[j] = p[j], p[i]
	}
	return p
}

func Shuffle(n int, swap func(i, j int)) {
	if !driven() {
		rand.Shuffle(n, swap)
		return
	}
	for i := n - 1; i > 0; i-- {
		swap(i, vrt.Choose(i+1))
	}
}

func Seed(int64) {}

// ---------------------------------------------------------------- generators of one's own

// Source / Rand mirror math/rand's explicit generators. A *Rand is NOT safe for concurrent use, and the
// shim keeps it that way: every draw touches the generator's own state without synchronisation, so that
// two goroutines sharing one generator are a data race here exactly as they are with the real type.
type Source = rand.Source

func NewSource(seed int64) Source { return rand.NewSource(seed) }

type Rand struct {
	real  *rand.Rand
	draws int // unsynchronised on purpose (see above)
}

func New(src Source) *Rand { return &Rand{real: rand.New(src)} }

func (r *Rand) Seed(seed int64) { r.draws++; r.real.Seed(seed) }

func (r *Rand) Int() int {
	r.draws++
	if !driven() {
		return r.real.Int()
	}
	return Int()
}

func (r *Rand) Intn(n int) int {
	r.draws++
	if !driven() {
		return r.real.Intn(n)
	}
	return Intn(n)
}

func (r *Rand) Int63() int64         { return int64(r.Int()) }
func (r *Rand) Int31() int32         { return int32(r.Int()) }
func (r *Rand) Uint32() uint32       { return uint32(r.Int()) }
func (r *Rand) Int63n(n int64) int64 { return int64(r.Intn(int(n))) }
func (r *Rand) Int31n(n int32) int32 { return int32(r.Intn(int(n))) }

func (r *Rand) Float64() float64 {
	r.draws++
	if !driven() {
		return r.real.Float64()
	}
	return Float64()
}

func (r *Rand) Perm(n int) []int {
	r.draws++
	if !driven() {
		return r.real.Perm(n)
	}
	return Perm(n)
}

func (r *Rand) Shuffle(n int, swap func(i, j int)) {
	r.draws++
	if !driven() {
		r.real.Shuffle(n, swap)
		return
	}
	Shuffle(n, swap)
}
