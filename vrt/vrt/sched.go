//go:build verif

// Package vrt is the controlled runtime: a cooperative scheduler under which
// exactly one registered thread is runnable at any instant, a virtual clock
// with timers, model channels, and the choice machinery (thread choice, select
// choice, data choice) that the stateless explorer drives.
//
// Every function that touches scheduler state is //go:norace and keeps its
// state in fixed arrays: under -race the hand-offs between threads are made
// invisible to the detector (RaceDisable/RaceEnable), so the detector sees
// exactly the synchronisation the program under test performs itself.
package vrt

import (
	"os"
	"fmt"
	"runtime"
	"runtime/debug"
	"sort"
	"strings"
	"sync"
)

const (
	MaxThreads = 32
	MaxPoints  = 1 << 13
	MaxTimers  = 64
)

type abortSentinel struct{}

type Thread struct {
	ID     int
	Name   string
	Daemon bool
	wake   chan struct{}
	status int // 0 unused, 1 live, 2 done
	// can is the enabledness predicate of the operation the thread is parked at (nil = enabled).
	// It is an interface over small structs with //go:norace methods, never a closure: closures are
	// instrumented by the race detector even inside //go:norace functions, and a predicate is
	// evaluated by whichever thread happens to run the scheduler.
	can  Waiter
	what string // description of the pending operation (for deadlock reports)
	pc   uint64 // hash of the call stack at the pending operation (stateful exploration: the thread's continuation)
	// lastNow is the value of the virtual clock this thread read last (time.Now/Since): code that reads
	// the clock and then waits for a lock holds that value in a local while other threads move the clock
	lastNow    int64
	hasLastNow bool
	steps      int
	Panic      string // recovered panic of the thread body, if any
}

// Point is one recorded choice.
type Point struct {
	N          int  // number of options
	Chosen     int  // index taken
	Data       bool // data choice (Choose / select / timer tie) rather than thread choice
	CurEnabled bool // thread choice: the running thread was still enabled (option 0)
	Opts       [8]int8
}

// Exec is the state of one controlled execution.
type Exec struct {
	threads [MaxThreads]Thread
	nthr    int
	cur     int

	prefix []int
	points [MaxPoints]Point
	np     int

	Steps    int
	Horizon  int
	aborting bool

	clock  int64
	timers [MaxTimers]timer
	ntimer int
	tseq   int

	// outcome
	Deadlock     bool
	DeadlockInfo string
	HorizonHit   bool
	Diverged     string // nondeterminism detected while replaying the prefix
	Overflow     bool

	done chan struct{} // visible hand-off to the controller
	wg   sync.WaitGroup

	// state hashing for the optional visited-state statistics
	OpCount [MaxThreads]int

	// NoPreemptBound data
	Trace     [MaxPoints]int16 // thread id scheduled at each step (for replay artefacts)
	ntrace    int
	QuickMode bool // drop scheduling points before pure releases
	objSeq    int
	stamp     int

	// Stateful exploration (optional): KeyFn renders the shared state the harness cares about,
	// Visited is asked at every scheduling point beyond the replayed prefix whether the global state
	// (threads' continuations + timers + KeyFn) was seen before; if so the execution is cut (Pruned).
	KeyFn   func() string
	Visited func(key string) bool
	Pruned  bool
	LastKey string
	// NewStates counts the global states this execution visited first
	NewStates int
}

var theExec Exec

// Waiter is the enabledness predicate of a pending operation. Implementations must be //go:norace.
type Waiter interface{ Ready() bool }

// Never is the predicate of an operation that blocks forever.
type Never struct{}

//go:norace
func (Never) Ready() bool { return false }

// X is the running execution; nil means pass-through mode (every shim forwards to the real primitive).
var X *Exec

//go:norace
func Active() bool { x := X; return x != nil && !x.aborting }

//go:norace
func (x *Exec) Cur() *Thread { return &x.threads[x.cur] }

//go:norace
func CurID() int {
	if x := X; x != nil {
		return x.cur
	}
	return -1
}

//go:norace
func (x *Exec) NumPoints() int { return x.np }

//go:norace
func (x *Exec) PointAt(i int) Point { return x.points[i] }

//go:norace
func (x *Exec) NumThreads() int { return x.nthr }

//go:norace
func (x *Exec) ThreadAt(i int) *Thread { return &x.threads[i] }

//go:norace
func (x *Exec) Schedule() []int16 { return x.Trace[:x.ntrace] }

// choose records and answers one choice among n options.
//
//go:norace
func (x *Exec) choose(n int, data, curEnabled bool, opts []int) int {
	if n <= 1 {
		return 0
	}
	if x.np >= MaxPoints {
		x.Overflow = true
		return 0
	}
	c := 0
	if x.np < len(x.prefix) {
		c = x.prefix[x.np]
		if c >= n {
			if x.Diverged == "" {
				x.Diverged = fmt.Sprintf("choice %d: prefix wants option %d but only %d exist", x.np, c, n)
			}
			c = 0
		}
	}
	p := &x.points[x.np]
	p.N, p.Chosen, p.Data, p.CurEnabled = n, c, data, curEnabled
	for i := 0; i < len(p.Opts); i++ {
		if i < len(opts) {
			p.Opts[i] = int8(opts[i])
		} else {
			p.Opts[i] = -1
		}
	}
	x.np++
	return c
}

// Choose is a data choice point (0..n-1), free of preemption cost.
//
//go:norace
func Choose(n int) int {
	x := X
	if x == nil || x.aborting {
		if h := ChooseHook; h != nil {
			return h(n)
		}
		return 0
	}
	return x.choose(n, true, false, nil)
}

// ChooseHook serves Choose when no execution is attached (choice-only exploration of sequential code).
var ChooseHook func(n int) int

//go:norace
func (x *Exec) enabled(t *Thread) bool {
	if t.status != 1 {
		return false
	}
	return t.can == nil || t.can.Ready()
}

// pick chooses the next thread among the enabled ones; -1 if none.
//
//go:norace
func (x *Exec) pick() int {
	var opts [MaxThreads]int
	n := 0
	curEn := false
	if c := &x.threads[x.cur]; x.enabled(c) {
		opts[n] = x.cur
		n++
		curEn = true
	}
	for i := 0; i < x.nthr; i++ {
		if i != x.cur && x.enabled(&x.threads[i]) {
			opts[n] = i
			n++
		}
	}
	if n == 0 {
		return -1
	}
	return opts[x.choose(n, false, curEn, opts[:n])]
}

// yield is the heart: the current thread t has published its pending
// operation (t.can); decide who runs next and hand over if it is not t.
//
//go:norace
func (x *Exec) yield(t *Thread) {
	for {
		if x.aborting {
			panic(abortSentinel{})
		}
		x.Steps++
		if x.Horizon > 0 && x.Steps > x.Horizon {
			x.HorizonHit = true
			x.finish()
			x.park(t)
			continue
		}
		if x.Visited != nil && x.np >= len(x.prefix) {
			k := x.stateKey()
			x.LastKey = k
			x.NewStates++
			if x.Visited(k) {
				x.NewStates--
				x.Pruned = true
				x.finishPruned()
				x.park(t)
				continue
			}
		}
		next := x.pick()
		if next < 0 {
			if x.fireNextTimer() {
				continue
			}
			x.finish() // nothing enabled, no timer pending
			x.park(t)
			continue
		}
		if x.ntrace < MaxPoints {
			x.Trace[x.ntrace] = int16(next)
			x.ntrace++
		}
		if traceSteps {
			println("step: clock", x.clock, "thread", t.ID, t.Name, "at", t.what, "-> runs", next, x.threads[next].what)
		}
		if next == t.ID {
			t.can = nil
			t.steps++
			return
		}
		x.cur = next
		x.wakeThread(&x.threads[next])
		x.park(t)
		if x.aborting {
			panic(abortSentinel{})
		}
		// we were chosen by somebody else's yield
		t.can = nil
		t.steps++
		return
	}
}

//go:norace
func (x *Exec) wakeThread(t *Thread) {
	raceDisable()
	t.wake <- struct{}{}
	raceEnable()
}

//go:norace
func (x *Exec) park(t *Thread) {
	raceDisable()
	<-t.wake
	raceEnable()
}

// finish tells the controller that the execution is over (all done, deadlock or horizon).
//
//go:norace
func (x *Exec) finish() {
	if x.aborting {
		return
	}
	x.aborting = true
	var blocked []string
	for i := 0; i < x.nthr; i++ {
		t := &x.threads[i]
		if t.status == 1 && !t.Daemon {
			blocked = append(blocked, fmt.Sprintf("%s blocked at %s", t.Name, t.what))
		}
	}
	if len(blocked) > 0 && !x.HorizonHit {
		x.Deadlock = true
		x.DeadlockInfo = strings.Join(blocked, "; ")
	}
	x.done <- struct{}{} // visible: orders every thread's writes before the controller's reads
}

// finishPruned ends the execution because its global state was visited before (not a deadlock).
//
//go:norace
func (x *Exec) finishPruned() {
	if x.aborting {
		return
	}
	x.aborting = true
	x.done <- struct{}{}
}

// exit is called when a thread's body has returned.
//
//go:norace
func (x *Exec) exit(t *Thread) {
	t.status = 2
	if x.aborting {
		return
	}
	// the execution ends as soon as every non-daemon thread has finished
	live := false
	for i := 0; i < x.nthr; i++ {
		if x.threads[i].status == 1 && !x.threads[i].Daemon {
			live = true
		}
	}
	if !live {
		x.finish()
		return
	}
	for {
		// stateful exploration: the end of a thread is a scheduling point like any other (who runs
		// next is a choice), so the global state is looked up here too
		if x.Visited != nil && x.np >= len(x.prefix) {
			k := x.stateKey()
			x.LastKey = k
			x.NewStates++
			if x.Visited(k) {
				x.NewStates--
				x.Pruned = true
				x.finishPruned()
				return
			}
		}
		next := x.pick()
		if next < 0 {
			if x.fireNextTimer() {
				continue
			}
			x.finish()
			return
		}
		if x.ntrace < MaxPoints {
			x.Trace[x.ntrace] = int16(next)
			x.ntrace++
		}
		x.cur = next
		x.wakeThread(&x.threads[next])
		return
	}
}

// Point is a plain scheduling point before a visible operation that cannot block.
//
//go:norace
func Sched(what string) {
	x := X
	if x == nil || x.aborting {
		return
	}
	t := &x.threads[x.cur]
	t.can = nil
	t.what = what
	x.OpCount[t.ID]++
	if x.Visited != nil {
		t.pc = stackHash()
	}
	x.yield(t)
}

// stackHash identifies the continuation of the calling thread by its return addresses.
//
//go:norace
func stackHash() uint64 {
	var pcs [24]uintptr
	n := runtime.Callers(3, pcs[:])
	h := uint64(1469598103934665603)
	for _, pc := range pcs[:n] {
		h = (h ^ uint64(pc)) * 1099511628211
	}
	return h
}

// stateKey renders the global state for stateful exploration.
//
//go:norace
func (x *Exec) stateKey() string {
	var sb strings.Builder
	// live threads in creation order (finished ones, and with them the ids, do not matter: a timer
	// callback that has run and gone leaves the same state behind whichever id it had)
	var th []string
	for i := 0; i < x.nthr; i++ {
		t := &x.threads[i]
		if t.status != 1 {
			continue
		}
		mark := ""
		if i == x.cur {
			mark = "*"
		}
		age := ""
		if ClockReadCap > 0 && t.hasLastNow {
			a := x.clock - t.lastNow
			if a > ClockReadCap {
				a = ClockReadCap
			}
			age = fmt.Sprintf("~%d", a)
		}
		th = append(th, fmt.Sprintf("%s%s@%x/%t%s;", mark, t.what, t.pc, t.can == nil || t.can.Ready(), age))
	}
	sort.Strings(th) // slots are reused: the order of the live threads carries no information
	sb.WriteString(strings.Join(th, ""))
	sb.WriteString("|timers:")
	var ts []string
	for i := 0; i < x.ntimer; i++ {
		tm := &x.timers[i]
		if tm.active || (tm.ch != nil && len(tm.ch.buf) > 0) {
			d := fmt.Sprintf("%s+%d/%d", tm.name, tm.when-x.clock, tm.period)
			if !tm.active {
				d = tm.name + "(fired)"
			}
			if tm.ch != nil {
				// ticks delivered and not received yet: the receiver may be anywhere (the channel is
				// in its locals), so the occupancy is part of the timer's description
				for _, v := range tm.ch.buf {
					if ClockReadCap <= 0 {
						d += "[tick]"
						continue
					}
					a := x.clock - v.Sub(Epoch).Nanoseconds()
					if a > ClockReadCap {
						a = ClockReadCap
					}
					d += fmt.Sprintf("[-%d]", a)
				}
			}
			ts = append(ts, d)
		}
	}
	sort.Strings(ts)
	sb.WriteString(strings.Join(ts, ","))
	sb.WriteString("|")
	if x.KeyFn != nil {
		sb.WriteString(x.KeyFn())
	}
	return sb.String()
}

// Wait is a scheduling point before an operation that may block: the thread
// continues only when can() holds (evaluated by whoever runs the scheduler).
//
//go:norace
func Wait(what string, can Waiter) {
	x := X
	if x == nil || x.aborting {
		return
	}
	t := &x.threads[x.cur]
	t.can = can
	t.what = what
	x.OpCount[t.ID]++
	if x.Visited != nil {
		t.pc = stackHash()
	}
	x.yield(t)
}

// Release is the scheduling point before a pure release (Unlock, RUnlock,
// Done, Signal). A release is a left mover: switching before it is equivalent
// to switching after it, so the quick mode drops the point.
//
//go:norace
func Release(what string) {
	x := X
	if x == nil || x.aborting || x.QuickMode {
		return
	}
	Sched(what)
}

// Stamp returns a strictly increasing logical time (call/return stamps of histories).
//
//go:norace
func Stamp() int {
	x := X
	if x == nil {
		return 0
	}
	x.stamp++
	return x.stamp
}

// Aborting reports that the execution is being torn down: shims must do nothing.
//
//go:norace
func Aborting() bool { x := X; return x != nil && x.aborting }

// Go starts f as a new controlled thread (pass-through: a plain goroutine).
//
//go:norace
func Go(f func()) { GoNamed("", false, f) }

// NextObjID numbers objects of one execution (seeds, identities) deterministically.
//
//go:norace
func NextObjID() int {
	if x := X; x != nil {
		x.objSeq++
		return x.objSeq
	}
	passObjSeq++
	return passObjSeq
}

var passObjSeq int

var traceSteps = os.Getenv("VERIF_TRACE_STEPS") != "" // debugging aid: print every scheduling decision

// LockStateObservable is set (by a file vinstr generates) when the code under test calls TryLock or
// TryRLock somewhere: the quick tier's left-mover reduction (no scheduling point before a pure release)
// is only sound while a held lock can be observed by blocking on it alone.
var LockStateObservable bool

// ResetObjIDs restarts the numbering of pass-through mode (a sequential engine calls it before it builds
// a fresh instance, so that every rebuild of one path sees the same seeds).
func ResetObjIDs() { passObjSeq = 0 }

// GoLib is what a go statement of the library under test becomes: a background thread. Only the threads
// the harness starts are callers; the end of an execution with a library goroutine parked (an idle
// cleanup or owner goroutine) is a normal end, while a caller that can never continue is a deadlock.
//
//go:norace
func GoLib(f func()) { GoNamed("lib", true, f) }

//go:norace
func GoNamed(name string, daemon bool, f func()) {
	x := X
	if x == nil {
		go f()
		return
	}
	if x.aborting {
		return
	}
	id := x.nthr
	if x.nthr >= MaxThreads {
		// reuse the slot of a finished thread (long stateful explorations spawn many timer callbacks)
		id = -1
		for i := 1; i < x.nthr; i++ {
			if x.threads[i].status == 2 {
				id = i
				break
			}
		}
		if id < 0 {
			x.Overflow = true
			return
		}
	} else {
		x.nthr++
	}
	t := &x.threads[id]
	*t = Thread{ID: id, Name: name, Daemon: daemon, wake: make(chan struct{}, 1), status: 1}
	if t.Name == "" {
		t.Name = fmt.Sprintf("T%d", id)
	}
	x.wg.Add(1)
	spawn(func() { x.run(t, f) }) // a real go statement (race builds: a pooled goroutine fed through a channel): parent happens-before child, as in the program under test
}

// MarkSpawnedSinceDaemon marks every thread created since thread count n as a daemon
// (library goroutines such as the cache janitor, which the harness did not start itself).
//
//go:norace
func MarkSpawnedSinceDaemon(n int) {
	if x := X; x != nil {
		for i := n; i < x.nthr; i++ {
			x.threads[i].Daemon = true
		}
	}
}

//go:norace
func ThreadCount() int {
	if x := X; x != nil {
		return x.nthr
	}
	return 0
}

// othersDone is the predicate of WaitOthers.
type othersDone struct {
	x  *Exec
	me int
}

//go:norace
func (w *othersDone) Ready() bool {
	for i := 0; i < w.x.nthr; i++ {
		t := &w.x.threads[i]
		if i != w.me && t.status == 1 && !t.Daemon {
			return false
		}
	}
	return true
}

// WaitOthers parks the caller until every other non-daemon thread has finished
// (e.g. timer callbacks that have fired). Pending timers that have not fired do not count.
//
//go:norace
func WaitOthers() {
	x := X
	if x == nil || x.aborting {
		return
	}
	Wait("WaitOthers", &othersDone{x, x.cur})
}

// SetDaemon marks the calling thread as a daemon (expected to stay parked at the end).
//
//go:norace
func SetDaemon() {
	if x := X; x != nil {
		x.threads[x.cur].Daemon = true
	}
}

//go:norace
func (x *Exec) run(t *Thread, f func()) {
	defer x.wg.Done()
	x.park(t)
	if x.aborting {
		return
	}
	defer func() {
		if r := recover(); r != nil {
			if _, ok := r.(abortSentinel); ok || x.aborting {
				return // tear-down: code under test may have wrapped the sentinel (singleflight re-panics)
			}
			t.Panic = fmt.Sprintf("%v\n%s", r, trimStack(debug.Stack()))
		}
		x.exit(t)
	}()
	f()
}

func trimStack(b []byte) string {
	lines := strings.Split(string(b), "\n")
	var out []string
	for _, l := range lines {
		if strings.Contains(l, "esimov/gogu") && !strings.Contains(l, "vrtshim") || strings.Contains(l, "/repo/") {
			out = append(out, strings.TrimSpace(l))
		}
		if len(out) >= 8 {
			break
		}
	}
	return strings.Join(out, " | ")
}

// pendingKeyFn / pendingVisited are installed into the next execution (set by the stateful explorer).
var (
	pendingKeyFn   func() string
	pendingVisited func(string) bool
)

// SetKeyFn lets the body of a stateful exploration provide the rendering of the shared state it
// cares about (called from inside the execution, typically first thing in the body).
//
//go:norace
func SetKeyFn(f func() string) {
	if x := X; x != nil {
		x.KeyFn = f
	}
}

// Run performs one execution of body under the choice prefix and returns it for inspection.
func Run(prefix []int, horizon int, quick bool, body func()) *Exec {
	x := &theExec // reused: the arrays are large; only counters are reset
	for i := 0; i < x.nthr; i++ {
		x.threads[i] = Thread{}
	}
	x.nthr, x.cur, x.np, x.Steps, x.aborting = 0, 0, 0, 0, false
	x.clock, x.ntimer, x.tseq = 0, 0, 0
	x.Deadlock, x.DeadlockInfo, x.HorizonHit, x.Diverged, x.Overflow = false, "", false, "", false
	x.OpCount = [MaxThreads]int{}
	x.ntrace = 0
	x.prefix, x.Horizon, x.QuickMode = prefix, horizon, quick && !LockStateObservable
	x.done = make(chan struct{}, 1)
	x.objSeq, x.stamp = 0, 0
	x.Pruned, x.LastKey, x.NewStates = false, "", 0
	x.KeyFn, x.Visited = pendingKeyFn, pendingVisited
	X = x
	t := &x.threads[0]
	*t = Thread{ID: 0, Name: "main", wake: make(chan struct{}, 1), status: 1}
	x.nthr = 1
	x.wg.Add(1)
	spawn(func() { x.run(t, body) })
	t.wake <- struct{}{} // visible start
	<-x.done
	// tear down: wake every parked thread with the abort flag set
	for i := 0; i < x.nthr; i++ {
		th := &x.threads[i]
		if th.status == 1 {
			select {
			case th.wake <- struct{}{}:
			default:
			}
		}
	}
	x.wg.Wait()
	releasePool()
	X = nil
	return x
}

// othersIdle is the predicate of WaitIdle.
type othersIdle struct {
	x  *Exec
	me int
}

//go:norace
func (w *othersIdle) Ready() bool {
	for i := 0; i < w.x.nthr; i++ {
		if i != w.me && w.x.enabled(&w.x.threads[i]) {
			return false
		}
	}
	return true
}

// WaitIdle parks the caller until no other thread is enabled (every other thread has finished or is
// blocked, e.g. a janitor waiting for its next tick). Timers that have not fired do not count. At most
// one thread may use it at a time.
//
//go:norace
func WaitIdle() {
	x := X
	if x == nil || x.aborting {
		return
	}
	Wait("WaitIdle", &othersIdle{x, x.cur})
}

// ThreadDone reports whether thread id of the running execution has finished.
//
//go:norace
func ThreadDone(id int) bool {
	x := X
	return x != nil && id < x.nthr && x.threads[id].status == 2
}

// ThreadParked reports whether thread id is live and blocked (its pending operation cannot proceed).
//
//go:norace
func ThreadParked(id int) bool {
	x := X
	if x == nil || id >= x.nthr {
		return false
	}
	t := &x.threads[id]
	return t.status == 1 && t.can != nil && !t.can.Ready()
}

// ForgetClockRead drops the calling thread's last reading of the clock from the state key: a harness
// calls it between two operations, when every local that held the reading is dead.
//
//go:norace
func ForgetClockRead() {
	if x := X; x != nil && !x.aborting {
		x.threads[x.cur].hasLastNow = false
	}
}

// LiveThreads is the number of threads that have not finished.
//
//go:norace
func LiveThreads() int {
	x := X
	n := 0
	if x != nil {
		for i := 0; i < x.nthr; i++ {
			if x.threads[i].status == 1 {
				n++
			}
		}
	}
	return n
}

//go:norace
func (x *Exec) PrefixLen() int { return len(x.prefix) }

// liveAtMost is the predicate of WaitLiveAtMost.
type liveAtMost struct {
	x *Exec
	n int
}

//go:norace
func (w *liveAtMost) Ready() bool {
	live := 0
	for i := 0; i < w.x.nthr; i++ {
		if w.x.threads[i].status == 1 {
			live++
		}
	}
	return live <= w.n
}

// WaitLiveAtMost parks the caller until at most n threads (itself included) are live: a fairness
// bound for stateful explorations, e.g. "no more than one fired timer callback is still waiting to
// run when the driver goes on" keeps the number of lingering callback threads, and with it the state
// space, finite.
//
//go:norace
func WaitLiveAtMost(n int) {
	x := X
	if x == nil || x.aborting {
		return
	}
	Wait("WaitLiveAtMost", &liveAtMost{x, n})
}

// Stateful reports whether the running execution is part of a stateful exploration.
//
//go:norace
func Stateful() bool { x := X; return x != nil && x.Visited != nil }

// ClockReadCap, when positive, makes the age of every live thread's last reading of the clock part of
// the state key of a stateful exploration (capped at this many nanoseconds): the commonest value that
// code holds in a local across a scheduling point is "now".
var ClockReadCap int64
