//go:build verif

package main

import (
	"fmt"
	"time"

	"github.com/esimov/gogu/stack"
	"github.com/esimov/gogu/vrtshim/vrt"
	sync "github.com/esimov/gogu/vrtshim/vsync"
)

func smoke() {
	outcomes := map[string]int{}
	e := &vrt.Explorer{Horizon: 10000}
	var res [2]int
	e.Check = func(x *vrt.Exec) {
		k := fmt.Sprint(res, x.Deadlock)
		outcomes[k]++
	}
	start := time.Now()
	e.Explore(func() {
		s := stack.New[int]()
		s.Push(1)
		var wg sync.WaitGroup
		wg.Add(2)
		vrt.Go(func() { s.Push(2); res[0] = s.Size(); wg.Done() })
		vrt.Go(func() { res[1] = s.Pop(); wg.Done() })
		wg.Wait()
	})
	fmt.Println("execs", e.Execs, "complete", e.Complete, "maxPreempt", e.MaxPreempt, "outcomes", outcomes, time.Since(start), e.Diverged)
}
