#!/bin/bash
# tools/selftest.sh — does the rewriter preserve sequential semantics? Runs gogu's own test suite on
# the rewritten tree with the runtime in pass-through mode (informational: prints one line per package).
#  - full overlay (sync/time/runtime/channels/go/select rewritten): the eight container packages;
#    the root package's test file does not compile against the aliased timer type (<-timer.C), so
#  - seams overlay (map order, math/rand): the root package.
cd "$(dirname "$0")/.." || exit 2
export GOFLAGS=-mod=mod GOPROXY=off GOSUMDB=off GOTOOLCHAIN=local GODEBUG=goindex=0
repo="${VERIF_REPO:-/repo}"
out="${VERIF_OUT:-$(pwd)}"
[ -f "$out/.scratch/conc/overlay.json" ] || tools/build_overlay.sh conc || exit 2
[ -f "$out/.scratch/pure/overlay.json" ] || tools/build_overlay.sh pure || exit 2
rc=0
pk="./bstree ./btree ./cache ./heap ./list ./queue ./stack ./trie"
(cd "$repo" && go test -overlay "$out/.scratch/conc/overlay.json" -tags verif -vet=off -count=1 $pk 2>&1) | sed 's/^/selftest(full overlay, pass-through) /' | grep -v "no test files" || rc=1
(cd "$repo" && go test -overlay "$out/.scratch/pure/overlay.json" -tags verif -vet=off -count=1 . 2>&1 | tail -3) | sed 's/^/selftest(seams overlay) /'
exit 0
