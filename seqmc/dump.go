package seqmc

import (
	"fmt"
	"reflect"
	"runtime"
	"sort"
	"strings"
	"time"
	"unsafe"
)

// Dump renders the complete heap graph reachable from v (unexported fields
// included) in a canonical form: pointers are numbered in first-visit order,
// so sharing, back pointers and cycles are part of the text while absolute
// addresses are not. Function values are rendered by the name of their code
// (closures of one source location share a name), channels as "chan".
func Dump(v any) string {
	d := &dumper{ids: map[uintptr]int{}}
	d.walk(reflect.ValueOf(v))
	return d.sb.String()
}

// DumpValue is Dump for a reflect.Value (e.g. one obtained through Get).
func DumpValue(v reflect.Value) string {
	d := &dumper{ids: map[uintptr]int{}}
	d.walk(v)
	return d.sb.String()
}

// DumpShallow is Dump except that pointer fields whose name is in shallow
// are not followed into unvisited objects: such a field renders as nil, as
// ^id when its target was already visited, or as ?{first-level scalars}
// otherwise. Used where a structure keeps write-only back pointers to
// unboundedly many stale nodes (DList.prev under LQueue/LStack, which never
// read prev); the abstraction only prunes the search, every explored
// transition is still a real execution.
func DumpShallow(v any, shallow ...string) string {
	d := &dumper{ids: map[uintptr]int{}, shallow: map[string]bool{}}
	for _, s := range shallow {
		d.shallow[s] = true
	}
	d.walk(reflect.ValueOf(v))
	return d.sb.String()
}

type dumper struct {
	sb      strings.Builder
	ids     map[uintptr]int
	shallow map[string]bool
	intMap  func(int64) string
	// limit maps an array/slice field name to the sibling int field that holds
	// its live length: elements beyond it are dead storage and are not rendered.
	limit map[string]string
}

// DumpLimited is Dump except that, in a struct that has both fields of a
// (array, count) pair in limit, only the first count elements of the array are
// rendered (B-tree nodes keep dead entries beyond m that the code never reads
// before overwriting them).
func DumpLimited(v any, limit map[string]string) string {
	d := &dumper{ids: map[uintptr]int{}, limit: limit}
	d.walk(reflect.ValueOf(v))
	return d.sb.String()
}

// DumpRenamed is Dump with every signed integer rendered through rename
// (used for data-independent containers, where values are renamed
// canonically by first occurrence).
func DumpRenamed(v any, rename func(int64) string) string {
	d := &dumper{ids: map[uintptr]int{}, intMap: rename}
	d.walk(reflect.ValueOf(v))
	return d.sb.String()
}

// Get reads a (possibly unexported) field path of a struct or pointer to struct.
// The result is the invalid Value when the path does not exist (a private field was renamed or
// removed): checks that look at private structure must then be skipped, never fail — private layout is
// not part of any property.
func Get(v any, path ...string) reflect.Value {
	rv := reflect.ValueOf(v)
	for _, p := range path {
		for rv.IsValid() && (rv.Kind() == reflect.Pointer || rv.Kind() == reflect.Interface) {
			if rv.IsNil() {
				return reflect.Value{}
			}
			rv = rv.Elem()
		}
		if !rv.IsValid() || rv.Kind() != reflect.Struct {
			return reflect.Value{}
		}
		f := rv.FieldByName(p)
		if !f.IsValid() {
			return reflect.Value{}
		}
		rv = access(f)
	}
	return rv
}

func (d *dumper) walkShallow(v reflect.Value) {
	v = access(v)
	if v.Kind() != reflect.Pointer {
		d.walk(v)
		return
	}
	if v.IsNil() {
		d.sb.WriteString("nil")
		return
	}
	if id, ok := d.ids[v.Pointer()]; ok {
		fmt.Fprintf(&d.sb, "^%d", id)
		return
	}
	d.sb.WriteString("?{")
	e := v.Elem()
	if e.Kind() == reflect.Struct {
		for i := 0; i < e.NumField(); i++ {
			f := access(e.Field(i))
			switch f.Kind() {
			case reflect.Pointer, reflect.Map, reflect.Slice, reflect.Interface, reflect.Struct, reflect.Array, reflect.Func, reflect.Chan:
			default:
				d.walk(f)
				d.sb.WriteString(",")
			}
		}
	}
	d.sb.WriteString("}")
}

func (d *dumper) reg(addr uintptr) (int, bool) {
	if id, ok := d.ids[addr]; ok {
		return id, true
	}
	id := len(d.ids)
	d.ids[addr] = id
	return id, false
}

var timeType = reflect.TypeOf(time.Time{})

func access(v reflect.Value) reflect.Value {
	if v.CanInterface() || !v.CanAddr() {
		return v
	}
	return reflect.NewAt(v.Type(), unsafe.Pointer(v.UnsafeAddr())).Elem()
}

func (d *dumper) walk(v reflect.Value) {
	if !v.IsValid() {
		d.sb.WriteString("<invalid>")
		return
	}
	v = access(v)
	switch v.Kind() {
	case reflect.Bool:
		fmt.Fprintf(&d.sb, "%t", v.Bool())
	case reflect.Int, reflect.Int8, reflect.Int16, reflect.Int32, reflect.Int64:
		if d.intMap != nil {
			d.sb.WriteString(d.intMap(v.Int()))
		} else {
			fmt.Fprintf(&d.sb, "%d", v.Int())
		}
	case reflect.Uint, reflect.Uint8, reflect.Uint16, reflect.Uint32, reflect.Uint64, reflect.Uintptr:
		fmt.Fprintf(&d.sb, "%d", v.Uint())
	case reflect.Float32, reflect.Float64:
		fmt.Fprintf(&d.sb, "%g", v.Float())
	case reflect.String:
		fmt.Fprintf(&d.sb, "%q", v.String())
	case reflect.Func:
		if v.IsNil() {
			d.sb.WriteString("func(nil)")
		} else {
			// by code pointer: two objects that differ only in an installed callback (a heap's
			// comparator after Convert) are different states
			name := "func"
			if f := runtime.FuncForPC(v.Pointer()); f != nil {
				name = "func:" + f.Name()
			}
			d.sb.WriteString(name)
		}
	case reflect.Chan:
		d.sb.WriteString("chan")
	case reflect.UnsafePointer:
		d.sb.WriteString("unsafeptr")
	case reflect.Pointer:
		if v.IsNil() {
			d.sb.WriteString("nil")
			return
		}
		id, seen := d.reg(v.Pointer())
		if seen {
			fmt.Fprintf(&d.sb, "^%d", id)
			return
		}
		fmt.Fprintf(&d.sb, "&%d", id)
		d.walk(v.Elem())
	case reflect.Interface:
		if v.IsNil() {
			d.sb.WriteString("iface(nil)")
			return
		}
		fmt.Fprintf(&d.sb, "iface<%s>", v.Elem().Type())
		e := v.Elem()
		if e.Kind() == reflect.Pointer || e.Kind() == reflect.Map || e.Kind() == reflect.Slice {
			d.walk(e)
		} else {
			// non-addressable copy: render via a fresh addressable value
			c := reflect.New(e.Type()).Elem()
			c.Set(e)
			d.walk(c)
		}
	case reflect.Struct:
		// sync/atomic.Pointer[T] keeps its target behind an unsafe.Pointer: follow it as a *T, so that
		// lock-free private state (a published hint, a snapshot) is part of the rendering
		if t := v.Type(); t.PkgPath() == "sync/atomic" && strings.HasPrefix(t.Name(), "Pointer[") && t.NumField() == 3 {
			if ft := t.Field(0).Type; ft.Kind() == reflect.Array && ft.Elem().Kind() == reflect.Pointer {
				p := access(v.Field(2))
				if p.Kind() == reflect.UnsafePointer {
					d.sb.WriteString("atomic.Pointer->")
					if p.Pointer() == 0 {
						d.sb.WriteString("nil")
					} else {
						d.walk(reflect.NewAt(ft.Elem().Elem(), unsafe.Pointer(p.Pointer())))
					}
					return
				}
			}
		}
		// a point in time is rendered through the renaming (relative to the caller's clock), never by its
		// representation: absolute instants differ between the paths that reach one state
		if d.intMap != nil && v.Type() == timeType && v.CanInterface() {
			tm := v.Interface().(time.Time)
			if tm.IsZero() {
				d.sb.WriteString("time(zero)")
			} else {
				d.sb.WriteString("time(" + d.intMap(tm.UnixNano()) + ")")
			}
			return
		}
		if v.CanAddr() {
			// register the struct's own address so interior pointers to it
			// (e.g. &list.root, &dlist.DoubleNode) resolve to one identity.
			if id, seen := d.reg(v.UnsafeAddr()); !seen {
				fmt.Fprintf(&d.sb, "@%d", id)
			}
		}
		d.sb.WriteString("{")
		t := v.Type()
		for i := 0; i < v.NumField(); i++ {
			if t.Field(i).Name == "hb" && strings.HasSuffix(t.PkgPath(), "/vrt") {
				continue // the channel model's edge counter for the race detector: instrumentation, not behaviour
			}
			if i > 0 {
				d.sb.WriteString(",")
			}
			d.sb.WriteString(t.Field(i).Name)
			d.sb.WriteString(":")
			if lf, ok := d.limit[t.Field(i).Name]; ok && v.FieldByName(lf).IsValid() {
				n := int(access(v.FieldByName(lf)).Int())
				f := access(v.Field(i))
				if n > f.Len() {
					n = f.Len()
				}
				fmt.Fprintf(&d.sb, "first%d[", n)
				for j := 0; j < n; j++ {
					d.walk(f.Index(j))
					d.sb.WriteString(",")
				}
				d.sb.WriteString("]")
			} else if d.shallow[t.Field(i).Name] {
				d.walkShallow(v.Field(i))
			} else {
				d.walk(v.Field(i))
			}
		}
		d.sb.WriteString("}")
	case reflect.Array:
		d.sb.WriteString("[")
		for i := 0; i < v.Len(); i++ {
			if i > 0 {
				d.sb.WriteString(",")
			}
			d.walk(v.Index(i))
		}
		d.sb.WriteString("]")
	case reflect.Slice:
		if v.IsNil() {
			d.sb.WriteString("slice(nil)")
			return
		}
		fmt.Fprintf(&d.sb, "slice%d[", v.Len())
		for i := 0; i < v.Len(); i++ {
			if i > 0 {
				d.sb.WriteString(",")
			}
			d.walk(v.Index(i))
		}
		d.sb.WriteString("]")
	case reflect.Map:
		if v.IsNil() {
			d.sb.WriteString("map(nil)")
			return
		}
		// Keys are rendered without identity numbering (they are values);
		// entries sorted by rendered key. Values are walked in that order.
		type kv struct {
			k string
			v reflect.Value
		}
		var kvs []kv
		it := v.MapRange()
		for it.Next() {
			kd := &dumper{ids: map[uintptr]int{}}
			kc := reflect.New(it.Key().Type()).Elem()
			kc.Set(it.Key())
			kd.walk(kc)
			kvs = append(kvs, kv{kd.sb.String(), it.Value()})
		}
		sort.Slice(kvs, func(i, j int) bool { return kvs[i].k < kvs[j].k })
		d.sb.WriteString("map{")
		for i, e := range kvs {
			if i > 0 {
				d.sb.WriteString(",")
			}
			d.sb.WriteString(e.k)
			d.sb.WriteString("=>")
			ev := e.v
			if ev.Kind() != reflect.Pointer && ev.Kind() != reflect.Map && ev.Kind() != reflect.Slice && ev.Kind() != reflect.Interface {
				c := reflect.New(ev.Type()).Elem()
				c.Set(ev)
				ev = c
			}
			d.walk(ev)
		}
		d.sb.WriteString("}")
	default:
		fmt.Fprintf(&d.sb, "<%s>", v.Kind())
	}
}
