#!/bin/bash
# tools/build_overlay.sh <engine>   engine: pure | conc | conc_race
# Regenerates the instrumented copy of the gogu tree (vinstr; /repo unless VERIF_REPO says otherwise)
# and builds the harness with `go build -overlay`.
cd "$(dirname "$0")/.." || exit 2
export GOFLAGS=-mod=mod GOPROXY=off GOSUMDB=off GOTOOLCHAIN=local
eng=$1
repo="${VERIF_REPO:-/repo}"
out="${VERIF_OUT:-$(pwd)}"
scratch="$out/.scratch/$eng"
mkdir -p "$out/bin" "$out/.scratch"
exec 9>"$out/.scratch/$eng.lock"
flock 9
go build -o "$out/bin/vinstr" ./cmd/vinstr || exit 2
rm -rf "$scratch"
mode=full
pkg=./props/conc
flags=""
case $eng in
  pure) mode=seams; pkg=./props/pure ;;
  conc) ;;
  conc_race) flags="-race" ;;
  *) echo "unknown engine $eng" >&2; exit 2 ;;
esac
extra=""
[ $mode = full ] && extra="-extra $(pwd)/props/conform/progs=conformprogs"
"$out/bin/vinstr" -repo "$repo" -out "$scratch" -verif "$(pwd)" -mode $mode $extra || { echo "vinstr failed" >&2; exit 2; }
go build $flags $VERIF_MODFLAG -overlay "$scratch/overlay.json" -tags verif -o "$out/bin/$eng" $pkg || exit 2
