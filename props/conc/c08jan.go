//go:build verif

package main

import (
	"fmt"
	"reflect"
	"sort"
	"strings"
	"time"
	"unsafe"

	"github.com/esimov/gogu/cache"
	"github.com/esimov/gogu/vrtshim/vrt"
	"github.com/esimov/gogu/vrtshim/vruntime"
	sync "github.com/esimov/gogu/vrtshim/vsync"
	"verif/seqmc"
)

// C08 part B — the cleanup goroutine is on (interval 4 units). Three threads: the script (main), the
// library's own janitor (daemon, created by cache.New through the rewritten go statement, its ticker a
// virtual timer) and a clock thread doing 4 x Advance(2). Every interleaving up to the preemption
// bound is executed. Observations carry virtual-time brackets [t0,t1]; the oracle only asserts what
// the brackets decide (durations are odd, the clock is even: no observation coincides with a deadline).

type janOp struct {
	kind string // set upd get del count
	key  string
	dur  int // index into c08durs
}

func (o janOp) String() string {
	switch o.kind {
	case "set", "upd":
		return fmt.Sprintf("%s(%s,%s)", map[string]string{"set": "Set", "upd": "Update"}[o.kind], o.key, c08durNames[o.dur])
	case "get":
		return "Get(" + o.key + ")"
	case "del":
		return "Delete(" + o.key + ")"
	}
	return "Count()"
}

type janRec struct {
	op     janOp
	t0, t1 int64
	err    bool
	val    string
	n      int
}

type janEnt struct {
	val    string
	lo, hi int64
	never  bool
}

const janInterval = 4

func c08janScripts() [][]janOp {
	first := []janOp{{"set", "x", 2}, {"set", "x", 3}, {"set", "x", 1}, {"set", "x", 0}}
	rest := append(append([]janOp{}, first...), janOp{"upd", "x", 2}, janOp{"get", "x", 0}, janOp{"del", "x", 0}, janOp{"count", "", 0}, janOp{"set", "y", 2})
	var out [][]janOp
	maxLen := 3
	var gen func(cur []janOp)
	gen = func(cur []janOp) {
		out = append(out, append([]janOp{}, cur...))
		if len(cur) == maxLen {
			return
		}
		for _, o := range rest {
			gen(append(cur, o))
		}
	}
	for _, f := range first {
		gen([]janOp{f})
	}
	// simplest first
	sort.SliceStable(out, func(i, j int) bool { return len(out[i]) < len(out[j]) })
	return out
}

func c08janWorker(arg string, def, g int) {
	c := &c20ctx{check: "C08", out: newWorkerOut(), st: &wStats{Shard: arg, MinBound: -1, Extra: map[string]int{}}, states: map[string]struct{}{}}
	c.deadline = time.Now().Add(3 * time.Minute)
	c.budget = 40000
	bound := 2
	if thorough {
		c.deadline = time.Now().Add(25 * time.Minute)
		c.budget = 1500000
		bound = 3
	}
	for i, sc := range c08janScripts() {
		if i%4 != g {
			continue
		}
		if !thorough && len(sc) == 3 && sc[1].kind != "get" && sc[2].kind != "get" && sc[2].kind != "count" {
			continue // quick tier: three-step scripts end in (or contain) an observation
		}
		c08janScenario(c, def, sc, bound)
	}
	c.st.States = len(c.states)
	c.out.stats(*c.st)
}

func c08janScenario(c *c20ctx, def int, script []janOp, bound int) {
	var recs []janRec
	var finalGet map[string]string // key -> value or "!err"
	var finalList []string
	var finalCount int
	var tEnd int64
	var names []string
	for _, o := range script {
		names = append(names, o.String())
	}
	name := fmt.Sprintf("janitor(default=%d,interval=%d): %s", def, janInterval, strings.Join(names, "; "))
	c.explore(name, bound, func() {
		recs = recs[:0]
		n0 := vrt.ThreadCount()
		ca := cache.New[string, string](time.Duration(def)*unit, janInterval*unit)
		vrt.MarkSpawnedSinceDaemon(n0)
		var wg sync.WaitGroup
		wg.Add(1)
		vrt.GoNamed("clock", false, func() {
			defer wg.Done()
			for i := 0; i < 4; i++ {
				vrt.Advance(2 * unit)
			}
		})
		for i, o := range script {
			r := janRec{op: o, t0: now()}
			v := fmt.Sprintf("v%d", i)
			switch o.kind {
			case "set":
				r.err = ca.Set(o.key, v, c08durs[o.dur]) != nil
			case "upd":
				r.err = ca.Update(o.key, v, c08durs[o.dur]) != nil
			case "get":
				it, err := ca.Get(o.key)
				r.err, r.val = err != nil, it.Val()
			case "del":
				r.err = ca.Delete(o.key) != nil
			case "count":
				r.n = ca.Count()
			}
			r.t1 = now()
			recs = append(recs, r)
		}
		wg.Wait()
		for i := 0; i < 2; i++ {
			vrt.Advance(janInterval * unit)
			vrt.WaitIdle()
		}
		tEnd = now()
		finalGet = map[string]string{}
		for _, k := range []string{"x", "y"} {
			if it, err := ca.Get(k); err != nil {
				finalGet[k] = "!err"
			} else {
				finalGet[k] = it.Val()
			}
		}
		finalList = finalList[:0]
		for k := range ca.List() {
			finalList = append(finalList, k)
		}
		sort.Strings(finalList)
		finalCount = ca.Count()
	}, func(x *vrt.Exec) (string, string) {
		model := map[string]*janEnt{}
		mk := func(r janRec, v string) *janEnt {
			d := c08durs[r.op.dur]
			if d == cache.DefaultExpiration {
				d = time.Duration(def) * unit
			}
			if d <= 0 {
				return &janEnt{val: v, never: true}
			}
			return &janEnt{val: v, lo: r.t0 + int64(d/unit), hi: r.t1 + int64(d/unit)}
		}
		for i, r := range recs {
			e := model[r.op.key]
			sureLive := e != nil && (e.never || r.t1 < e.lo)
			sureDead := e == nil || (!e.never && r.t0 > e.hi)
			at := fmt.Sprintf("step %d %s during [%d,%d]", i+1, r.op, r.t0, r.t1)
			switch r.op.kind {
			case "set":
				if sureLive && !r.err {
					return "Cache+janitor.Set/live-key/no-error", at + ": granted although the key holds a live entry " + e.String()
				}
				if sureDead && r.err {
					return "Cache+janitor.Set/spurious-error", at + ": refused although the key has no live entry"
				}
				if !r.err {
					model[r.op.key] = mk(r, fmt.Sprintf("v%d", i))
				}
			case "upd":
				if r.err {
					return "Cache+janitor.Update/spurious-error", at + ": Update returned an error"
				}
				model[r.op.key] = mk(r, fmt.Sprintf("v%d", i))
			case "get":
				if sureLive && (r.err || r.val != e.val) {
					return "Cache+janitor.Get/live-entry-not-returned", fmt.Sprintf("%s = (%q, err=%t), want the live entry %s", at, r.val, r.err, e)
				}
				if sureDead && !r.err {
					return "Cache+janitor.Get/missing-or-expired-entry-returned", fmt.Sprintf("%s = %q although the key is not stored or expired (%v)", at, r.val, e)
				}
				if !r.err && e != nil && r.val != e.val {
					return "Cache+janitor.Get/wrong-value", fmt.Sprintf("%s = %q, want %q", at, r.val, e.val)
				}
			case "del":
				if e == nil && !r.err {
					return "Cache+janitor.Delete/absent-key/no-error", at + ": nil for a key that is not stored"
				}
				if sureLive && r.err {
					return "Cache+janitor.Delete/live-entry/error", at + ": error although the key holds the live entry " + e.String()
				}
				delete(model, r.op.key)
			case "count":
				lo := 0
				for _, e := range model {
					if e.never || r.t1 < e.lo {
						lo++
					}
				}
				if r.n < lo || r.n > len(model) {
					return "Cache+janitor.Count/disagrees-with-entries", fmt.Sprintf("%s = %d, want between %d (live) and %d (stored)", at, r.n, lo, len(model))
				}
			}
		}
		// quiescent end: the janitor is parked, every tick that was due has been processed and the
		// last processed tick happened at or after tEnd-2.
		present, maybe := 0, 0
		for _, k := range []string{"x", "y"} {
			e := model[k]
			listed := false
			for _, l := range finalList {
				if l == k {
					listed = true
				}
			}
			switch {
			case e == nil:
				if finalGet[k] != "!err" || listed {
					return "Cache+janitor.end/entry-that-was-never-stored", fmt.Sprintf("at the end (t=%d) key %s is reported (Get=%s, listed=%t) although it is not stored", tEnd, k, finalGet[k], listed)
				}
			case e.never:
				present++
				if finalGet[k] != e.val || !listed {
					return "Cache+janitor.end/never-expiring-entry-removed", fmt.Sprintf("at the end (t=%d) the entry %s=%s without expiry is gone (Get=%s, listed=%t): cleanup must never remove it", tEnd, k, e, finalGet[k], listed)
				}
			case e.lo > tEnd:
				present++
				if finalGet[k] != e.val || !listed {
					return "Cache+janitor.end/live-entry-removed", fmt.Sprintf("at the end (t=%d) the live entry %s=%s is gone (Get=%s, listed=%t)", tEnd, k, e, finalGet[k], listed)
				}
			case e.hi < tEnd-2 && e.hi >= tEnd-int64(janInterval):
				// expired, but less than one interval ago: served it must not be; whether the sweep has
				// come round yet depends on how the cleanup goroutine schedules itself
				if finalGet[k] != "!err" {
					return "Cache+janitor.end/expired-entry-served", fmt.Sprintf("at the end (t=%d) Get(%s)=%s although the entry %s has expired", tEnd, k, finalGet[k], e)
				}
				if listed {
					present++
				}
			case e.hi < tEnd-int64(janInterval):
				if finalGet[k] != "!err" {
					return "Cache+janitor.end/expired-entry-served", fmt.Sprintf("at the end (t=%d) Get(%s)=%s although the entry %s has expired", tEnd, k, finalGet[k], e)
				}
				if listed {
					return "Cache+janitor.end/expired-entry-not-cleaned-up", fmt.Sprintf("at the end (t=%d, janitor idle after two more intervals) the entry %s=%s expired more than one interval ago and is still stored", tEnd, k, e)
				}
			default:
				maybe++
			}
		}
		if finalCount < present || finalCount > present+maybe {
			return "Cache+janitor.end/Count-disagrees", fmt.Sprintf("at the end Count()=%d, want between %d and %d", finalCount, present, present+maybe)
		}
		return "", ""
	}, func() any { return fmt.Sprint(recs, finalGet, finalList, finalCount, tEnd) })
}

func (e *janEnt) String() string {
	if e == nil {
		return "<none>"
	}
	if e.never {
		return fmt.Sprintf("%q(never expires)", e.val)
	}
	return fmt.Sprintf("%q(deadline in [%d,%d])", e.val, e.lo, e.hi)
}

// c08finalizerWorker: the garbage collector's part (stopCleanup) as an explicit event: once the
// finaliser has run, the janitor goroutine exits and the sender returns, in every interleaving with
// pending ticks.
func c08finalizerWorker(arg string) {
	c := &c20ctx{check: "C08", out: newWorkerOut(), st: &wStats{Shard: arg, MinBound: -1, Extra: map[string]int{}}, states: map[string]struct{}{}}
	c.deadline = time.Now().Add(3 * time.Minute)
	c.budget = 100000
	var fired, janitorDone bool
	var cnt int
	c.explore("janitor stops when the finaliser fires", 0, func() {
		fired, janitorDone = false, false
		var fin func()
		vruntime.FinalizerHook = func(obj, f any) {
			fin = func() { callFinalizer(obj, f) }
		}
		n0 := vrt.ThreadCount()
		ca := cache.New[string, string](3*unit, janInterval*unit)
		vrt.MarkSpawnedSinceDaemon(n0)
		jan := n0
		var wg sync.WaitGroup
		wg.Add(1)
		vrt.GoNamed("clock", false, func() {
			defer wg.Done()
			vrt.Advance(janInterval * unit)
			vrt.Advance(janInterval * unit)
		})
		ca.Set("x", "v", cache.DefaultExpiration)
		if fin != nil {
			fin()
			fired = true
		}
		wg.Wait()
		vrt.Advance(janInterval * unit)
		vrt.WaitIdle()
		janitorDone = vrt.ThreadDone(jan)
		cnt = ca.Count()
	}, func(x *vrt.Exec) (string, string) {
		if !fired {
			return "Cache+janitor.finalizer/not-registered", "cache.New with a cleanup interval did not register a finaliser"
		}
		if !janitorDone {
			return "Cache+janitor.finalizer/janitor-keeps-running", "the cleanup goroutine is still alive after stopCleanup returned"
		}
		return "", ""
	}, func() any { return fmt.Sprint(fired, janitorDone, cnt) })
	c.st.States = len(c.states)
	c.out.stats(*c.st)
}

func callFinalizer(obj, f any) {
	reflect.ValueOf(f).Call([]reflect.Value{reflect.ValueOf(obj)})
}

// ---------------------------------------------------------------- the cache with its janitor as a state graph

// c08janGraph: stateful exploration (vrt.Explorer{Stateful}) of the cache with background cleanup. A
// driver thread picks {Set x short | Set x long | Set x none | Update x short | Delete x | Get x |
// Advance 2} by an explorer choice in an endless loop while the library's own janitor goroutine sweeps
// on its (virtual) ticker. The global state -- the cache's private fields with times relative to now,
// the pending timers, every thread's continuation, the model entry -- is looked up at every scheduling
// point and an execution is cut at a visited one: histories of any length, every interleaving with the
// janitor. One key is enough to drive the janitor through all its cases; durations 3 and 7, interval 4.
func c08janGraph(arg string, def int) {
	c := &c20ctx{check: "C08", out: newWorkerOut(), st: &wStats{Shard: arg, MinBound: -1, Extra: map[string]int{}}, states: map[string]struct{}{}}
	name := fmt.Sprintf("cache+janitor state graph (default=%d, interval=%d): driver{Set|Update|Delete|Get|Advance 2}*", def, janInterval)
	c.st.Scenarios++
	type monitor struct {
		ent       *janEnt             // model of key x (nil: not stored); deadlines absolute, exact (the driver is the only writer)
		op        string              // the operation the driver is in the middle of (its arguments live in locals: part of the state)
		held      *cache.Item[string] // the item the last successful Get handed out: the caller keeps it ...
		heldVal   string              // ... and what it said then (it must say so for ever)
		viol, det string
		trace     []string
	}
	var m *monitor
	reported := map[string]bool{}
	e := &vrt.Explorer{Horizon: 6000, Quick: !thorough, Budget: 3000000, Deadline: time.Now().Add(3 * time.Minute), Stateful: true}
	if thorough {
		e.Deadline = time.Now().Add(20 * time.Minute)
	}
	stop := false
	e.StopEarly = func() bool { return stop }
	body := func() {
		m = &monitor{}
		mm := m
		n0 := vrt.ThreadCount()
		ca := cache.New[string, string](time.Duration(def)*unit, janInterval*unit)
		vrt.MarkSpawnedSinceDaemon(n0)
		janitor := n0
		var valp *int
		busyp := new(int64)
		valp = new(int) // number of values stored so far (its parity picks the next value: part of the state)
		vrt.SetKeyFn(func() string {
			nowNs := vrt.NowNanos() + vrt.Epoch.UnixNano()
			floor := vrt.Epoch.UnixNano() - int64(24*time.Hour)
			impl := seqmc.DumpRenamed(ca, func(i int64) string {
				switch {
				case i < floor:
					return fmt.Sprint(i)
				case i < nowNs:
					return "P"
				}
				return fmt.Sprintf("+%d", (i-nowNs)/int64(unit))
			})
			me := "none"
			if mm.ent != nil {
				me = "never"
				if !mm.ent.never {
					d := mm.ent.lo - now()
					if d < -2*int64(janInterval)-2 {
						d = -2*int64(janInterval) - 2 // long expired
					}
					me = fmt.Sprint(d)
				}
			}
			mv := ""
			if mm.ent != nil {
				mv = mm.ent.val
			}
			held := "-"
			if mm.held != nil {
				held = mm.heldVal + "/detached"
				if iv := seqmc.Get(ca, "items"); iv.IsValid() && iv.Kind() == reflect.Map {
					if cur := iv.MapIndex(reflect.ValueOf("x")); cur.IsValid() && cur.Kind() == reflect.Pointer && cur.Pointer() == uintptr(unsafe.Pointer(mm.held)) {
						held = mm.heldVal + "/stored"
					}
				}
			}
			return fmt.Sprintf("%s|%s%s|%s|next-v%d|busy%d|held:%s", impl, me, mv, mm.op, (*valp+1)%2, *busyp, held)
		})
		// the janitor starts and creates its ticker at time 0 (ticks at 4, 8, ...); a janitor that starts
		// late is the business of the script-based scenarios above
		vrt.WaitIdle()
		val := 0
		valp = &val
		busy := new(int64) // how long the janitor has been busy (seen from the driver's side), capped at one interval
		busyp = busy
		lastIdle := int64(0)
		for mm.viol == "" {
			vrt.ForgetClockRead() // the locals of the previous operation are dead
			// fairness: the janitor is not starved for more than one sweep (a tick it has not handled
			// yet is fine, an unbounded backlog is not a state the property talks about)
			t := now()
			if mm.held != nil {
				if v := mm.held.Val(); v != mm.heldVal {
					mm.viol, mm.det = "Cache+janitor.graph/Get/returned-item-changes-later", fmt.Sprintf("the item a Get handed out said %q then and says %q at time %d (history %v)", mm.heldVal, v, t, mm.trace)
					break
				}
			}
			if vrt.ThreadParked(janitor) {
				lastIdle = t
			}
			if *busy = t - lastIdle; *busy > int64(janInterval) {
				*busy = int64(janInterval)
			}
			e0 := mm.ent
			live := e0 != nil && (e0.never || t < e0.lo)
			dead := e0 == nil || (!e0.never && t > e0.lo)
			// quiescent: the janitor is parked -- every tick that was due has been handled
			// "expired entries disappear within about one interval": one interval for the sweep to come
			// round plus one for a cleanup goroutine that was kept from running (the fairness bound
			// above) -- how the goroutine schedules its sweeps (a ticker, a timer re-armed after each
			// sweep, a drifting one) is its own business
			if vrt.ThreadParked(janitor) && e0 != nil && !e0.never && t > e0.lo+2*janInterval {
				if _, listed := ca.List()["x"]; listed {
					mm.viol, mm.det = "Cache+janitor.graph/expired-entry-not-cleaned-up", fmt.Sprintf("at time %d the janitor is idle and the entry that expired at %d, more than two intervals ago, is still stored", t, e0.lo)
					break
				}
				mm.ent, e0 = nil, nil // swept: from here on the key is simply not stored
				dead, live = true, false
			}
			mk := func(d time.Duration) *janEnt {
				if d == cache.DefaultExpiration {
					d = time.Duration(def) * unit
				}
				val++
				if d <= 0 {
					return &janEnt{val: fmt.Sprint("v", val%2), never: true}
				}
				return &janEnt{val: fmt.Sprint("v", val%2), lo: t + int64(d/unit), hi: t + int64(d/unit)}
			}
			nops := 7
			if *busy >= int64(janInterval) {
				nops = 6 // fairness: time does not pass while the janitor has been kept from finishing one sweep for a whole interval
			}
			k := vrt.Choose(nops)
			mm.op = fmt.Sprint("op", k, "v", (val+1)%2)
			switch k {
			case 0, 1, 2: // Set x with duration 3 / 7 / Default
				d := []time.Duration{3 * unit, 7 * unit, cache.DefaultExpiration}[k]
				ne := mk(d)
				err := ca.Set("x", ne.val, d)
				mm.trace = append(mm.trace, fmt.Sprintf("Set(%v)@%d=%v", d, t, err != nil))
				switch {
				case live && err == nil:
					mm.viol, mm.det = "Cache+janitor.graph/Set/live-key/no-error", fmt.Sprintf("Set at %d granted although the key holds a live entry %s", t, e0)
				case dead && err != nil:
					mm.viol, mm.det = "Cache+janitor.graph/Set/spurious-error", fmt.Sprintf("Set at %d refused (%v) although the key has no live entry", t, err)
				case err == nil:
					mm.ent = ne
				}
			case 3:
				ne := mk(3 * unit)
				if err := ca.Update("x", ne.val, 3*unit); err != nil {
					mm.viol, mm.det = "Cache+janitor.graph/Update/spurious-error", fmt.Sprintf("Update at %d returned %v", t, err)
				}
				mm.ent = ne
				mm.trace = append(mm.trace, fmt.Sprintf("Update@%d", t))
			case 4:
				err := ca.Delete("x")
				mm.trace = append(mm.trace, fmt.Sprintf("Delete@%d=%v", t, err != nil))
				if live && err != nil {
					mm.viol, mm.det = "Cache+janitor.graph/Delete/live-entry/error", fmt.Sprintf("Delete at %d returned %v although the key holds the live entry %s", t, err, e0)
				}
				if e0 == nil && err == nil {
					mm.viol, mm.det = "Cache+janitor.graph/Delete/absent-key/no-error", fmt.Sprintf("Delete at %d returned nil for a key that is not stored", t)
				}
				mm.ent = nil
			case 5:
				it, err := ca.Get("x")
				switch {
				case live && (err != nil || it.Val() != e0.val):
					mm.viol, mm.det = "Cache+janitor.graph/Get/live-entry-not-returned", fmt.Sprintf("Get at %d = (%q, %v), want the live entry %s (history %v)", t, it.Val(), err, e0, mm.trace)
				case dead && err == nil:
					mm.viol, mm.det = "Cache+janitor.graph/Get/missing-or-expired-entry-returned", fmt.Sprintf("Get at %d = %q although the key is not stored or expired (%v)", t, it.Val(), e0)
				}
				if err == nil && it != nil {
					mm.held, mm.heldVal = it, it.Val()
				}
				mm.trace = append(mm.trace, fmt.Sprintf("Get@%d", t))
			case 6:
				vrt.Advance(2 * unit) // the janitor sweeps concurrently with whatever the driver does next
			}
			mm.op = ""
		}
	}
	e.Check = func(x *vrt.Exec) {
		key, detail := "", ""
		for i := 0; i < x.NumThreads(); i++ {
			if pm := x.ThreadAt(i).Panic; pm != "" {
				key, detail = "Cache+janitor.graph/panic", pm
			}
		}
		if key == "" && m != nil && m.viol != "" {
			key, detail = m.viol, m.det
		}
		if key == "" && x.Deadlock {
			key, detail = "Cache+janitor.graph/deadlock", "no thread enabled: "+x.DeadlockInfo
		}
		if key == "" && x.HorizonHit {
			key, detail = "Cache+janitor.graph/horizon", "an execution ran 6000 steps without reaching a visited state"
		}
		if key != "" && !reported[key] {
			reported[key] = true
			stop = true
			ch := append([]int{}, e.LastChoices...)
			c.out.finding(wFinding{key, detail, map[string]any{"scenario": name, "trace": m.trace, "choices": ch},
				map[string]any{"engine": "conc", "check": "C08", "sub": "C08worker", "shard": arg, "scenario": name, "choices": ch}})
		}
	}
	if r := replayReq; r != nil {
		if r.Scenario == name {
			r.Seen = true
			x := vrt.Run(r.Choices, 6000, !thorough, body)
			e.LastChoices = r.Choices
			e.Check(x)
		}
		return
	}
	vrt.ClockReadCap = int64(8 * unit) // the sweep reads the clock before it takes the lock
	defer func() { vrt.ClockReadCap = 0 }()
	e.Explore(body)
	if !stop {
		crossCheckOrders(c.st, name, e, body, thorough) // quick: a second breadth-first order (depth first takes minutes here)
	}
	c.st.Execs, c.st.Steps, c.st.States = c.st.Execs+e.Execs, c.st.Steps+e.Steps, e.States
	if !e.Complete && !stop {
		c.st.Incomplete++
	}
	c.st.Samples = append(c.st.Samples, fmt.Sprintf("%s: %d global states, %d executions (%d cut at a visited state), fixpoint=%t", name, e.States, e.Execs, e.Cuts, e.Complete))
	c.out.stats(*c.st)
}
