#!/bin/bash
# Runs the pinned test suite of a gogu tree (default /repo) and compares with BASELINE.json's stable_pass list.
# usage: tools/baseline.sh [dir]   exit 0 iff all 174 stable tests pass.
export GOFLAGS=-mod=mod GOPROXY=off GOSUMDB=off GOTOOLCHAIN=local
dir=${1:-/repo}
out=$(mktemp)
# three runs (as BASELINE.json was taken): a test counts as passing if it passes in any run
# (TestBSTree_Concurrency and friends are load-sensitive by construction).
for i in 1 2 3; do
(cd "$dir" && go test -json -vet=off -count=1 -timeout 25m ./... >> "$out" 2>/dev/null) && break
done
python3 - "$out" <<'PY'
import json,sys
base=json.load(open('/root/.vp/BASELINE.json'))
want=set(base['stable_pass'])
res={}
for l in open(sys.argv[1]):
    try: e=json.loads(l)
    except: continue
    if e.get('Test') and e.get('Action') in('pass','fail') and '/' not in e['Test']:
        k=e['Package']+'::'+e['Test']
        if res.get(k)!='pass': res[k]=e['Action']
bad=[t for t in sorted(want) if res.get(t)!='pass']
print(f"baseline: {len(want)-len(bad)}/{len(want)} stable tests pass")
for t in bad: print("  NOT PASSING:",t,res.get(t))
sys.exit(1 if bad else 0)
PY
rc=$?
rm -f "$out"
exit $rc
