//go:build verif

package main

import (
	"fmt"
	"os"
	"runtime"
	"sort"
	"strings"
	"time"

	shim "github.com/esimov/gogu/vrtshim/conformprogs"
	"github.com/esimov/gogu/vrtshim/vrt"
	native "verif/props/conform/progs"
)

// conform: do the shims model the real primitives? The same plain-Go programs (props/conform/progs)
// run (a) natively, free-running, many times with varying GOMAXPROCS, and (b) after vinstr's rewriting
// under the controlled runtime, EVERY schedule. Required: native outcomes are a subset of the explored
// outcomes (the model misses no behaviour the real primitives show), no explored schedule violates an
// in-program assertion, deadlocks or hits the horizon (the model allows nothing the primitives forbid,
// as far as the assertions state it), and a recursive read lock with a writer pending deadlocks in the
// model as it does in Go. Exit 0 / 2 (a failure here is a defect of the machinery, never a VIOLATION).
func conform() int {
	bad := 0
	fmt.Println("conformance of the shims (native outcomes must be among the explored ones)")
	for i, np := range native.All {
		sp := shim.All[i]
		nat := map[string]int{}
		runs := 300
		if np.Timed {
			runs = 5
		}
		for r := 0; r < runs; r++ {
			runtime.GOMAXPROCS(1 + r%4)
			nat[np.F()]++
		}
		runtime.GOMAXPROCS(runtime.NumCPU())
		exp := map[string]int{}
		problems := map[string]bool{}
		var out string
		e := &vrt.Explorer{Horizon: 20000, Quick: false, Budget: 400000, Deadline: time.Now().Add(2 * time.Minute), MaxBound: 3}
		e.Check = func(x *vrt.Exec) {
			exp[out]++
			for t := 0; t < x.NumThreads(); t++ {
				if pm := x.ThreadAt(t).Panic; pm != "" {
					problems["panic: "+pm] = true
				}
			}
			if x.Deadlock {
				problems["deadlock: "+x.DeadlockInfo] = true
			}
			if x.HorizonHit {
				problems["horizon"] = true
			}
			if strings.HasPrefix(out, "ASSERT") {
				problems[out] = true
			}
		}
		e.Explore(func() { out = "(did not finish)"; out = sp.F() })
		var missing []string
		for o := range nat {
			if exp[o] == 0 {
				missing = append(missing, o)
			}
		}
		status := "ok"
		if len(missing) > 0 || len(problems) > 0 || e.Diverged != "" {
			status = "FAIL"
			bad++
		}
		fmt.Printf("  %-4s %-34s native %v | explored %v (%d schedules, complete=%t bound=%d)\n", status, np.Name, keys(nat), keys(exp), e.Execs, e.Complete, e.BoundDone)
		for _, m := range missing {
			fmt.Printf("       native outcome %q is not produced by any explored schedule\n", m)
		}
		for p := range problems {
			fmt.Printf("       explored: %s\n", p)
		}
		if e.Diverged != "" {
			fmt.Printf("       nondeterminism: %s\n", e.Diverged)
		}
	}
	// model-only fact: RLock; (writer Lock pending); RLock again => deadlock (sync.RWMutex documents this)
	dead, total := 0, 0
	e := &vrt.Explorer{Horizon: 20000, Budget: 100000, MaxBound: 3}
	e.Check = func(x *vrt.Exec) {
		total++
		if x.Deadlock {
			dead++
		}
	}
	e.Explore(shim.RecursiveReadLock)
	st := "ok"
	if dead == 0 || dead == total {
		st = "FAIL"
		bad++
	}
	fmt.Printf("  %-4s %-34s %d of %d schedules deadlock (want: some, not all)\n", st, "rwmutex-recursive-rlock", dead, total)
	if bad > 0 {
		fmt.Printf("conformance: %d program(s) FAILED\n", bad)
		return 2
	}
	fmt.Println("conformance: all programs ok")
	return 0
}

func keys(m map[string]int) []string {
	var ks []string
	for k := range m {
		ks = append(ks, k)
	}
	sort.Strings(ks)
	return ks
}

func init() {
	subcommands["conform"] = func(string) { os.Exit(conform()) }
}
