//go:build verif

// Package vcontext mirrors package context on the controlled runtime: Done channels are model channels
// (so that a select over them is a scheduling decision), deadlines are timers of the virtual clock, and
// cancellation propagates from parent to child synchronously, as in the real package.
// gogu does not use context today; the shim exists so that a change which introduces it (a cleanup
// goroutine stopped through a context, a retry loop with a deadline) is explored instead of failing to
// build.
package vcontext

import (
	"context"
	"time"

	"github.com/esimov/gogu/vrtshim/vrt"
	sync "github.com/esimov/gogu/vrtshim/vsync"
	vtime "github.com/esimov/gogu/vrtshim/vtime"
)

var (
	Canceled         = context.Canceled
	DeadlineExceeded = context.DeadlineExceeded
)

type (
	CancelFunc      func()
	CancelCauseFunc func(cause error)
)

// Context is context.Context with a model channel for Done.
type Context interface {
	Deadline() (deadline time.Time, ok bool)
	Done() *vrt.Chan[struct{}]
	Err() error
	Value(key any) any
}

type emptyCtx struct{}

func (emptyCtx) Deadline() (time.Time, bool) { return time.Time{}, false }
func (emptyCtx) Done() *vrt.Chan[struct{}]   { return nil }
func (emptyCtx) Err() error                  { return nil }
func (emptyCtx) Value(any) any               { return nil }

func Background() Context { return emptyCtx{} }
func TODO() Context       { return emptyCtx{} }

type cancelCtx struct {
	parent   Context
	mu       sync.Mutex
	done     *vrt.Chan[struct{}]
	err      error
	cause    error
	children []*cancelCtx // in creation order
	deadline time.Time
	hasDl    bool
	timer    *vtime.Timer
}

func (c *cancelCtx) Deadline() (time.Time, bool) {
	if c.hasDl {
		return c.deadline, true
	}
	return c.parent.Deadline()
}
func (c *cancelCtx) Done() *vrt.Chan[struct{}] { return c.done }
func (c *cancelCtx) Err() error {
	c.mu.Lock()
	defer c.mu.Unlock()
	return c.err
}
func (c *cancelCtx) Value(key any) any { return c.parent.Value(key) }

// ancestor finds the nearest enclosing cancelCtx of ctx (nil: none, ctx is never cancelled — or it is a
// foreign implementation, which is then watched by a goroutine as in the real package).
func ancestor(ctx Context) *cancelCtx {
	for {
		switch x := ctx.(type) {
		case *cancelCtx:
			return x
		case *valueCtx:
			ctx = x.Context
		case *withoutCancelCtx:
			return nil
		default:
			return nil
		}
	}
}

func newCancelCtx(parent Context) *cancelCtx {
	if parent == nil {
		panic("cannot create context from nil parent")
	}
	c := &cancelCtx{parent: parent, done: vrt.MakeChan[struct{}](0)}
	if p := ancestor(parent); p != nil {
		p.mu.Lock()
		if p.err != nil {
			p.mu.Unlock()
			c.cancel(false, p.err, p.cause)
		} else {
			p.children = append(p.children, c)
			p.mu.Unlock()
		}
	} else if d := parent.Done(); d != nil {
		// a Context implementation that is not ours: watch it
		vrt.GoNamed("context-watch", true, func() {
			s := vrt.Select(false, vrt.RecvCase(d), vrt.RecvCase(c.done))
			if s.Index == 0 {
				c.cancel(false, parent.Err(), nil)
			}
		})
	}
	return c
}

func (c *cancelCtx) cancel(removeFromParent bool, err, cause error) {
	if cause == nil {
		cause = err
	}
	c.mu.Lock()
	if c.err != nil {
		c.mu.Unlock()
		return
	}
	c.err, c.cause = err, cause
	vrt.Close(c.done)
	kids := c.children
	c.children = nil
	t := c.timer
	c.timer = nil
	c.mu.Unlock()
	for _, k := range kids {
		k.cancel(false, err, cause)
	}
	if t != nil {
		t.Stop()
	}
	if removeFromParent {
		if p := ancestor(c.parent); p != nil {
			p.mu.Lock()
			for i, k := range p.children {
				if k == c {
					p.children = append(p.children[:i:i], p.children[i+1:]...)
					break
				}
			}
			p.mu.Unlock()
		}
	}
}

func WithCancel(parent Context) (Context, CancelFunc) {
	c := newCancelCtx(parent)
	return c, func() { c.cancel(true, Canceled, nil) }
}

func WithCancelCause(parent Context) (Context, CancelCauseFunc) {
	c := newCancelCtx(parent)
	return c, func(cause error) { c.cancel(true, Canceled, cause) }
}

func WithDeadline(parent Context, d time.Time) (Context, CancelFunc) {
	return WithDeadlineCause(parent, d, nil)
}

func WithDeadlineCause(parent Context, d time.Time, cause error) (Context, CancelFunc) {
	if cur, ok := parent.Deadline(); ok && cur.Before(d) {
		return WithCancel(parent) // the parent's deadline comes first
	}
	c := newCancelCtx(parent)
	c.deadline, c.hasDl = d, true
	dur := vtime.Until(d)
	if dur <= 0 {
		c.cancel(true, DeadlineExceeded, cause)
		return c, func() { c.cancel(false, Canceled, nil) }
	}
	c.mu.Lock()
	if c.err == nil {
		c.timer = vtime.AfterFunc(dur, func() { c.cancel(true, DeadlineExceeded, cause) })
	}
	c.mu.Unlock()
	return c, func() { c.cancel(true, Canceled, nil) }
}

func WithTimeout(parent Context, timeout time.Duration) (Context, CancelFunc) {
	return WithDeadline(parent, vtime.Now().Add(timeout))
}

func WithTimeoutCause(parent Context, timeout time.Duration, cause error) (Context, CancelFunc) {
	return WithDeadlineCause(parent, vtime.Now().Add(timeout), cause)
}

type valueCtx struct {
	Context
	key, val any
}

func (c *valueCtx) Value(key any) any {
	if c.key == key {
		return c.val
	}
	return c.Context.Value(key)
}

func WithValue(parent Context, key, val any) Context {
	if parent == nil {
		panic("cannot create context from nil parent")
	}
	if key == nil {
		panic("nil key")
	}
	return &valueCtx{parent, key, val}
}

type withoutCancelCtx struct{ c Context }

func (withoutCancelCtx) Deadline() (time.Time, bool) { return time.Time{}, false }
func (withoutCancelCtx) Done() *vrt.Chan[struct{}]   { return nil }
func (withoutCancelCtx) Err() error                  { return nil }
func (c withoutCancelCtx) Value(key any) any         { return c.c.Value(key) }

func WithoutCancel(parent Context) Context { return &withoutCancelCtx{parent} }

// Cause returns the cause of ctx's cancellation (its Err when none was given).
func Cause(ctx Context) error {
	if c := ancestor(ctx); c != nil {
		c.mu.Lock()
		defer c.mu.Unlock()
		return c.cause
	}
	return ctx.Err()
}

// AfterFunc runs f in its own goroutine once ctx is done; stop reports whether it prevented that.
func AfterFunc(ctx Context, f func()) (stop func() bool) {
	stopCh := vrt.MakeChan[struct{}](0)
	var mu sync.Mutex
	state := 0 // 0 waiting, 1 started, 2 stopped
	vrt.GoNamed("context.AfterFunc", true, func() {
		s := vrt.Select(false, vrt.RecvCase(ctx.Done()), vrt.RecvCase(stopCh))
		if s.Index != 0 {
			return
		}
		mu.Lock()
		if state != 0 {
			mu.Unlock()
			return
		}
		state = 1
		mu.Unlock()
		f()
	})
	return func() bool {
		mu.Lock()
		defer mu.Unlock()
		if state != 0 {
			return false
		}
		state = 2
		vrt.Close(stopCh)
		return true
	}
}
