//go:build verif

package main

import (
	"github.com/esimov/gogu/vrtshim/vrt"
	"verif/enum"
)

const seamNote = "built with the vinstr overlay: every `for range` over a map inside gogu and every math/rand draw is a choice point, enumerated exhaustively per call"

const seams = true

// withChoices runs body once per choice sequence of the seams (map iteration
// orders, rand answers) reachable inside it.
func withChoices(limit int, body func()) (runs int, complete bool) {
	var c enum.Choices
	vrt.ChooseHook = c.Choose
	defer func() { vrt.ChooseHook = nil }()
	complete = c.Run(limit, body)
	return c.Runs, complete
}
