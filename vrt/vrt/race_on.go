//go:build verif && race

package vrt

import "runtime"

// RaceBuild reports whether this binary carries the race detector.
const RaceBuild = true

//go:norace
func raceDisable() { runtime.RaceDisable() }

//go:norace
func raceEnable() { runtime.RaceEnable() }
