//go:build verif

// Package vrand2 mirrors the top-level functions of math/rand/v2 (randomly seeded in the real package):
// when choices are driven every draw is a choice point, as in vrand. Explicitly seeded generators
// (rand.New(rand.NewPCG(a, b))) are deterministic already and are the real types.
package vrand2

import (
	"math/rand/v2"

	"github.com/esimov/gogu/vrtshim/vrand"
)

type (
	Rand    = rand.Rand
	Source  = rand.Source
	PCG     = rand.PCG
	ChaCha8 = rand.ChaCha8
	Zipf    = rand.Zipf
)

func New(src Source) *Rand                             { return rand.New(src) }
func NewPCG(seed1, seed2 uint64) *PCG                  { return rand.NewPCG(seed1, seed2) }
func NewChaCha8(seed [32]byte) *ChaCha8                { return rand.NewChaCha8(seed) }
func NewZipf(r *Rand, s, v float64, imax uint64) *Zipf { return rand.NewZipf(r, s, v, imax) }

func IntN(n int) int                     { return vrand.Intn(n) }
func Int64N(n int64) int64               { return int64(vrand.Intn(int(n))) }
func Int32N(n int32) int32               { return int32(vrand.Intn(int(n))) }
func UintN(n uint) uint                  { return uint(vrand.Intn(int(n))) }
func Uint64N(n uint64) uint64            { return uint64(vrand.Intn(int(n))) }
func Uint32N(n uint32) uint32            { return uint32(vrand.Intn(int(n))) }
func Int() int                           { return vrand.Int() }
func Int64() int64                       { return int64(vrand.Int()) }
func Int32() int32                       { return int32(vrand.Int()) }
func Uint() uint                         { return uint(vrand.Int()) }
func Uint64() uint64                     { return uint64(vrand.Int()) }
func Uint32() uint32                     { return uint32(vrand.Int()) }
func Float64() float64                   { return vrand.Float64() }
func Float32() float32                   { return float32(vrand.Float64()) }
func NormFloat64() float64               { return vrand.Float64()*2 - 1 }
func ExpFloat64() float64                { return vrand.Float64() }
func Perm(n int) []int                   { return vrand.Perm(n) }
func Shuffle(n int, swap func(i, j int)) { vrand.Shuffle(n, swap) }

// N is the generic bounded draw.
func N[Int interface {
	~int | ~int8 | ~int16 | ~int32 | ~int64 | ~uint | ~uint8 | ~uint16 | ~uint32 | ~uint64 | ~uintptr
}](n Int) Int {
	if n <= 0 {
		panic("invalid argument to N")
	}
	return Int(vrand.Intn(int(n)))
}
