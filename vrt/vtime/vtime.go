//go:build verif

// Package vtime mirrors the part of package time that gogu uses, on the virtual clock.
package vtime

import (
	"time"

	"github.com/esimov/gogu/vrtshim/vrt"
)

type (
	Duration = time.Duration
	Time     = time.Time
	Month    = time.Month
	Weekday  = time.Weekday
	Location = time.Location
)

const (
	Nanosecond  = time.Nanosecond
	Microsecond = time.Microsecond
	Millisecond = time.Millisecond
	Second      = time.Second
	Minute      = time.Minute
	Hour        = time.Hour
)

var UTC = time.UTC

func Now() Time {
	return vrt.Now() // pass-through: the real clock, or vrt.FakeClock when a sequential engine owns time
}

func Since(t Time) Duration { return Now().Sub(t) }
func Until(t Time) Duration { return t.Sub(Now()) }

func Sleep(d Duration) {
	if !vrt.Active() {
		if !vrt.Aborting() {
			time.Sleep(d)
		}
		return
	}
	vrt.Sleep(d)
}

func Unix(sec, nsec int64) Time                { return time.Unix(sec, nsec) }
func ParseDuration(s string) (Duration, error) { return time.ParseDuration(s) }

type Timer struct {
	C    *vrt.Chan[Time]
	id   vrt.TimerID
	real *time.Timer
}

//go:norace
func AfterFunc(d Duration, f func()) *Timer {
	if !vrt.Active() {
		if vrt.Aborting() {
			return &Timer{id: -1}
		}
		return &Timer{real: time.AfterFunc(d, f), id: -1}
	}
	vrt.Sched(what("time.AfterFunc", d))
	return &Timer{id: vrt.AddTimer(d, 0, f, nil, "AfterFunc")}
}

//go:norace
func NewTimer(d Duration) *Timer {
	if !vrt.Active() {
		if vrt.Aborting() {
			return &Timer{id: -1, C: vrt.MakeChan[Time](1)}
		}
		return passTimer(d)
	}
	vrt.Sched(what("time.NewTimer", d))
	ch := vrt.MakeChan[Time](1)
	return &Timer{C: ch, id: vrt.AddTimer(d, 0, nil, ch, "Timer")}
}

// passTimer bridges a real timer into a wrapper channel (pass-through mode).
func passTimer(d Duration) *Timer {
	ch := vrt.MakeChan[Time](1)
	rt := time.AfterFunc(d, func() { vrt.Send(ch, time.Now()) })
	return &Timer{C: ch, real: rt, id: -1}
}

func After(d Duration) *vrt.Chan[Time] { return NewTimer(d).C }

//go:norace
func (t *Timer) Stop() bool {
	if t.real != nil {
		return t.real.Stop()
	}
	if !vrt.Active() {
		return false
	}
	vrt.Sched("Timer.Stop")
	return vrt.StopTimer(t.id)
}

//go:norace
func (t *Timer) Reset(d Duration) bool {
	if t.real != nil {
		return t.real.Reset(d)
	}
	if !vrt.Active() {
		return false
	}
	vrt.Sched(what("Timer.Reset", d))
	return vrt.ResetTimer(t.id, d)
}

type Ticker struct {
	C    *vrt.Chan[Time]
	id   vrt.TimerID
	real *time.Ticker
	stop chan struct{}
}

//go:norace
func NewTicker(d Duration) *Ticker {
	if d <= 0 {
		panic("non-positive interval for NewTicker")
	}
	if !vrt.Active() {
		ch := vrt.MakeChan[Time](1)
		tk := &Ticker{C: ch, id: -1}
		if vrt.Aborting() {
			return tk
		}
		tk.real = time.NewTicker(d)
		tk.stop = make(chan struct{})
		go func() {
			for {
				select {
				case v := <-tk.real.C:
					vrt.Select(true, vrt.SendCase(ch, v))
				case <-tk.stop:
					return
				}
			}
		}()
		return tk
	}
	vrt.Sched(what("time.NewTicker", d))
	ch := vrt.MakeChan[Time](1)
	return &Ticker{C: ch, id: vrt.AddTimer(d, d, nil, ch, "Ticker")}
}

//go:norace
func (t *Ticker) Stop() {
	if t.real != nil {
		t.real.Stop()
		close(t.stop)
		return
	}
	if !vrt.Active() {
		return
	}
	vrt.Sched("Ticker.Stop")
	vrt.StopTimer(t.id)
}

func Tick(d Duration) *vrt.Chan[Time] { return NewTicker(d).C }

// what names a pending timer operation together with its duration argument: the argument is a value the
// caller computed earlier and holds in a local, and it decides the future (stateful exploration keys the
// state on every thread's pending operation).
//
//go:norace
func what(op string, d Duration) string {
	if !vrt.Stateful() {
		return op
	}
	return op + "(" + d.String() + ")"
}
