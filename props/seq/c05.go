package main

import (
	"fmt"

	"github.com/esimov/gogu/queue"
	"verif/seqmc"
)

// C05 — FIFO queues. Reference model: a Go slice.

func init() {
	registry["C05"] = func() []*seqmc.Spec {
		cap := 4
		pairCap := 2
		if thorough {
			cap = 9
			pairCap = 3
		}
		return []*seqmc.Spec{
			{Property: "C05", Component: "Queue", Inits: []string{"empty"}, New: func(string) seqmc.Sys {
				return &queueSys{name: "Queue", q: sliceQ{queue.New[int]()}, cap: cap}
			}},
			{Property: "C05", Component: "LQueue", Inits: []string{"1", "2", "3"}, New: func(in string) seqmc.Sys {
				v := int(in[0] - '0')
				return &queueSys{name: "LQueue", q: linkedQ{queue.NewLinked[int](v)}, model: []int{v}, cap: cap}
			}},
			// two instances side by side (whatever the implementation keeps at package level)
			{Property: "C05", Component: "Queue x Queue", KeyName: "Queue", Inits: []string{"empty"}, New: func(string) seqmc.Sys {
				return seqmc.Pair(&queueSys{name: "Queue", q: sliceQ{queue.New[int]()}, cap: pairCap}, &queueSys{name: "Queue", q: sliceQ{queue.New[int]()}, cap: pairCap})
			}},
			{Property: "C05", Component: "LQueue x LQueue", KeyName: "LQueue", Inits: []string{"1"}, New: func(string) seqmc.Sys {
				return seqmc.Pair(&queueSys{name: "LQueue", q: linkedQ{queue.NewLinked[int](1)}, model: []int{1}, cap: pairCap}, &queueSys{name: "LQueue", q: linkedQ{queue.NewLinked[int](2)}, model: []int{2}, cap: pairCap})
			}},
		}
	}
}

// fifo is the common surface of both implementations.
type fifo interface {
	Enqueue(int)
	Dequeue() (int, bool) // ok=false: emptiness reported (error for Queue; LQueue has no error channel)
	Peek() int
	Search(int) bool
	Size() int
	Clear()
	Impl() any
	ReportsEmpty() bool
}

type sliceQ struct{ q *queue.Queue[int] }

func (s sliceQ) Enqueue(v int) { s.q.Enqueue(v) }
func (s sliceQ) Dequeue() (int, bool) {
	v, err := s.q.Dequeue()
	return v, err == nil
}
func (s sliceQ) Peek() int          { return s.q.Peek() }
func (s sliceQ) Search(v int) bool  { return s.q.Search(v) }
func (s sliceQ) Size() int          { return s.q.Size() }
func (s sliceQ) Clear()             { s.q.Clear() }
func (s sliceQ) Impl() any          { return s.q }
func (s sliceQ) ReportsEmpty() bool { return true }

type linkedQ struct{ q *queue.LQueue[int] }

func (s linkedQ) Enqueue(v int)        { s.q.Enqueue(v) }
func (s linkedQ) Dequeue() (int, bool) { return s.q.Dequeue(), true }
func (s linkedQ) Peek() int            { return s.q.Peek() }
func (s linkedQ) Search(v int) bool    { return s.q.Search(v) }
func (s linkedQ) Size() int            { return s.q.Size() }
func (s linkedQ) Clear()               { s.q.Clear() }
func (s linkedQ) Impl() any            { return s.q }
func (s linkedQ) ReportsEmpty() bool   { return false }

type queueSys struct {
	name  string
	q     fifo
	model []int
	cap   int
}

func (s *queueSys) Ops() []seqmc.Op {
	ops := []seqmc.Op{}
	if len(s.model) < s.cap {
		ops = append(ops, op("Enqueue", 1), op("Enqueue", 2), op("Enqueue", 3))
	}
	ops = append(ops, op("Dequeue"), op("Clear"))
	return ops
}

// classify says how a wrong value relates to the model (part of the finding key).
func classify(got int, model []int) string {
	if got == 0 {
		return "got=zero"
	}
	for _, m := range model {
		if m == got {
			return "got=other-held-element"
		}
	}
	return "got=element-not-held"
}

func (s *queueSys) Apply(o seqmc.Op, c *seqmc.Ctx) {
	switch o.N {
	case "Enqueue":
		s.q.Enqueue(o.I[0])
		s.model = append(s.model, o.I[0])
	case "Dequeue":
		if len(s.model) == 0 {
			before := seqmc.DumpShallow(s.q.Impl(), "prev")
			got, ok := s.q.Dequeue()
			if s.q.ReportsEmpty() && ok {
				c.Soft(s.name+".Dequeue/empty-not-reported", "Dequeue on an empty queue returned no error (value %d)", got)
			}
			if got != 0 {
				c.Soft(s.name+".Dequeue/empty-returns-nonzero/"+classify(got, nil), "Dequeue on an empty queue returned %d, want the zero value", got)
			}
			if after := seqmc.DumpShallow(s.q.Impl(), "prev"); after != before {
				c.Fail(s.name+".Dequeue/empty-changes-state", "Dequeue on an empty queue changed the queue (Size now %d)", s.q.Size())
			}
			return
		}
		got, ok := s.q.Dequeue()
		want := s.model[0]
		if !ok {
			c.Soft(s.name+".Dequeue/spurious-empty", "Dequeue reported emptiness with %v held", s.model)
		} else if got != want {
			c.Soft(s.name+".Dequeue/wrong-element/"+classify(got, s.model), "Dequeue returned %d, want %d (held %v)", got, want, s.model)
		}
		s.model = s.model[1:]
	case "Clear":
		s.q.Clear()
		s.model = nil
	default:
		panic("unknown op " + o.N)
	}
}

func (s *queueSys) Observe(c *seqmc.Ctx) {
	if n := s.q.Size(); n != len(s.model) {
		cls := "wrong"
		if n < 0 {
			cls = "negative"
		}
		c.Fail(s.name+".Size/"+cls, "Size = %d, want %d (held %v)", n, len(s.model), s.model)
	}
	want := 0
	if len(s.model) > 0 {
		want = s.model[0]
	}
	if got := s.q.Peek(); got != want {
		k := "Peek/differs-from-next-dequeue/"
		if len(s.model) == 0 {
			k = "Peek/nonzero-on-empty/"
		}
		c.Fail(s.name+"."+k+classify(got, s.model), "Peek = %d, want %d (held %v)", got, want, s.model)
	}
	for v := 0; v <= 4; v++ {
		held := false
		for _, m := range s.model {
			held = held || m == v
		}
		if got := s.q.Search(v); got != held {
			c.Fail(fmt.Sprintf("%s.Search/reports-%t-for-%s", s.name, got, map[bool]string{true: "held", false: "absent"}[held]+zeroTag(v)), "Search(%d) = %t with %v held", v, got, s.model)
		}
	}
}

func zeroTag(v int) string {
	if v == 0 {
		return "-zero-value"
	}
	return ""
}

func (s *queueSys) Key() string {
	return seqmc.DumpShallow(s.q.Impl(), "prev") + "|" + fmt.Sprint(s.model)
}
