//go:build verif

// Package vmaphash mirrors hash/maphash with seeds the explorer owns: the real package draws a random
// seed per MakeSeed, which would make the shard a key lands in (and with it the interleavings of a sharded
// container) differ from one execution to the next. Seeds are numbered per execution; the hash is FNV-1a
// mixed with the seed -- any fixed function will do, callers may only rely on "equal inputs, equal seed:
// equal hash".
package vmaphash

import "github.com/esimov/gogu/vrtshim/vrt"

type Seed struct{ s uint64 }

func MakeSeed() Seed { return Seed{0x9e3779b97f4a7c15 * uint64(vrt.NextObjID()+1)} }

func mix(seed Seed, h uint64, b byte) uint64 { return (h ^ uint64(b)) * 1099511628211 }

func Bytes(seed Seed, b []byte) uint64 {
	h := uint64(14695981039346656037) ^ seed.s
	for _, c := range b {
		h = mix(seed, h, c)
	}
	return h ^ h>>29
}

func String(seed Seed, s string) uint64 {
	h := uint64(14695981039346656037) ^ seed.s
	for i := 0; i < len(s); i++ {
		h = mix(seed, h, s[i])
	}
	return h ^ h>>29
}

// Hash is the incremental form.
type Hash struct {
	seed   Seed
	seeded bool
	buf    []byte
}

func (h *Hash) init() {
	if !h.seeded {
		h.seed, h.seeded = MakeSeed(), true
	}
}
func (h *Hash) SetSeed(s Seed) { h.seed, h.seeded, h.buf = s, true, h.buf[:0] }
func (h *Hash) Seed() Seed     { h.init(); return h.seed }
func (h *Hash) Reset()         { h.init(); h.buf = h.buf[:0] }
func (h *Hash) Write(b []byte) (int, error) {
	h.init()
	h.buf = append(h.buf, b...)
	return len(b), nil
}
func (h *Hash) WriteString(s string) (int, error) {
	h.init()
	h.buf = append(h.buf, s...)
	return len(s), nil
}
func (h *Hash) WriteByte(b byte) error { h.init(); h.buf = append(h.buf, b); return nil }
func (h *Hash) Sum64() uint64          { h.init(); return Bytes(h.seed, h.buf) }
func (h *Hash) Size() int              { return 8 }
func (h *Hash) BlockSize() int         { return 128 }
func (h *Hash) Sum(b []byte) []byte {
	x := h.Sum64()
	return append(b, byte(x>>56), byte(x>>48), byte(x>>40), byte(x>>32), byte(x>>24), byte(x>>16), byte(x>>8), byte(x))
}
