package main

import (
	"fmt"
	"reflect"

	"github.com/esimov/gogu/cache"
	"verif/core"
	"verif/seqmc"
)

// C07 — LRU cache. Reference model: recency-ordered list, most recent first.

type kv struct {
	K int
	V string
}

func init() {
	registry["C07"] = func() []*seqmc.Spec {
		maxCap, keys := 4, 5
		if thorough {
			maxCap, keys = 5, 7
		}
		var specs []*seqmc.Spec
		for n := 1; n <= maxCap; n++ {
			n := n
			specs = append(specs, &seqmc.Spec{Property: "C07", Component: fmt.Sprintf("LRU(cap=%d)", n), Inits: []string{"empty"},
				New: func(string) seqmc.Sys {
					c, err := cache.NewLRU[int, string](n)
					if err != nil {
						panic(err)
					}
					return &lruSys{c: c, cap: n, keys: keys}
				}})
		}
		// two caches side by side (capacities 1 and 2): whatever is kept at package level -- a pool of
		// list nodes, a shared sentinel
		specs = append(specs, &seqmc.Spec{Property: "C07", Component: "LRU(cap=1) x LRU(cap=2)", KeyName: "LRU", Inits: []string{"empty"},
			New: func(string) seqmc.Sys {
				a, _ := cache.NewLRU[int, string](1)
				b, _ := cache.NewLRU[int, string](2)
				return seqmc.Pair(&lruSys{c: a, cap: 1, keys: 3}, &lruSys{c: b, cap: 2, keys: 3})
			}})
		return specs
	}
	extras["C07"] = func(rep *core.Report) {
		for _, n := range []int{0, -1, -7} {
			c, err := cache.NewLRU[int, string](n)
			rep.Inc("transitions", 1)
			if err == nil || c != nil {
				rep.Add("LRU.NewLRU/non-positive-capacity-accepted", fmt.Sprintf("NewLRU(%d) returned (%v, %v), want an error", n, c, err), fmt.Sprintf("NewLRU(%d)", n), nil)
			}
		}
	}
}

type lruSys struct {
	c     *cache.LRUCache[int, string]
	model []kv // most recently touched first
	cap   int
	keys  int
}

var lruVals = []string{"a", "b"}

func (s *lruSys) Ops() []seqmc.Op {
	var ops []seqmc.Op
	for k := 0; k < s.keys; k++ {
		for vi := range lruVals {
			ops = append(ops, op("Add", k, vi))
		}
	}
	for k := 0; k < s.keys; k++ {
		ops = append(ops, op("Get", k), op("Remove", k))
	}
	return append(ops, op("GetOldest"), op("RemoveOldest"), op("RemoveYoungest"), op("Flush"))
}

func (s *lruSys) find(k int) int {
	for i, e := range s.model {
		if e.K == k {
			return i
		}
	}
	return -1
}

func (s *lruSys) touch(i int) {
	e := s.model[i]
	copy(s.model[1:i+1], s.model[:i])
	s.model[0] = e
}

func (s *lruSys) removeAt(i int) kv {
	e := s.model[i]
	s.model = append(s.model[:i:i], s.model[i+1:]...)
	return e
}

func (s *lruSys) Apply(o seqmc.Op, c *seqmc.Ctx) {
	const n = "LRU."
	switch o.N {
	case "Add":
		k, v := o.I[0], lruVals[o.I[1]]
		gk, gv, removed := s.c.Add(k, v)
		if i := s.find(k); i >= 0 {
			s.touch(i)
			s.model[0].V = v
			if removed || gk != 0 || gv != "" {
				c.Soft(n+"Add/existing-key-reports-eviction", "Add(%d,%q) of an existing key returned (%d,%q,%t)", k, v, gk, gv, removed)
			}
			return
		}
		s.model = append([]kv{{k, v}}, s.model...)
		if len(s.model) > s.cap {
			ev := s.removeAt(len(s.model) - 1)
			if !removed {
				c.Soft(n+"Add/full-no-eviction-reported", "Add(%d,%q) to a full cache reported no eviction, want (%d,%q)", k, v, ev.K, ev.V)
			} else if gk != ev.K || gv != ev.V {
				c.Soft(n+"Add/evicts-wrong-entry", "Add(%d,%q) to a full cache evicted (%d,%q), want the least recently used (%d,%q)", k, v, gk, gv, ev.K, ev.V)
			}
		} else if removed || gk != 0 || gv != "" {
			c.Soft(n+"Add/spurious-eviction", "Add(%d,%q) below capacity returned (%d,%q,%t)", k, v, gk, gv, removed)
		}
	case "Get":
		k := o.I[0]
		gv, ok := s.c.Get(k)
		if i := s.find(k); i >= 0 {
			want := s.model[i].V
			s.touch(i)
			if !ok || gv != want {
				c.Soft(n+"Get/present-key", "Get(%d) = (%q,%t), want (%q,true)", k, gv, ok, want)
			}
		} else if ok || gv != "" {
			c.Soft(n+"Get/absent-key-found", "Get(%d) = (%q,%t) for an absent key", k, gv, ok)
		}
	case "GetOldest":
		gk, gv, ok := s.c.GetOldest()
		if len(s.model) == 0 {
			if ok || gk != 0 || gv != "" {
				c.Soft(n+"GetOldest/empty", "GetOldest on an empty cache = (%d,%q,%t)", gk, gv, ok)
			}
			return
		}
		e := s.model[len(s.model)-1]
		s.touch(len(s.model) - 1)
		if !ok || gk != e.K || gv != e.V {
			c.Soft(n+"GetOldest/wrong-entry", "GetOldest = (%d,%q,%t), want (%d,%q,true)", gk, gv, ok, e.K, e.V)
		}
	case "Remove":
		k := o.I[0]
		gv, ok := s.c.Remove(k)
		if i := s.find(k); i >= 0 {
			e := s.removeAt(i)
			if !ok || gv != e.V {
				c.Soft(n+"Remove/present-key", "Remove(%d) = (%q,%t), want (%q,true)", k, gv, ok, e.V)
			}
		} else if ok || gv != "" {
			c.Soft(n+"Remove/absent-key", "Remove(%d) = (%q,%t) for an absent key", k, gv, ok)
		}
	case "RemoveOldest", "RemoveYoungest":
		var gk int
		var gv string
		var ok bool
		idx := len(s.model) - 1
		if o.N == "RemoveOldest" {
			gk, gv, ok = s.c.RemoveOldest()
		} else {
			gk, gv, ok = s.c.RemoveYoungest()
			idx = 0
		}
		if len(s.model) == 0 {
			if ok || gk != 0 || gv != "" {
				c.Soft(n+o.N+"/empty", "%s on an empty cache = (%d,%q,%t)", o.N, gk, gv, ok)
			}
			return
		}
		e := s.removeAt(idx)
		if !ok || gk != e.K || gv != e.V {
			c.Soft(n+o.N+"/wrong-entry", "%s = (%d,%q,%t), want (%d,%q,true)", o.N, gk, gv, ok, e.K, e.V)
		}
	case "Flush":
		s.c.Flush()
		s.model = nil
	default:
		panic("unknown op")
	}
}

func (s *lruSys) Observe(c *seqmc.Ctx) {
	const n = "LRU."
	if got := s.c.Count(); got != len(s.model) {
		cls := "wrong"
		if got > s.cap {
			cls = "exceeds-capacity"
		}
		c.Fail(n+"Count/"+cls, "Count = %d, want %d (capacity %d, model %v)", got, len(s.model), s.cap, s.model)
	}
	gk, gv, ok := s.c.GetYoungest()
	if len(s.model) == 0 {
		if ok {
			c.Fail(n+"GetYoungest/empty", "GetYoungest on an empty cache = (%d,%q,true)", gk, gv)
		}
	} else if e := s.model[0]; !ok || gk != e.K || gv != e.V {
		c.Fail(n+"GetYoungest/wrong-entry", "GetYoungest = (%d,%q,%t), want (%d,%q,true); model %v", gk, gv, ok, e.K, e.V, s.model)
	}
	// structural: map and ring hold the same number of nodes
	// (only while the private layout is the one this was written against: it is not part of the property)
	if im, lv := seqmc.Get(s.c, "items"), seqmc.Get(s.c, "evictList", "len"); im.IsValid() && im.Kind() == reflect.Map && lv.IsValid() && lv.CanInt() {
		if items, ll := im.Len(), int(lv.Int()); items != ll {
			c.Fail(n+"structure/map-and-list-disagree", "items map holds %d nodes, eviction list %d (model %v)", items, ll, s.model)
		}
	}
	if c.Copy == nil {
		return
	}
	// copy 1: the key view (map): every key found exactly when present, with its latest value
	cp := c.Copy().(*lruSys)
	for k := 0; k <= s.keys; k++ {
		gv, ok := cp.c.Get(k)
		i := s.find(k)
		if (i >= 0) != ok || (ok && gv != s.model[i].V) {
			c.Fail(n+"lookup/disagrees-with-model", "Get(%d) = (%q,%t) but model is %v", k, gv, ok, s.model)
			return
		}
	}
	// copy 2: the recency view (list): draining by RemoveOldest yields the model, oldest first
	cp = c.Copy().(*lruSys)
	for i := len(s.model) - 1; i >= 0; i-- {
		gk, gv, ok := cp.c.RemoveOldest()
		if e := s.model[i]; !ok || gk != e.K || gv != e.V {
			c.Fail(n+"recency-order/drain-disagrees-with-model", "draining by RemoveOldest gave (%d,%q,%t) where (%d,%q) was expected; model (youngest first) %v", gk, gv, ok, e.K, e.V, s.model)
			return
		}
	}
	if _, _, ok := cp.c.RemoveOldest(); ok || cp.c.Count() != 0 {
		c.Fail(n+"recency-order/extra-entries", "entries left after draining the %d modelled ones (Count=%d)", len(s.model), cp.c.Count())
	}
}

func (s *lruSys) Key() string { return seqmc.Dump(s.c) + "|" + fmt.Sprint(s.model) }
