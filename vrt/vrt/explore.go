//go:build verif

package vrt

import (
	"fmt"
	"os"
	"strings"
	"time"
)

// Explorer is the stateless depth-first search over choice sequences
// (iterative preemption bounding when the unbounded space exceeds the budget).
type Explorer struct {
	Horizon   int
	Quick     bool          // drop scheduling points before pure releases
	Budget    int           // max executions per bound attempt (0 = unlimited)
	Deadline  time.Time     // wall-clock stop (zero = none); hitting it lowers coverage, never the verdict
	MaxBound  int           // highest preemption bound to try after an unbounded attempt failed
	OnlyBound int           // >0: skip the unbounded attempt and enumerate exactly this preemption bound
	Check     func(x *Exec) // oracle for one complete execution (must not retain x)
	// Stateful: keep a set of visited global states (threads' continuations, timers, the harness's
	// KeyFn) and cut every execution that reaches a visited state beyond its replayed prefix. With
	// driver threads that pick their next operation by Choose in an endless loop this explores the
	// reachable state GRAPH of a protocol to a fixpoint instead of bounded scripts. Only meaningful
	// unbounded (no preemption bound). Check is also called for cut executions (x.Pruned).
	Stateful bool
	States   int // distinct global states visited (stateful mode)
	Cuts     int // executions cut at a visited state
	// DepthFirst takes the prefixes of a stateful exploration depth first instead of breadth first.
	// The visited set of a sound state key is the same for both orders (StateHash): harnesses run both
	// and treat a difference as a defect of the key (something that decides the future is missing in it).
	DepthFirst bool
	// Reversed takes the alternatives of every point in the opposite order (a second breadth-first order
	// that is as cheap as the first one, for the same cross-check where depth first is too slow).
	Reversed  bool
	StateHash uint64 // order-independent digest of the visited set

	// results
	Execs       int
	Steps       int
	Complete    bool // the unbounded space was enumerated completely
	BoundDone   int  // largest preemption bound completed (-1: none; only meaningful when !Complete)
	MaxPreempt  int  // largest number of preemptions in any explored execution
	Diverged    string
	StopEarly   func() bool // optional: stop exploring (e.g. after the first violation of a scenario)
	budgetHit   bool
	LastChoices []int
}

type frame struct {
	prefix []int
}

// Explore runs body under every schedule (within bounds) and calls Check on each.
func (e *Explorer) Explore(body func()) {
	e.BoundDone = -1
	if e.Stateful {
		seen := map[string]struct{}{}
		pendingVisited = func(k string) bool {
			if _, ok := seen[k]; ok {
				return true
			}
			seen[k] = struct{}{}
			return false
		}
		defer func() {
			pendingVisited, pendingKeyFn = nil, nil
			e.States = len(seen)
			for k := range seen {
				h := uint64(1469598103934665603)
				for i := 0; i < len(k); i++ {
					h = (h ^ uint64(k[i])) * 1099511628211
				}
				e.StateHash ^= h
			}
			if f := os.Getenv("VERIF_DUMP_STATES"); f != "" { // debugging aid: the visited set, one key per line
				var sb strings.Builder
				for k := range seen {
					sb.WriteString(strings.ReplaceAll(k, "\n", " "))
					sb.WriteString("\n")
				}
				suffix := ".bfs"
				if e.DepthFirst {
					suffix = ".dfs"
				} else if e.Reversed {
					suffix = ".rev"
				}
				os.WriteFile(f+suffix, []byte(sb.String()), 0o644)
			}
		}()
		if e.runBound(-1, body) {
			e.Complete = true
		}
		return
	}
	if e.OnlyBound > 0 {
		if e.runBound(e.OnlyBound, body) {
			e.BoundDone = e.OnlyBound
		}
		return
	}
	if e.runBound(-1, body) {
		e.Complete = true
		return
	}
	for b := 0; b <= e.MaxBound; b++ {
		if !e.runBound(b, body) {
			return
		}
		e.BoundDone = b
	}
}

// runBound enumerates all executions with at most bound preemptions (bound<0: unbounded).
// It returns false if the budget or deadline stopped it.
func (e *Explorer) runBound(bound int, body func()) bool {
	execs := 0
	stack := [][]int{nil}
	pending := 0 // choices held in the stack of unexplored prefixes
	for len(stack) > 0 {
		if pending > 60_000_000 {
			// executions with thousands of choice points: the prefixes waiting to be explored would take
			// gigabytes. Give up on this bound (reported as not completed), never on the machine.
			return false
		}
		var prefix []int
		if e.Stateful && !e.DepthFirst && os.Getenv("VERIF_STATEFUL_DFS") == "" {
			// breadth first: a state is first reached by a shortest choice sequence, which keeps the
			// replayed prefixes (the cost of every later execution through that state) short
			prefix, stack = stack[0], stack[1:]
		} else {
			prefix = stack[len(stack)-1]
			stack = stack[:len(stack)-1]
		}
		pending -= len(prefix)
		if e.Budget > 0 && execs >= e.Budget {
			return false
		}
		if !e.Deadline.IsZero() && execs%64 == 0 && time.Now().After(e.Deadline) {
			return false
		}
		x := Run(prefix, e.Horizon, e.Quick, body)
		execs++
		e.Execs++
		e.Steps += x.Steps
		if x.Diverged != "" {
			e.Diverged = fmt.Sprintf("prefix %v: %s", prefix, x.Diverged)
			return false
		}
		np := x.NumPoints()
		choices := make([]int, np)
		pre := 0
		preAt := make([]int, np+1)
		for i := 0; i < np; i++ {
			p := x.PointAt(i)
			choices[i] = p.Chosen
			preAt[i] = pre
			if !p.Data && p.CurEnabled && p.Chosen != 0 {
				pre++
			}
		}
		if pre > e.MaxPreempt {
			e.MaxPreempt = pre
		}
		if x.Pruned {
			e.Cuts++
		}
		e.LastChoices = choices
		if e.Check != nil {
			e.Check(x)
		}
		if e.StopEarly != nil && e.StopEarly() {
			return true
		}
		// branch on every later point (deepest first so that the DFS order is stable)
		for i0 := np - 1; i0 >= len(prefix); i0-- {
			i := i0
			if e.Reversed {
				i = len(prefix) + (np - 1 - i0)
			}
			p := x.PointAt(i)
			for a0 := p.N - 1; a0 >= 1; a0-- {
				alt := a0
				if e.Reversed {
					alt = p.N - a0
				}
				cost := preAt[i]
				if !p.Data && p.CurEnabled {
					cost++
				}
				if bound >= 0 && cost > bound {
					continue
				}
				np2 := make([]int, i+1)
				copy(np2, choices[:i])
				np2[i] = alt
				stack = append(stack, np2)
				pending += len(np2)
			}
		}
	}
	return true
}
