package main

import (
	"fmt"
	"sort"
	"strings"
	"sync/atomic"

	"github.com/esimov/gogu/heap"
	"verif/core"
	"verif/seqmc"
)

// C03 — binary heap. Reference model: multiset (sorted slice) + current comparator.
// Element type E = {K key, ID tie-breaker}; comparators look at K only, so
// "int heap" is the ID=0 sub-alphabet and the by-key-with-ties heap uses ID in {0,1}.

type hE struct{ K, ID int }

func hLess(a, b hE) bool    { return a.K < b.K }
func hGreater(a, b hE) bool { return a.K > b.K }

var hComps = map[string]func(a, b hE) bool{"<": hLess, ">": hGreater}

func init() {
	registry["C03"] = func() []*seqmc.Spec {
		// (values, ids, cap, fromSliceLen)
		type cfg struct {
			name               string
			vals, ids, cap, fs int
		}
		cfgs := []cfg{{"Heap[int]", 3, 1, 6, 3}, {"Heap[struct,ties]", 2, 2, 5, 2}}
		if thorough {
			cfgs = []cfg{{"Heap[int]", 4, 1, 8, 4}, {"Heap[struct,ties]", 3, 2, 7, 3}}
		}
		var specs []*seqmc.Spec
		for _, cf := range cfgs {
			cf := cf
			var alpha []hE
			for k := 0; k < cf.vals; k++ {
				for id := 0; id < cf.ids; id++ {
					alpha = append(alpha, hE{k, id})
				}
			}
			inits := []string{"new<", "new>"}
			// FromSlice starts: every slice of length 1..fs over the alphabet, both comparators
			var rec func(prefix []int)
			rec = func(prefix []int) {
				if len(prefix) > 0 {
					for _, cmp := range []string{"<", ">"} {
						inits = append(inits, "from"+cmp+fmt.Sprint(prefix))
					}
				}
				if len(prefix) == cf.fs {
					return
				}
				for i := range alpha {
					rec(append(append([]int{}, prefix...), i))
				}
			}
			rec(nil)
			specs = append(specs, &seqmc.Spec{Property: "C03", Component: cf.name, KeyName: "Heap", Inits: inits, New: func(in string) seqmc.Sys {
				s := &heapSys{name: "Heap", alpha: alpha, cap: cf.cap}
				switch {
				case in == "new<" || in == "new>":
					s.cmp = in[3:]
					s.h = heap.NewHeap(hComps[s.cmp])
				default:
					s.cmp = in[4:5]
					var idx []int
					for _, f := range splitInts(in[5:]) {
						idx = append(idx, f)
					}
					data := make([]hE, len(idx))
					for i, x := range idx {
						data[i] = alpha[x]
					}
					s.model = append(s.model, data...)
					s.h = heap.FromSlice(data, hComps[s.cmp])
				}
				return s
			}})
		}
		return specs
	}
	extras["C03"] = func(rep *core.Report) {
		heapSortEnum(rep)
		rep.Set("latent_heap_order_states_without_witness", int(latentHeapOrder.Load()))
	}
}

func splitInts(s string) []int {
	var out []int
	n, in := 0, false
	for _, ch := range s {
		if ch >= '0' && ch <= '9' {
			n = n*10 + int(ch-'0')
			in = true
		} else if in {
			out = append(out, n)
			n, in = 0, false
		}
	}
	if in {
		out = append(out, n)
	}
	return out
}

type heapSys struct {
	name  string
	h     *heap.Heap[hE]
	cmp   string
	model []hE // multiset, unordered
	alpha []hE
	cap   int
}

// others are the fixed partner heaps for Merge/Meld (as alphabet indices).
func (s *heapSys) others() [][]hE {
	a := s.alpha
	return [][]hE{{}, {a[len(a)/2]}, {a[0], a[len(a)-1], a[len(a)-1]}}
}

func (s *heapSys) Ops() []seqmc.Op {
	var ops []seqmc.Op
	if len(s.model) < s.cap {
		for i := range s.alpha {
			ops = append(ops, op("Push", i))
		}
	}
	ops = append(ops, op("Pop"), op("Clear"))
	for i := range s.alpha {
		ops = append(ops, op("Delete", i))
	}
	ops = append(ops, op("Convert", 0), op("Convert", 1))
	// aliased arguments: a heap melded with itself keeps every element once
	ops = append(ops, op("MeldSelf"))
	for i, o := range s.others() {
		// second argument: the partner heap is ordered by the same (0) or the opposite (1) comparator;
		// the result is a heap under the receiver's comparator in both cases
		for opp := 0; opp < 2; opp++ {
			if len(o) < 2 && opp == 1 {
				continue
			}
			if len(s.model)+len(o) <= s.cap {
				ops = append(ops, op("MergeAdopt", i, opp), op("MeldAdopt", i, opp))
				if opp == 0 {
					// the result is adopted and afterwards the SOURCE heap is converted to the opposite
					// comparator: the result must keep the order it was created with
					ops = append(ops, op("MergeAdoptConvertSource", i, opp), op("MeldAdoptConvertSource", i, opp))
					// ... or the emptied inputs of a Meld are used again: the result is a heap of its own
					ops = append(ops, op("MeldAdoptReuseSource", i, opp))
				}
			} else {
				ops = append(ops, op("MergeDrop", i, opp))
			}
		}
	}
	return ops
}

func (s *heapSys) OpClass(o seqmc.Op) string {
	if o.N == "Delete" {
		held := false
		for _, m := range s.model {
			held = held || m == s.alpha[o.I[0]]
		}
		if held {
			return fmt.Sprintf("Delete(held,size=%s)", sizeClass(len(s.model)))
		}
		return "Delete(absent)"
	}
	return o.N
}

func sizeClass(n int) string {
	if n <= 3 {
		return fmt.Sprint(n)
	}
	return ">=4"
}

func (s *heapSys) before(a, b hE) bool { return hComps[s.cmp](a, b) }

// extremal reports whether no held element strictly precedes e.
func (s *heapSys) extremal(e hE) bool {
	for _, m := range s.model {
		if s.before(m, e) {
			return false
		}
	}
	return true
}

func (s *heapSys) idx(e hE) int {
	for i, m := range s.model {
		if m == e {
			return i
		}
	}
	return -1
}

func (s *heapSys) remove(i int) { s.model = append(s.model[:i:i], s.model[i+1:]...) }

func msKey(m []hE) string {
	c := append([]hE{}, m...)
	sort.Slice(c, func(i, j int) bool { return c[i].K < c[j].K || c[i].K == c[j].K && c[i].ID < c[j].ID })
	return fmt.Sprint(c)
}

// drainCheck pops everything from h and requires comparator order and the multiset want.
func drainCheck(h *heap.Heap[hE], before func(a, b hE) bool, want []hE) string {
	var got []hE
	for i := 0; i <= len(want)+2 && h.Size() > 0; i++ {
		got = append(got, h.Pop())
	}
	for i := 1; i < len(got); i++ {
		if before(got[i], got[i-1]) {
			return fmt.Sprintf("Pop sequence %v is out of comparator order at position %d", got, i)
		}
	}
	if msKey(got) != msKey(want) {
		return fmt.Sprintf("Pop sequence %v is not the held multiset %v", got, msKey(want))
	}
	return ""
}

func (s *heapSys) Apply(o seqmc.Op, c *seqmc.Ctx) {
	n := s.name + "."
	switch o.N {
	case "Push":
		e := s.alpha[o.I[0]]
		s.h.Push(e)
		s.model = append(s.model, e)
	case "Pop":
		got := s.h.Pop()
		if len(s.model) == 0 {
			if got != (hE{}) {
				c.Soft(n+"Pop/empty-returns-nonzero", "Pop on an empty heap returned %v", got)
			}
			return
		}
		i := s.idx(got)
		if i < 0 {
			c.Fail(n+"Pop/returns-element-not-held", "Pop returned %v, held %v", got, msKey(s.model))
			return
		}
		if !s.extremal(got) {
			c.Soft(n+"Pop/not-extremal", "Pop returned %v although a held element precedes it under %s; held %v", got, s.cmp, msKey(s.model))
		}
		s.remove(i)
	case "Clear":
		s.h.Clear()
		s.model = nil
	case "Delete":
		e := s.alpha[o.I[0]]
		ok, err := s.h.Delete(e)
		i := s.idx(e)
		if i < 0 {
			if ok || err == nil {
				c.Soft(n+"Delete/absent-value-not-reported", "Delete(%v) of an absent value returned (%t,%v)", e, ok, err)
			}
			return
		}
		if !ok || err != nil {
			c.Soft(n+"Delete/held-value-reported-absent", "Delete(%v) of a held value returned (%t,%v)", e, ok, err)
		}
		s.remove(i)
	case "Convert":
		s.cmp = []string{"<", ">"}[o.I[0]]
		s.h.Convert(hComps[s.cmp])
	case "MeldSelf":
		r := s.h.Meld(s.h)
		if s.h.Size() != 0 {
			c.Fail(n+"Meld/inputs-not-emptied", "after h.Meld(h) the heap has size %d, want 0", s.h.Size())
		}
		if r.Size() != len(s.model) {
			c.Fail(n+"Meld/self/result-size", "h.Meld(h) of a heap holding %d elements has Size %d: every element is held once", len(s.model), r.Size())
		}
		s.h = r
	case "MergeAdopt", "MergeDrop", "MeldAdopt", "MergeAdoptConvertSource", "MeldAdoptConvertSource", "MeldAdoptReuseSource":
		other := s.others()[o.I[0]]
		od := append([]hE{}, other...)
		cmp2 := s.cmp
		if len(o.I) > 1 && o.I[1] == 1 {
			cmp2 = map[string]string{"<": ">", ">": "<"}[s.cmp]
		}
		h2 := heap.FromSlice(od, hComps[cmp2])
		union := append(append([]hE{}, s.model...), other...)
		convSrc := strings.HasSuffix(o.N, "ConvertSource")
		opposite := hComps[map[string]string{"<": ">", ">": "<"}[s.cmp]]
		if o.N == "MeldAdopt" || o.N == "MeldAdoptConvertSource" || o.N == "MeldAdoptReuseSource" {
			src := s.h
			r := s.h.Meld(h2)
			if s.h.Size() != 0 || h2.Size() != 0 {
				c.Fail(n+"Meld/inputs-not-emptied", "after Meld the inputs have sizes %d and %d, want 0 and 0", s.h.Size(), h2.Size())
			}
			if r.Size() != len(union) {
				c.Fail(n+"Meld/result-size", "Meld result has Size %d, want %d", r.Size(), len(union))
			}
			s.h, s.model = r, union
			if convSrc {
				src.Convert(opposite)
				h2.Convert(opposite)
			}
			if o.N == "MeldAdoptReuseSource" {
				// values that would come to the top under either comparator
				for _, h := range []*heap.Heap[hE]{src, h2} {
					h.Push(hE{-1000, 901})
					h.Push(hE{1000, 902})
					if h.Size() != 2 {
						c.Fail(n+"Meld/emptied-input-not-usable", "an input of Meld holds %d elements after two pushes, want 2", h.Size())
					}
				}
			}
			return
		}
		b1, b2 := seqmc.Dump(s.h), seqmc.Dump(h2)
		r := s.h.Merge(h2)
		if seqmc.Dump(s.h) != b1 || seqmc.Dump(h2) != b2 {
			c.Fail(n+"Merge/inputs-modified", "Merge changed one of its inputs")
		}
		if r.Size() != len(union) {
			c.Fail(n+"Merge/result-size", "Merge result has Size %d, want %d", r.Size(), len(union))
		}
		if o.N == "MergeAdopt" || o.N == "MergeAdoptConvertSource" {
			src := s.h
			s.h, s.model = r, union
			if convSrc {
				src.Convert(opposite)
			}
		} else if msg := drainCheck(r, s.before, union); msg != "" {
			c.Soft(n+"Merge/result-"+drainCls(msg), "Merge result: %s", msg)
		}
	default:
		panic("unknown op " + o.N)
	}
}

func drainCls(msg string) string {
	if containsStr(msg, "out of comparator order") {
		return "out-of-order"
	}
	return "multiset-differs"
}

func containsStr(s, sub string) bool {
	for i := 0; i+len(sub) <= len(s); i++ {
		if s[i:i+len(sub)] == sub {
			return true
		}
	}
	return false
}

func (s *heapSys) Observe(c *seqmc.Ctx) {
	n := s.name + "."
	if got := s.h.Size(); got != len(s.model) {
		c.Fail(n+"Size/wrong", "Size = %d, want %d (held %v)", got, len(s.model), msKey(s.model))
		return
	}
	if got := s.h.IsEmpty(); got != (len(s.model) == 0) {
		c.Fail(n+"IsEmpty/wrong", "IsEmpty = %t with %d held", got, len(s.model))
	}
	vals := s.h.GetValues()
	if msKey(vals) != msKey(s.model) {
		c.Fail(n+"contents/multiset-differs", "heap holds %v, want multiset %v", vals, msKey(s.model))
		return
	}
	got := s.h.Peek()
	if len(s.model) == 0 {
		if got != (hE{}) {
			c.Fail(n+"Peek/empty-returns-nonzero", "Peek on an empty heap = %v", got)
		}
	} else if s.idx(got) < 0 || !s.extremal(got) {
		c.Fail(n+"Peek/not-extremal", "Peek = %v although a held element precedes it under %s (array %v)", got, s.cmp, vals)
		return
	}
	if c.Copy == nil || len(s.model) == 0 {
		return
	}
	// full drain on a replayed copy: comparator order and conservation
	cp := c.Copy().(*heapSys)
	if msg := drainCheck(cp.h, s.before, s.model); msg != "" {
		c.Fail(n+"order/pop-sequence-"+drainCls(msg), "%s (array was %v, comparator %s)", msg, vals, s.cmp)
		return
	}
	// The array violates heap order but draining happened to come out sorted:
	// search every extension by <= 2 pushes for a concrete out-of-order Pop
	// sequence. Only a concrete witness is a violation; otherwise the state
	// is merely counted as latent.
	viol := -1
	for i := 1; i < len(vals); i++ {
		if s.before(vals[i], vals[(i-1)/2]) {
			viol = i
			break
		}
	}
	if viol < 0 {
		return
	}
	var exts [][]int
	for i := range s.alpha {
		exts = append(exts, []int{i})
		for j := range s.alpha {
			exts = append(exts, []int{i, j})
		}
	}
	for _, ext := range exts {
		cp := c.Copy().(*heapSys)
		want := append([]hE{}, s.model...)
		for _, x := range ext {
			cp.h.Push(s.alpha[x])
			want = append(want, s.alpha[x])
		}
		if msg := drainCheck(cp.h, s.before, want); msg != "" {
			c.Fail(n+"order/pop-sequence-"+drainCls(msg), "array %v violates heap order at index %d (comparator %s); after pushing %v: %s", vals, viol, s.cmp, ext, msg)
			return
		}
	}
	// no concrete witness within two pushes: not reported, not expanded, counted
	latentHeapOrder.Add(1)
	c.Prune = true
}

var latentHeapOrder atomic.Int64

func (s *heapSys) Key() string { return seqmc.Dump(s.h) + "|" + s.cmp + msKey(s.model) }

// heapSortEnum: every slice up to length L over the alphabet x comparators for FromSlice and Sort.
func heapSortEnum(rep *core.Report) {
	L, A := 7, 3
	if thorough {
		L, A = 8, 4
	}
	type tc struct {
		name string
		cmp  func(a, b hE) bool
		ids  int
	}
	tcs := []tc{{"<", hLess, 1}, {">", hGreater, 1}, {"by-key<", hLess, 2}}
	count := 0
	for _, t := range tcs {
		var alpha []hE
		a := A
		l := L
		if t.ids == 2 {
			a, l = 2, L-1
		}
		for k := 0; k < a; k++ {
			for id := 0; id < t.ids; id++ {
				alpha = append(alpha, hE{k, id})
			}
		}
		var rec func(cur []hE)
		rec = func(cur []hE) {
			count++
			in := append([]hE{}, cur...)
			func() {
				defer func() {
					if r := recover(); r != nil {
						rep.Add("Heap.Sort/panic", fmt.Sprintf("Sort(%v,%s) panicked: %v", cur, t.name, r), fmt.Sprintf("Sort(%v,%s)", cur, t.name), nil)
					}
				}()
				out := heap.Sort(in, t.cmp)
				if msKey(out) != msKey(cur) {
					rep.Add("Heap.Sort/not-a-permutation", fmt.Sprintf("Sort(%v,%s) = %v", cur, t.name, out), fmt.Sprintf("Sort(%v,%s)", cur, t.name), nil)
				}
				for i := 1; i < len(out); i++ {
					if t.cmp(out[i-1], out[i]) { // must be ordered oppositely to the comparator
						rep.Add("Heap.Sort/not-ordered-opposite-to-comparator", fmt.Sprintf("Sort(%v,%s) = %v", cur, t.name, out), fmt.Sprintf("Sort(%v,%s)", cur, t.name), nil)
						break
					}
				}
				in2 := append([]hE{}, cur...)
				h := heap.FromSlice(in2, t.cmp)
				if msg := drainCheck(h, t.cmp, cur); msg != "" {
					rep.Add("Heap.FromSlice/"+drainCls(msg), fmt.Sprintf("FromSlice(%v,%s): %s", cur, t.name, msg), fmt.Sprintf("FromSlice(%v,%s)", cur, t.name), nil)
				}
				// the same on a slice with spare capacity (an append-grown slice, a prefix of a buffer)
				for _, spare := range []int{1, 5, 70, 300} { // 70, 300: a short prefix of a large buffer (capacity thresholds of any shrinking policy)
					in3 := make([]hE, len(cur), len(cur)+spare)
					copy(in3, cur)
					out := heap.Sort(in3, t.cmp)
					bad := msKey(out) != msKey(cur)
					for i := 1; i < len(out) && !bad; i++ {
						bad = t.cmp(out[i-1], out[i])
					}
					if bad {
						rep.Add("Heap.Sort/wrong-on-slice-with-spare-capacity", fmt.Sprintf("Sort(%v with cap len+%d,%s) = %v", cur, spare, t.name, out), fmt.Sprintf("Sort(%v,%s) spare capacity %d", cur, t.name, spare), nil)
					}
					in4 := make([]hE, len(cur), len(cur)+spare)
					copy(in4, cur)
					if msg := drainCheck(heap.FromSlice(in4, t.cmp), t.cmp, cur); msg != "" {
						rep.Add("Heap.FromSlice/"+drainCls(msg)+"/spare-capacity", fmt.Sprintf("FromSlice(%v with cap len+%d,%s): %s", cur, spare, t.name, msg), fmt.Sprintf("FromSlice(%v,%s) spare capacity %d", cur, t.name, spare), nil)
					}
				}
			}()
			if len(cur) >= 2 {
				rep.Nontrivial(t.name + fmt.Sprint(cur))
			}
			if len(cur) == l {
				return
			}
			for _, e := range alpha {
				rec(append(cur, e))
			}
		}
		rec(nil)
	}
	rep.Inc("transitions", count)
	rep.Inc("traces_validated_against_impl", count)
	rep.Set("sort_fromslice_inputs", count)
	rep.Sample("Sort/FromSlice: every slice up to the length bound over the alphabet x {<,>,by-key with ties}")
}
