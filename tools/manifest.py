#!/usr/bin/env python3
"""Generates /verif/MANIFEST.json from the table below (single source of truth)."""
import json, os
ROOT = os.path.dirname(os.path.dirname(os.path.abspath(__file__)))

SEQ_NOTE = ("Trusted: Go compiler/runtime, reflection dump (seqmc/dump.go), the reference model in props/seq. "
            "Scope: the alphabet and size caps stated in the evidence file; histories of any length below the cap when closure=fixpoint.")
checks = {}
def seq(pid, text, technique, ref, note=SEQ_NOTE):
    checks[pid] = dict(engine="seqmc", text=text, technique=technique, ref=ref, note=note)

seq("C05", "Explicit-state model checking of the real Queue and LQueue objects: breadth-first search over every Enqueue/Dequeue/Clear history over a 3-value alphabet under a size cap, run to a fixpoint of the state space (state = reflection dump of the private heap graph x reference slice), with Size/Peek/Search(0..4) compared against the slice model in every reachable state. Exhaustive below the cap, so drain-and-refill histories of any length are covered.",
    "explicit-state BFS over real method calls vs reference model, to fixpoint", "DESIGN.md §3 C05/C06")
seq("C06", "Explicit-state model checking of the real Stack and LStack objects: breadth-first search over every Push/Pop history over a 3-value alphabet under a size cap, run to a fixpoint, with Size/Peek/Search compared against a slice model in every reachable state and every Pop result compared with the model's top.",
    "explicit-state BFS over real method calls vs reference model, to fixpoint", "DESIGN.md §3 C05/C06")

not_built = {}  # property -> reason (kept current while the framework is being built)
props = [json.loads(l)["id"] for l in open(os.path.join(ROOT, "properties.jsonl"))]
for p in props:
    if p not in checks:
        not_built[p] = "check not built yet in this round; planned with the engine named in DESIGN.md §3 (no technique switch)"

m = {
    "version": 1,
    "setup_cmd": "./setup.sh",
    "hooks": {
        "guard": "verif",
        "enable": "no hook commits in /repo: instrumentation is generated at check time into a scratch directory and applied with `go build -overlay` (tools/build_overlay.sh); virtual packages carry the build tag `verif`",
        "baseline_off_cmd": "cd /repo && go test -vet=off -count=1 -timeout 25m ./...",
        "source_commits": [],
        "add_only": True,
    },
    "engines": [
        {"name": "seqmc", "path": "seqmc/ props/seq/", "serves_properties": [p for p in props if p in checks and checks[p]["engine"] == "seqmc"],
         "kind_free_text": "explicit-state breadth-first model checker; transition function is the real method call (successor = replay on a fresh instance + 1 op); state key = canonical reflection dump of the object's private heap graph paired with the reference model"},
    ],
    "checks": [],
    "notes": "All checks: ./run.sh <ID> <tier>; exit 0 held / 1 VIOLATION / 2 machinery failure. Known findings: known-findings.jsonl. Replays: ./run.sh replay <file>.",
    "not_applicable": [{"property_id": p, "reason": r} for p, r in sorted(not_built.items())],
}
for p in props:
    if p not in checks:
        continue
    c = checks[p]
    m["checks"].append({
        "property_id": p,
        "quick_cmd": f"./run.sh {p} quick",
        "thorough_cmd": f"./run.sh {p} thorough",
        "evidence_file": f"evidence/{p}.json",
        "replay_cmd_template": "./run.sh replay {path}",
        "engine": c["engine"],
        "level_claimed": {"category": "model_checking", "text": c["text"], "design_ref": c["ref"]},
        "level_note": c["note"],
        "technique": c["technique"],
    })
json.dump(m, open(os.path.join(ROOT, "MANIFEST.json"), "w"), indent=1)
print("checks:", [c["property_id"] for c in m["checks"]], "not claimed:", sorted(not_built))
