#!/bin/bash
# run.sh <property-id> [quick|thorough]   — entry point of every registered check.
# Rebuilds the harness from /repo's current working tree, runs it, exit status as required by MANIFEST.
# run.sh replay <file>                    — re-executes a replay artefact.
# Development aids (never used by registered commands): VERIF_REPO=<dir> checks another gogu tree
# (e.g. a scratch worktree with a seeded change) and VERIF_OUT=<dir> keeps binaries, scratch files,
# evidence and replays of such a run out of /verif.
cd "$(dirname "$0")" || exit 2
export GOFLAGS=-mod=mod GOPROXY=off GOSUMDB=off GOTOOLCHAIN=local
export VERIF_ROOT="$(pwd)"
export VERIF_REPO="${VERIF_REPO:-/repo}"
export VERIF_OUT="${VERIF_OUT:-$VERIF_ROOT}"
id=$1
tier=${2:-${VERIF_TIER:-quick}}
export VERIF_TIER=$tier
mkdir -p "$VERIF_OUT/bin" "$VERIF_OUT/evidence" "$VERIF_OUT/replays"
export VERIF_MODFLAG=""
if [ "$VERIF_REPO" != /repo ]; then
  sed "s|=> /repo|=> $VERIF_REPO|" go.mod > "$VERIF_OUT/go.mod" && cp go.sum "$VERIF_OUT/go.sum" || exit 2
  export VERIF_MODFLAG="-modfile=$VERIF_OUT/go.mod"
fi

engine_of() {
  case $1 in
    C03|C04|C05|C06|C07|C09|C10|C19) echo seq ;;
    C11|C12|C13|C14|C15|C16) echo pure ;;
    C01) echo conc_race ;;
    C02|C08|C17|C18|C20) echo conc ;;
    *) echo none ;;
  esac
}

build() { # $1 = engine
  case $1 in
    seq) go build $VERIF_MODFLAG -o "$VERIF_OUT/bin/seq" ./props/seq ;;
    pure) tools/build_overlay.sh pure || { echo "NOTE: overlay build failed; falling back to the plain build (no map-order/rand seams)" >&2; go build $VERIF_MODFLAG -o "$VERIF_OUT/bin/pure" ./props/pure; } ;;
    *) tools/build_overlay.sh "$1" ;;
  esac
}

if [ "$id" = replay ]; then
  file=$2
  prop=$(python3 -c "import json,sys;print(json.load(open(sys.argv[1]))['property'])" "$file") || exit 2
  # the tier the finding was made in (the thorough tier keeps scheduling points the quick tier drops)
  export VERIF_TIER=$(python3 -c "import json,sys;print(json.load(open(sys.argv[1])).get('tier') or 'quick')" "$file")
  eng=$(engine_of "$prop")
  build "$eng" || { echo "build failed" >&2; exit 2; }
  exec "$VERIF_OUT/bin/$eng" replay "$file"
fi

if [ "$id" = conform ]; then
  build conc || { echo "build failed" >&2; exit 2; }
  build conc_race || { echo "build failed" >&2; exit 2; }
  "$VERIF_OUT/bin/conc" conform - || exit 2           # outcomes: native subset of explored, assertions hold
  exec "$VERIF_OUT/bin/conc_race" conform-race -      # happens-before: race-free programs quiet, racy ones reported
fi

eng=$(engine_of "$id")
[ "$eng" = none ] && { echo "unknown property $id" >&2; exit 2; }
if [ "$id" = C16 ]; then # its concurrent part runs in the conc harness (race build: data races between helper calls)
  build conc_race || { echo "BUILD-FAILED engine=conc (exit 2: the machinery could not be built against the current tree)" >&2; exit 2; }
fi
build "$eng" || { echo "BUILD-FAILED engine=$eng (exit 2: the machinery could not be built against the current tree)" >&2; exit 2; }
exec "$VERIF_OUT/bin/$eng" "$id"
