//go:build verif

package main

import (
	"fmt"
	"reflect"
	"sort"
	"strings"
	"time"

	"github.com/esimov/gogu/cache"
	"github.com/esimov/gogu/vrtshim/vrt"
	"github.com/esimov/gogu/vrtshim/vruntime"
	sync "github.com/esimov/gogu/vrtshim/vsync"
)

// C08 part B — the cleanup goroutine is on (interval 4 units). Three threads: the script (main), the
// library's own janitor (daemon, created by cache.New through the rewritten go statement, its ticker a
// virtual timer) and a clock thread doing 4 x Advance(2). Every interleaving up to the preemption
// bound is executed. Observations carry virtual-time brackets [t0,t1]; the oracle only asserts what
// the brackets decide (durations are odd, the clock is even: no observation coincides with a deadline).

type janOp struct {
	kind string // set upd get del count
	key  string
	dur  int // index into c08durs
}

func (o janOp) String() string {
	switch o.kind {
	case "set", "upd":
		return fmt.Sprintf("%s(%s,%s)", map[string]string{"set": "Set", "upd": "Update"}[o.kind], o.key, c08durNames[o.dur])
	case "get":
		return "Get(" + o.key + ")"
	case "del":
		return "Delete(" + o.key + ")"
	}
	return "Count()"
}

type janRec struct {
	op     janOp
	t0, t1 int64
	err    bool
	val    string
	n      int
}

type janEnt struct {
	val    string
	lo, hi int64
	never  bool
}

const janInterval = 4

func c08janScripts() [][]janOp {
	first := []janOp{{"set", "x", 2}, {"set", "x", 3}, {"set", "x", 1}, {"set", "x", 0}}
	rest := append(append([]janOp{}, first...), janOp{"upd", "x", 2}, janOp{"get", "x", 0}, janOp{"del", "x", 0}, janOp{"count", "", 0}, janOp{"set", "y", 2})
	var out [][]janOp
	maxLen := 3
	var gen func(cur []janOp)
	gen = func(cur []janOp) {
		out = append(out, append([]janOp{}, cur...))
		if len(cur) == maxLen {
			return
		}
		for _, o := range rest {
			gen(append(cur, o))
		}
	}
	for _, f := range first {
		gen([]janOp{f})
	}
	// simplest first
	sort.SliceStable(out, func(i, j int) bool { return len(out[i]) < len(out[j]) })
	return out
}

func c08janWorker(arg string, def, g int) {
	c := &c20ctx{check: "C08", out: newWorkerOut(), st: &wStats{Shard: arg, MinBound: -1, Extra: map[string]int{}}, states: map[string]struct{}{}}
	c.deadline = time.Now().Add(3 * time.Minute)
	c.budget = 40000
	bound := 2
	if thorough {
		c.deadline = time.Now().Add(25 * time.Minute)
		c.budget = 1500000
		bound = 3
	}
	for i, sc := range c08janScripts() {
		if i%4 != g {
			continue
		}
		if !thorough && len(sc) == 3 && sc[1].kind != "get" && sc[2].kind != "get" && sc[2].kind != "count" {
			continue // quick tier: three-step scripts end in (or contain) an observation
		}
		c08janScenario(c, def, sc, bound)
	}
	c.st.States = len(c.states)
	c.out.stats(*c.st)
}

func c08janScenario(c *c20ctx, def int, script []janOp, bound int) {
	var recs []janRec
	var finalGet map[string]string // key -> value or "!err"
	var finalList []string
	var finalCount int
	var tEnd int64
	var names []string
	for _, o := range script {
		names = append(names, o.String())
	}
	name := fmt.Sprintf("janitor(default=%d,interval=%d): %s", def, janInterval, strings.Join(names, "; "))
	c.explore(name, bound, func() {
		recs = recs[:0]
		n0 := vrt.ThreadCount()
		ca := cache.New[string, string](time.Duration(def)*unit, janInterval*unit)
		vrt.MarkSpawnedSinceDaemon(n0)
		var wg sync.WaitGroup
		wg.Add(1)
		vrt.GoNamed("clock", false, func() {
			defer wg.Done()
			for i := 0; i < 4; i++ {
				vrt.Advance(2 * unit)
			}
		})
		for i, o := range script {
			r := janRec{op: o, t0: now()}
			v := fmt.Sprintf("v%d", i)
			switch o.kind {
			case "set":
				r.err = ca.Set(o.key, v, c08durs[o.dur]) != nil
			case "upd":
				r.err = ca.Update(o.key, v, c08durs[o.dur]) != nil
			case "get":
				it, err := ca.Get(o.key)
				r.err, r.val = err != nil, it.Val()
			case "del":
				r.err = ca.Delete(o.key) != nil
			case "count":
				r.n = ca.Count()
			}
			r.t1 = now()
			recs = append(recs, r)
		}
		wg.Wait()
		for i := 0; i < 2; i++ {
			vrt.Advance(janInterval * unit)
			vrt.WaitIdle()
		}
		tEnd = now()
		finalGet = map[string]string{}
		for _, k := range []string{"x", "y"} {
			if it, err := ca.Get(k); err != nil {
				finalGet[k] = "!err"
			} else {
				finalGet[k] = it.Val()
			}
		}
		finalList = finalList[:0]
		for k := range ca.List() {
			finalList = append(finalList, k)
		}
		sort.Strings(finalList)
		finalCount = ca.Count()
	}, func(x *vrt.Exec) (string, string) {
		model := map[string]*janEnt{}
		mk := func(r janRec, v string) *janEnt {
			d := c08durs[r.op.dur]
			if d == cache.DefaultExpiration {
				d = time.Duration(def) * unit
			}
			if d <= 0 {
				return &janEnt{val: v, never: true}
			}
			return &janEnt{val: v, lo: r.t0 + int64(d/unit), hi: r.t1 + int64(d/unit)}
		}
		for i, r := range recs {
			e := model[r.op.key]
			sureLive := e != nil && (e.never || r.t1 < e.lo)
			sureDead := e == nil || (!e.never && r.t0 > e.hi)
			at := fmt.Sprintf("step %d %s during [%d,%d]", i+1, r.op, r.t0, r.t1)
			switch r.op.kind {
			case "set":
				if sureLive && !r.err {
					return "Cache+janitor.Set/live-key/no-error", at + ": granted although the key holds a live entry " + e.String()
				}
				if sureDead && r.err {
					return "Cache+janitor.Set/spurious-error", at + ": refused although the key has no live entry"
				}
				if !r.err {
					model[r.op.key] = mk(r, fmt.Sprintf("v%d", i))
				}
			case "upd":
				if r.err {
					return "Cache+janitor.Update/spurious-error", at + ": Update returned an error"
				}
				model[r.op.key] = mk(r, fmt.Sprintf("v%d", i))
			case "get":
				if sureLive && (r.err || r.val != e.val) {
					return "Cache+janitor.Get/live-entry-not-returned", fmt.Sprintf("%s = (%q, err=%t), want the live entry %s", at, r.val, r.err, e)
				}
				if sureDead && !r.err {
					return "Cache+janitor.Get/missing-or-expired-entry-returned", fmt.Sprintf("%s = %q although the key is not stored or expired (%v)", at, r.val, e)
				}
				if !r.err && e != nil && r.val != e.val {
					return "Cache+janitor.Get/wrong-value", fmt.Sprintf("%s = %q, want %q", at, r.val, e.val)
				}
			case "del":
				if e == nil && !r.err {
					return "Cache+janitor.Delete/absent-key/no-error", at + ": nil for a key that is not stored"
				}
				if sureLive && r.err {
					return "Cache+janitor.Delete/live-entry/error", at + ": error although the key holds the live entry " + e.String()
				}
				delete(model, r.op.key)
			case "count":
				lo := 0
				for _, e := range model {
					if e.never || r.t1 < e.lo {
						lo++
					}
				}
				if r.n < lo || r.n > len(model) {
					return "Cache+janitor.Count/disagrees-with-entries", fmt.Sprintf("%s = %d, want between %d (live) and %d (stored)", at, r.n, lo, len(model))
				}
			}
		}
		// quiescent end: the janitor is parked, every tick that was due has been processed and the
		// last processed tick happened at or after tEnd-2.
		present, maybe := 0, 0
		for _, k := range []string{"x", "y"} {
			e := model[k]
			listed := false
			for _, l := range finalList {
				if l == k {
					listed = true
				}
			}
			switch {
			case e == nil:
				if finalGet[k] != "!err" || listed {
					return "Cache+janitor.end/entry-that-was-never-stored", fmt.Sprintf("at the end (t=%d) key %s is reported (Get=%s, listed=%t) although it is not stored", tEnd, k, finalGet[k], listed)
				}
			case e.never:
				present++
				if finalGet[k] != e.val || !listed {
					return "Cache+janitor.end/never-expiring-entry-removed", fmt.Sprintf("at the end (t=%d) the entry %s=%s without expiry is gone (Get=%s, listed=%t): cleanup must never remove it", tEnd, k, e, finalGet[k], listed)
				}
			case e.lo > tEnd:
				present++
				if finalGet[k] != e.val || !listed {
					return "Cache+janitor.end/live-entry-removed", fmt.Sprintf("at the end (t=%d) the live entry %s=%s is gone (Get=%s, listed=%t)", tEnd, k, e, finalGet[k], listed)
				}
			case e.hi < tEnd-2:
				if finalGet[k] != "!err" {
					return "Cache+janitor.end/expired-entry-served", fmt.Sprintf("at the end (t=%d) Get(%s)=%s although the entry %s has expired", tEnd, k, finalGet[k], e)
				}
				if listed {
					return "Cache+janitor.end/expired-entry-not-cleaned-up", fmt.Sprintf("at the end (t=%d, janitor idle, last tick >= %d) the entry %s=%s expired more than one interval's worth of ticks ago and is still stored", tEnd, tEnd-2, k, e)
				}
			default:
				maybe++
			}
		}
		if finalCount < present || finalCount > present+maybe {
			return "Cache+janitor.end/Count-disagrees", fmt.Sprintf("at the end Count()=%d, want between %d and %d", finalCount, present, present+maybe)
		}
		return "", ""
	}, func() any { return fmt.Sprint(recs, finalGet, finalList, finalCount, tEnd) })
}

func (e *janEnt) String() string {
	if e == nil {
		return "<none>"
	}
	if e.never {
		return fmt.Sprintf("%q(never expires)", e.val)
	}
	return fmt.Sprintf("%q(deadline in [%d,%d])", e.val, e.lo, e.hi)
}

// c08finalizerWorker: the garbage collector's part (stopCleanup) as an explicit event: once the
// finaliser has run, the janitor goroutine exits and the sender returns, in every interleaving with
// pending ticks.
func c08finalizerWorker(arg string) {
	c := &c20ctx{check: "C08", out: newWorkerOut(), st: &wStats{Shard: arg, MinBound: -1, Extra: map[string]int{}}, states: map[string]struct{}{}}
	c.deadline = time.Now().Add(3 * time.Minute)
	c.budget = 100000
	var fired, janitorDone bool
	var cnt int
	c.explore("janitor stops when the finaliser fires", 0, func() {
		fired, janitorDone = false, false
		var fin func()
		vruntime.FinalizerHook = func(obj, f any) {
			fin = func() { callFinalizer(obj, f) }
		}
		n0 := vrt.ThreadCount()
		ca := cache.New[string, string](3*unit, janInterval*unit)
		vrt.MarkSpawnedSinceDaemon(n0)
		jan := n0
		var wg sync.WaitGroup
		wg.Add(1)
		vrt.GoNamed("clock", false, func() {
			defer wg.Done()
			vrt.Advance(janInterval * unit)
			vrt.Advance(janInterval * unit)
		})
		ca.Set("x", "v", cache.DefaultExpiration)
		if fin != nil {
			fin()
			fired = true
		}
		wg.Wait()
		vrt.Advance(janInterval * unit)
		vrt.WaitIdle()
		janitorDone = vrt.ThreadDone(jan)
		cnt = ca.Count()
	}, func(x *vrt.Exec) (string, string) {
		if !fired {
			return "Cache+janitor.finalizer/not-registered", "cache.New with a cleanup interval did not register a finaliser"
		}
		if !janitorDone {
			return "Cache+janitor.finalizer/janitor-keeps-running", "the cleanup goroutine is still alive after stopCleanup returned"
		}
		return "", ""
	}, func() any { return fmt.Sprint(fired, janitorDone, cnt) })
	c.st.States = len(c.states)
	c.out.stats(*c.st)
}

func callFinalizer(obj, f any) {
	reflect.ValueOf(f).Call([]reflect.Value{reflect.ValueOf(obj)})
}
