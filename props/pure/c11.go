package main

import (
	"fmt"

	"github.com/esimov/gogu"
	"verif/enum"
)

// C11 — set-algebra slice helpers. Oracles are quadratic references written
// from the property statement.

func refUnique[T comparable](s []T) []T {
	out := []T{}
	for _, v := range s {
		if !contains(out, v) {
			out = append(out, v)
		}
	}
	return out
}

func init() { registry["C11"] = c11 }

func c11(r *R) {
	L, A := 5, 3
	if thorough {
		L, A = 7, 4
	}
	alpha := []int{0, 1, 2, 3}[:A]
	c11For(r, "int", alpha, L)
	c11For(r, "string", []string{"a", "b", "c"}, 4)
	c11For(r, "float64", []float64{0.5, 1, 1.5}, 4)
	c11By(r, L)
	c11Union(r)
	c11LongRuns(r)
	c11Aliased(r)
}

// c11LongRuns: inputs with MANY distinct values. Every slice that is a run of n distinct values
// (ascending or descending) with one value v repeated at position p -- every n up to N, every v and p
// on a grid -- paired with second arguments that keep everything, drop one value, or keep only the
// repeated one. The small-alphabet enumeration above cannot reach result sizes where an implementation
// switches strategy (a linear scan below a threshold, a map index above it).
// c11Aliased: the arguments of one call may be windows of one another (a list and its own prefix, suffix
// or middle): the result is what the same call returns on independent copies, and the arguments are left
// as they were. Every slice up to length 5 over 3 values x every window of it, in either argument position.
func c11Aliased(r *R) {
	ident := func(v int) int { return v }
	for _, s0 := range enum.AllSlices([]int{1, 2, 3}, 5) {
		n := len(s0)
		for i := 0; i <= n; i++ {
			for j := i; j <= n; j++ {
				type call struct {
					name string
					f    func(a, b []int) []int
				}
				calls := []call{
					{"Difference", func(a, b []int) []int { return gogu.Difference(a, b) }},
					{"DifferenceBy", func(a, b []int) []int { return gogu.DifferenceBy(a, b, ident) }},
					{"Intersection", func(a, b []int) []int { return gogu.Intersection(a, b) }},
					{"IntersectionBy", func(a, b []int) []int { return gogu.IntersectionBy(ident, a, b) }},
					{"Without", func(a, b []int) []int { return gogu.Without[int, int](a, b...) }},
					{"Union", func(a, b []int) []int { u, _ := gogu.Union[int]([]any{a, b}); return u }},
				}
				for _, c := range calls {
					for pos := 0; pos < 2; pos++ {
						s := cp(s0)
						a, b := s, s[i:j]
						ca, cb := cp(s0), cp(s0[i:j])
						if pos == 1 {
							a, b = s[i:j], s
							ca, cb = cp(s0[i:j]), cp(s0)
						}
						var got, want []int
						p1, _ := enum.Try(func() { got = c.f(a, b) })
						p2, _ := enum.Try(func() { want = c.f(ca, cb) })
						r.Eval(c.name + "/aliased-arguments")
						wit := fmt.Sprintf("%s with s=%v and the window s[%d:%d] as argument %d", c.name, s0, i, j, 2-pos)
						if p1 != p2 || (!p1 && !eqSlice(got, want)) {
							r.Bad(c.name+"/aliased-arguments-change-the-result", wit, "got %v (panic=%t), on independent copies %v (panic=%t)", got, p1, want, p2)
						}
						if !eqSlice(s, s0) {
							r.Bad(c.name+"/aliased-arguments-modified", wit, "the list became %v", s)
						}
					}
				}
			}
		}
	}
	r.Nontrivial("aliased-a")
	r.Nontrivial("aliased-b")
}

func c11LongRuns(r *R) {
	N := 160 // past 64 and 128 distinct values (a table pre-sized for so many, a small-size fast path)
	if thorough {
		N = 320
	}
	ident := func(v int) int { return v }
	half := func(v int) int { return v / 2 }
	count := 0
	for n := 2; n <= N; n += 1 + n/24 {
		for _, desc := range []bool{false, true} {
			base := make([]int, n)
			for i := range base {
				base[i] = i
				if desc {
					base[i] = n - 1 - i
				}
			}
			for vi := 0; vi < n; vi += 1 + n/12 {
				for p := 0; p <= n; p += 1 + n/12 {
					s := append(append(append([]int{}, base[:p]...), base[vi]), base[p:]...)
					count++
					wit := fmt.Sprintf("a run of %d distinct values (descending=%t) with value %d repeated at position %d", n, desc, base[vi], p)
					want := refUnique(s)
					if g := gogu.Unique(cp(s)); !eqSlice(g, want) {
						r.Bad("Unique/not-first-occurrences-in-order/long-run", wit, "Unique = %v, want %v", g, want)
					}
					if g := gogu.UniqueBy(cp(s), ident); !eqSlice(g, want) {
						r.Bad("UniqueBy/wrong/long-run", wit, "UniqueBy(id) = %v, want %v", g, want)
					}
					if g := gogu.Intersection(cp(s)); !eqSlice(g, want) {
						r.Bad("Intersection/single-argument/long-run", wit, "Intersection(s) = %v, want %v", g, want)
					}
					if g := gogu.Intersection(cp(s), cp(base)); !eqSlice(g, want) {
						r.Bad("Intersection/wrong/long-run", wit, "Intersection(s, all values) = %v, want %v", g, want)
					}
					if g := gogu.Intersection(cp(s), cp(base), cp(s)); !eqSlice(g, want) {
						r.Bad("Intersection/three-arguments/long-run", wit, "Intersection(s, all values, s) = %v, want %v", g, want)
					}
					if g := gogu.IntersectionBy(ident, cp(s), cp(base)); !sameSet(g, want) || len(g) < len(want) {
						r.Bad("IntersectionBy/wrong/long-run", wit, "IntersectionBy(id, s, all values) = %v, want every element of %v", g, want)
					}
					if g := gogu.Difference(cp(s), []int{-1}); !eqSlice(g, want) {
						r.Bad("Difference/wrong/long-run", wit, "Difference(s, [-1]) = %v, want %v", g, want)
					}
					if g := gogu.Without[int, int](cp(s), -1); !eqSlice(g, want) {
						r.Bad("Without/wrong/long-run", wit, "Without(s, -1) = %v, want %v", g, want)
					}
					one := []int{base[vi]}
					if g := gogu.Intersection(cp(s), one); !eqSlice(g, one) {
						r.Bad("Intersection/wrong/long-run", wit, "Intersection(s, %v) = %v, want %v", one, g, one)
					}
					wantD := []int{}
					for _, v := range want {
						if v != base[vi] {
							wantD = append(wantD, v)
						}
					}
					if g := gogu.Difference(cp(s), one); !eqSlice(g, wantD) {
						r.Bad("Difference/wrong/long-run", wit, "Difference(s, %v) = %v, want %v", one, g, wantD)
					}
					// the other arguments are sets, not multisets: a value that one of them repeats and another
					// lacks is not in the intersection (round 7: C11-12, a tally of occurrences over all the
					// other slices once they hold more than 16 elements)
					without := make([]int, 0, n)
					for _, v := range base {
						if v != base[vi] {
							without = append(without, v)
						}
					}
					twice := append(cp(base), base...)
					firstHalf := base[:n/2]
					var wantF []int
					for _, v := range want {
						if contains(firstHalf, v) {
							wantF = append(wantF, v)
						}
					}
					if wantF == nil {
						wantF = []int{}
					}
					for _, c := range []struct {
						name string
						args [][]int
						want []int
					}{
						{"s, s, all values but the repeated one", [][]int{cp(s), cp(s), cp(without)}, wantD},
						{"s, all values but the repeated one, s", [][]int{cp(s), cp(without), cp(s)}, wantD},
						{"s, s, s, all values but the repeated one", [][]int{cp(s), cp(s), cp(s), cp(without)}, wantD},
						{"s, all values twice, the first half of the values", [][]int{cp(s), twice, cp(firstHalf)}, wantF},
						{"all values, all values twice, s, the first half of the values", [][]int{cp(base), twice, cp(s), cp(firstHalf)}, cp(firstHalf)},
					} {
						if g := gogu.Intersection(c.args...); !eqSlice(g, c.want) {
							r.Bad("Intersection/repeats-in-other-arguments/long-run", wit, "Intersection(%s) = %v, want %v", c.name, g, c.want)
						}
					}
					if g := gogu.IntersectionBy(ident, cp(s), cp(s), cp(without)); !sameSet(g, wantD) || len(g) < len(wantD) {
						r.Bad("IntersectionBy/repeats-in-other-arguments/long-run", wit, "IntersectionBy(id, s, s, all values but the repeated one) = %v, want every element of %v", g, wantD)
					}
					// (one iteration order only: enumerating every order of a 40-entry map is out of reach;
					// the result is compared as a set)
					if d := gogu.Duplicate(cp(s)); !sameSet(d, one) || len(d) != 1 {
						r.Bad("Duplicate/not-exactly-the-repeated-values/long-run", wit, "Duplicate = %v, want %v", d, one)
					}
					firstAt := -1
					for i, v := range s {
						if v == base[vi] {
							firstAt = i
							break
						}
					}
					if d := gogu.DuplicateWithIndex(cp(s)); len(d) != 1 || d[base[vi]] != firstAt {
						r.Bad("DuplicateWithIndex/not-exactly-the-repeated-values/long-run", wit, "DuplicateWithIndex = %v, want {%d: %d}", d, base[vi], firstAt)
					}
					// images collide pairwise under v/2: UniqueBy keeps the first element of each image
					var wantH []int
					seen := map[int]bool{}
					for _, v := range s {
						if !seen[half(v)] {
							seen[half(v)] = true
							wantH = append(wantH, v)
						}
					}
					if g := gogu.UniqueBy(cp(s), half); !eqSlice(g, wantH) {
						r.Bad("UniqueBy/wrong/long-run", wit, "UniqueBy(v/2) = %v, want %v", g, wantH)
					}
					if u, err := gogu.Union[int]([]any{cp(s), []any{cp(base)}}); err != nil || !eqSlice(u, want) {
						r.Bad("Union/wrong/long-run", wit, "Union([s,[all values]]) = %v (%v), want %v", u, err, want)
					}
					r.Eval("long-run")
					if n >= 8 {
						r.Nontrivial(fmt.Sprint("lr", n, desc, vi, p))
					}
				}
			}
		}
	}
	r.Set("long_run_inputs", count)
}

func c11For[T comparable](r *R, tn string, alpha []T, L int) {
	all := enum.AllSlices(alpha, L)
	short := enum.AllSlices(alpha, 3)
	w := func(fn string, args ...any) string { return fmt.Sprintf("%s[%s]%v", fn, tn, args) }
	subsetOfFirst := func(fn string, res, first []T, wit string) {
		for _, v := range res {
			if !contains(first, v) {
				r.Bad(fn+"/result-has-value-absent-from-first-input", wit, "%s = %v contains %v", wit, res, v)
			}
		}
		if hasRepeat(res) {
			r.Bad(fn+"/result-repeats-a-value", wit, "%s = %v", wit, res)
		}
	}
	for _, s := range all {
		in := cp(s)
		// Unique
		got := gogu.Unique(in)
		r.Eval("Unique")
		if want := refUnique(s); !eqSlice(got, want) {
			r.Bad("Unique/not-first-occurrences-in-order", w("Unique", s), "got %v, want %v", got, want)
		}
		if hasRepeat(s) {
			r.Nontrivial("u" + tn + fmt.Sprint(s))
		}
		// Duplicate / DuplicateWithIndex under every map iteration order
		var wantDup []T
		wantIdx := map[T]int{}
		for i, v := range s {
			n := 0
			for _, x := range s {
				if x == v {
					n++
				}
			}
			if n > 1 && !contains(wantDup, v) {
				wantDup = append(wantDup, v)
				wantIdx[v] = i
			}
		}
		withChoices(0, func() {
			d := gogu.Duplicate(cp(s))
			r.Eval("Duplicate")
			if !sameSet(d, wantDup) || hasRepeat(d) {
				r.Bad("Duplicate/not-exactly-the-repeated-values", w("Duplicate", s), "got %v, want (as a set) %v", d, wantDup)
			}
		})
		withChoices(0, func() {
			di := gogu.DuplicateWithIndex(cp(s))
			r.Eval("DuplicateWithIndex")
			ok := len(di) == len(wantIdx)
			for k, v := range wantIdx {
				if g, has := di[k]; !has || g != v {
					ok = false
				}
			}
			if !ok {
				r.Bad("DuplicateWithIndex/not-first-index-of-each-repeated-value", w("DuplicateWithIndex", s), "got %v, want %v", di, wantIdx)
			}
		})
		// Intersection with a single argument
		g1 := gogu.Intersection(cp(s))
		r.Eval("Intersection")
		if want := refUnique(s); !eqSlice(g1, want) {
			r.Bad("Intersection/single-argument", w("Intersection", s), "got %v, want %v", g1, want)
		}
	}
	// pairs: Difference, Intersection(2), Without
	pairFirst := all
	if len(all) > 400 {
		pairFirst = enum.AllSlices(alpha, 4)
	}
	for _, a := range pairFirst {
		for _, b := range short {
			wantD, wantI := []T{}, []T{}
			for _, v := range refUnique(a) {
				if contains(b, v) {
					wantI = append(wantI, v)
				} else {
					wantD = append(wantD, v)
				}
			}
			gd := gogu.Difference(cp(a), cp(b))
			r.Eval("Difference")
			wd := w("Difference", a, b)
			if !eqSlice(gd, wantD) {
				r.Bad("Difference/wrong", wd, "got %v, want %v", gd, wantD)
			}
			subsetOfFirst("Difference", gd, a, wd)
			gw := gogu.Without[T, T](cp(a), cp(b)...)
			r.Eval("Without")
			if !eqSlice(gw, wantD) {
				r.Bad("Without/wrong", w("Without", a, b), "got %v, want %v", gw, wantD)
			}
			gi := gogu.Intersection(cp(a), cp(b))
			r.Eval("Intersection")
			wi := w("Intersection", a, b)
			if !eqSlice(gi, wantI) {
				r.Bad("Intersection/wrong", wi, "got %v, want %v", gi, wantI)
			}
			subsetOfFirst("Intersection", gi, a, wi)
			if len(wantI) > 0 && len(wantD) > 0 {
				r.Nontrivial("p" + tn + fmt.Sprint(a, b))
			}
		}
	}
	// triples (length <= 3 each)
	for _, a := range short {
		for _, b := range short {
			for _, c := range short {
				want := []T{}
				for _, v := range refUnique(a) {
					if contains(b, v) && contains(c, v) {
						want = append(want, v)
					}
				}
				g := gogu.Intersection(cp(a), cp(b), cp(c))
				r.Eval("Intersection")
				if !eqSlice(g, want) {
					r.Bad("Intersection/three-arguments", w("Intersection", a, b, c), "got %v, want %v", g, want)
				}
				if len(want) > 0 && len(want) < len(refUnique(a)) {
					r.Nontrivial("t" + tn + fmt.Sprint(a, b, c))
				}
			}
		}
	}
	r.Sample(w("Difference/Without/Intersection", all[len(all)/2], short[len(short)/2]))
}

// c11By: UniqueBy / IntersectionBy / DifferenceBy over signed ints with key functions.
func c11By(r *R, L int) {
	alpha := []int{-2, -1, 1, 2}
	if !thorough {
		L = 4
	} else {
		L = 5
	}
	type kf struct {
		name string
		f    func(int) int
	}
	kfs := []kf{
		{"id", func(x int) int { return x }},
		{"abs", func(x int) int {
			if x < 0 {
				return -x
			}
			return x
		}},
		{"const", func(int) int { return 7 }},
		{"neg", func(x int) int { return -x }},
	}
	all := enum.AllSlices(alpha, L)
	short := enum.AllSlices(alpha, 3)
	images := func(s []int, f func(int) int) []int {
		out := []int{}
		for _, v := range s {
			out = append(out, f(v))
		}
		return out
	}
	// literal reading of the statement: every element of the first argument that qualifies, in order;
	// de-duplication of *identical elements* is tolerated (DifferenceBy does it), dropping a qualifying
	// element value altogether or adding/reordering is not.
	okBy := func(got, literal []int) bool {
		if !sameSet(got, literal) {
			return false
		}
		// got must be a subsequence of literal
		j := 0
		for _, g := range got {
			for j < len(literal) && literal[j] != g {
				j++
			}
			if j == len(literal) {
				return false
			}
			j++
		}
		return true
	}
	for _, k := range kfs {
		for _, s := range all {
			want := []int{}
			seen := []int{}
			for _, v := range s {
				if !contains(seen, k.f(v)) {
					seen = append(seen, k.f(v))
					want = append(want, v)
				}
			}
			got := gogu.UniqueBy(cp(s), k.f)
			r.Eval("UniqueBy")
			if !eqSlice(got, want) {
				r.Bad("UniqueBy/not-first-element-of-each-image", fmt.Sprintf("UniqueBy(%v,%s)", s, k.name), "got %v, want %v", got, want)
			}
		}
		first := enum.AllSlices(alpha, 4)
		for _, a := range first {
			for _, b := range short {
				ib := images(b, k.f)
				litI, litD := []int{}, []int{}
				for _, v := range a {
					if contains(ib, k.f(v)) {
						litI = append(litI, v)
					} else {
						litD = append(litD, v)
					}
				}
				gi := gogu.IntersectionBy(k.f, cp(a), cp(b))
				r.Eval("IntersectionBy")
				if !okBy(gi, litI) {
					r.Bad("IntersectionBy/drops-or-adds-elements", fmt.Sprintf("IntersectionBy(%s,%v,%v)", k.name, a, b), "got %v, want the elements %v (those of the first argument whose image occurs among the images of the other)", gi, litI)
				}
				gd := gogu.DifferenceBy(cp(a), cp(b), k.f)
				r.Eval("DifferenceBy")
				if !okBy(gd, litD) {
					r.Bad("DifferenceBy/drops-or-adds-elements", fmt.Sprintf("DifferenceBy(%v,%v,%s)", a, b, k.name), "got %v, want the elements %v", gd, litD)
				}
				if len(litI) > 0 && len(litD) > 0 {
					r.Nontrivial("by" + k.name + fmt.Sprint(a, b))
				}
			}
		}
		for _, a := range short {
			for _, b := range short {
				for _, c := range short {
					ib, ic := images(b, k.f), images(c, k.f)
					lit := []int{}
					for _, v := range a {
						if contains(ib, k.f(v)) && contains(ic, k.f(v)) {
							lit = append(lit, v)
						}
					}
					g := gogu.IntersectionBy(k.f, cp(a), cp(b), cp(c))
					r.Eval("IntersectionBy")
					if !okBy(g, lit) {
						r.Bad("IntersectionBy/drops-or-adds-elements", fmt.Sprintf("IntersectionBy(%s,%v,%v,%v)", k.name, a, b, c), "got %v, want the elements %v", g, lit)
					}
				}
			}
		}
	}
}

// nesting grammar for Union (and Flatten in C12): N ::= int | []int | []any{N...}
type nest struct {
	v      any
	leaves []int
	bad    bool // contains a value of a foreign type
	text   string
}

func nestings(maxDepth, maxLeaves int, withBad bool) []nest {
	leafVals := []int{0, 1, 2}
	var gen func(depth, budget int) []nest
	gen = func(depth, budget int) []nest {
		var out []nest
		if budget >= 1 {
			for _, v := range leafVals {
				out = append(out, nest{v: v, leaves: []int{v}, text: fmt.Sprint(v)})
			}
		}
		// []int of length 0..min(2,budget)
		for _, s := range enum.AllSlices(leafVals[:2], 2) {
			if len(s) <= budget {
				out = append(out, nest{v: cp(s), leaves: cp(s), text: fmt.Sprintf("[]int%v", s)})
			}
		}
		if depth == 0 {
			return out
		}
		// []any with 0..2 children
		out = append(out, nest{v: []any{}, leaves: []int{}, text: "[]any{}"})
		subs := gen(depth-1, budget)
		for _, a := range subs {
			out = append(out, nest{v: []any{a.v}, leaves: a.leaves, bad: a.bad, text: "[]any{" + a.text + "}"})
		}
		if depth <= 2 {
			for _, a := range subs {
				rest := gen(depth-1, budget-len(a.leaves))
				for _, b := range rest {
					out = append(out, nest{v: []any{a.v, b.v}, leaves: append(cp(a.leaves), b.leaves...), bad: a.bad || b.bad, text: "[]any{" + a.text + "," + b.text + "}"})
				}
			}
		}
		return out
	}
	good := gen(maxDepth, maxLeaves)
	if !withBad {
		return good
	}
	// malformed variants: wrap with a foreign-typed leaf at each nesting position
	var out []nest
	foreign := []any{"x", 1.5, []string{"y"}, nil}
	for _, g := range good {
		out = append(out, g)
	}
	for i, g := range good {
		f := foreign[i%len(foreign)]
		ft := fmt.Sprintf("%#v", f)
		out = append(out, nest{v: []any{g.v, f}, bad: true, text: "[]any{" + g.text + "," + ft + "}"})
		out = append(out, nest{v: []any{f, g.v}, bad: true, text: "[]any{" + ft + "," + g.text + "}"})
		out = append(out, nest{v: []any{[]any{g.v, []any{f}}}, bad: true, text: "[]any{[]any{" + g.text + ",[]any{" + ft + "}}}"})
	}
	for _, f := range foreign {
		out = append(out, nest{v: f, bad: true, text: fmt.Sprintf("%#v", f)})
	}
	return out
}

func c11Union(r *R) {
	depth, leaves := 2, 4
	if thorough {
		depth, leaves = 3, 5
	}
	ns := nestings(depth, leaves, true)
	for i, n := range ns {
		var got []int
		var err error
		p, msg := enum.Try(func() { got, err = gogu.Union[int](n.v) })
		r.Eval("Union")
		wit := "Union[int](" + n.text + ")"
		switch {
		case p:
			r.Bad("Union/panic", wit, "panicked: %s", msg)
		case n.bad && err == nil:
			r.Bad("Union/malformed-nesting-yields-no-error", wit, "returned (%v, nil), want an error", got)
		case !n.bad && err != nil:
			r.Bad("Union/error-for-well-formed-nesting", wit, "returned error %v", err)
		case !n.bad && !eqSlice(got, refUnique(n.leaves)):
			r.Bad("Union/not-unique-of-flattening", wit, "got %v, want %v", got, refUnique(n.leaves))
		}
		if n.bad || hasRepeat(n.leaves) {
			r.Nontrivial("U" + n.text)
		}
		if i == len(ns)/3 {
			r.Sample(wit)
		}
	}
	r.Set("union_nestings", len(ns))
}
