// Package enum holds small-scope exhaustive generators and the choice-only
// explorer used for pure helpers.
package enum

import (
	"fmt"
	"sort"
	"time"
)

// Slices calls f with every slice of length 0..maxLen over alpha (f must not retain s).
func Slices[T any](alpha []T, maxLen int, f func(s []T)) {
	buf := make([]T, 0, maxLen)
	var rec func()
	rec = func() {
		f(buf)
		if len(buf) == maxLen {
			return
		}
		for _, a := range alpha {
			buf = append(buf, a)
			rec()
			buf = buf[:len(buf)-1]
		}
	}
	rec()
}

// AllSlices materialises Slices, shortest first (so that the first witness found is a smallest one).
func AllSlices[T any](alpha []T, maxLen int) [][]T {
	var out [][]T
	Slices(alpha, maxLen, func(s []T) { out = append(out, append([]T{}, s...)) })
	sort.SliceStable(out, func(i, j int) bool { return len(out[i]) < len(out[j]) })
	return out
}

// Strings returns every string of 0..maxLen pieces over alpha (pieces may be multi-byte).
func Strings(alpha []string, maxLen int) []string {
	var out []string
	Slices(alpha, maxLen, func(s []string) {
		r := ""
		for _, p := range s {
			r += p
		}
		out = append(out, r)
	})
	sort.SliceStable(out, func(i, j int) bool { return len(out[i]) < len(out[j]) })
	return out
}

// Maps calls f with every map of at most maxEntries entries over keys x vals.
func Maps[K comparable, V any](keys []K, vals []V, maxEntries int, f func(m map[K]V)) {
	m := map[K]V{}
	var rec func(i int)
	rec = func(i int) {
		if i == len(keys) {
			f(m)
			return
		}
		rec(i + 1)
		if len(m) < maxEntries {
			for _, v := range vals {
				m[keys[i]] = v
				rec(i + 1)
			}
			delete(m, keys[i])
		}
	}
	rec(0)
}

// Try runs f and reports a panic as (true, message).
func Try(f func()) (panicked bool, msg string) {
	defer func() {
		if r := recover(); r != nil {
			panicked, msg = true, fmt.Sprint(r)
		}
	}()
	f()
	return
}

// TryTimeout is Try with a watchdog: a call that does not return within limit is abandoned (its
// goroutine keeps running: the caller must end the process soon, a runaway helper may be allocating).
func TryTimeout(limit time.Duration, f func()) (panicked bool, msg string, timedOut bool) {
	type res struct {
		p bool
		m string
	}
	try := func(d time.Duration) (res, bool) {
		ch := make(chan res, 1)
		go func() {
			p, m := Try(f)
			ch <- res{p, m}
		}()
		select {
		case r := <-ch:
			return r, true
		case <-time.After(d):
			return res{}, false
		}
	}
	// a wall-clock limit on a call that takes microseconds: a time-out is believed only when a second
	// attempt with ten times the limit times out as well (a loaded machine must not turn into a finding)
	if r, ok := try(limit); ok {
		return r.p, r.m, false
	}
	if r, ok := try(10 * limit); ok {
		return r.p, r.m, false
	}
	return false, "", true
}

// Choices is the choice-only explorer: Run calls body once per complete choice
// sequence; inside body, Choose(n) returns every value 0..n-1 across the runs
// (depth-first, odometer order). It enumerates e.g. every map iteration order
// and every math/rand answer of one call.
type Choices struct {
	prefix []int
	sizes  []int
	pos    int
	Runs   int
}

func (c *Choices) Choose(n int) int {
	if n <= 1 {
		return 0
	}
	if c.pos < len(c.prefix) {
		if c.sizes[c.pos] != n {
			panic(fmt.Sprintf("enum.Choices: nondeterminism not captured (choice %d had %d options, now %d)", c.pos, c.sizes[c.pos], n))
		}
		v := c.prefix[c.pos]
		c.pos++
		return v
	}
	c.prefix = append(c.prefix, 0)
	c.sizes = append(c.sizes, n)
	c.pos++
	return 0
}

// Run executes body for every choice sequence. limit > 0 caps the number of runs (returns false if hit).
func (c *Choices) Run(limit int, body func()) bool {
	c.prefix, c.sizes = nil, nil
	for {
		c.pos = 0
		c.prefix = c.prefix[:len(c.prefix):len(c.prefix)]
		body()
		c.Runs++
		// drop choices not consumed this run, then advance odometer
		c.prefix, c.sizes = c.prefix[:c.pos], c.sizes[:c.pos]
		i := len(c.prefix) - 1
		for i >= 0 && c.prefix[i]+1 >= c.sizes[i] {
			i--
		}
		if i < 0 {
			return true
		}
		c.prefix = c.prefix[:i+1]
		c.sizes = c.sizes[:i+1]
		c.prefix[i]++
		if limit > 0 && c.Runs >= limit {
			return false
		}
	}
}
