//go:build verif

package main

import (
	"fmt"
	"os"
	"sort"
	"strings"
	"time"

	"github.com/esimov/gogu"
	"github.com/esimov/gogu/vrtshim/vrt"
	sync "github.com/esimov/gogu/vrtshim/vsync"
)

// C16 (concurrent part) — helpers do not disturb each other's results. The pure helpers hold no locks
// and have no scheduling points of their own, so two calls on different arguments have exactly one
// interleaving each way ... unless an implementation introduces shared scratch state (a sync.Pool of
// buffers, a package-level cache behind a mutex, atomics): every synchronisation operation is then a
// scheduling point of the controlled runtime and every interleaving of two (three) concurrent calls is
// explored. Oracle: each call returns what it returns when run alone.

type helperCall struct {
	name string
	f    func() string
}

func c16concCalls() []helperCall {
	var out []helperCall
	strs := []string{"abc Déf", "x-y_z", "ÉÉ aa", ""}
	for _, s := range strs {
		s := s
		out = append(out,
			helperCall{fmt.Sprintf("ToLower(%q)", s), func() string { return gogu.ToLower(s) }},
			helperCall{fmt.Sprintf("ToUpper(%q)", s), func() string { return gogu.ToUpper(s) }},
			helperCall{fmt.Sprintf("Capitalize(%q)", s), func() string { return gogu.Capitalize(s) }},
			helperCall{fmt.Sprintf("CamelCase(%q)", s), func() string { return gogu.CamelCase(s) }},
			helperCall{fmt.Sprintf("SnakeCase(%q)", s), func() string { return gogu.SnakeCase(s) }},
			helperCall{fmt.Sprintf("ReverseStr(%q)", s), func() string { return gogu.ReverseStr(s) }},
			helperCall{fmt.Sprintf("Pad(%q,9,*-)", s), func() string { return gogu.Pad(s, 9, "*-") }},
			helperCall{fmt.Sprintf("Wrap(%q,*)", s), func() string { return gogu.Wrap(s, "*") }},
			helperCall{fmt.Sprintf("Substr(%q,1,3)", s), func() string { return gogu.Substr(s, 1, 3) }},
		)
	}
	for _, x := range [][]int{{3, 1, 2, 1}, {5, 5, 4}, {}} {
		x := x
		cpx := func() []int { return append([]int{}, x...) }
		out = append(out,
			helperCall{fmt.Sprintf("Unique(%v)", x), func() string { return fmt.Sprint(gogu.Unique(cpx())) }},
			helperCall{fmt.Sprintf("Filter(%v,>1)", x), func() string { return fmt.Sprint(gogu.Filter(cpx(), func(v int) bool { return v > 1 })) }},
			helperCall{fmt.Sprintf("Map(%v,*2)", x), func() string { return fmt.Sprint(gogu.Map(cpx(), func(v int) int { return v * 2 })) }},
			helperCall{fmt.Sprintf("Intersection(%v,[1 5])", x), func() string { return fmt.Sprint(gogu.Intersection(cpx(), []int{1, 5})) }},
			helperCall{fmt.Sprintf("Difference(%v,[1])", x), func() string { return fmt.Sprint(gogu.Difference(cpx(), []int{1})) }},
			helperCall{fmt.Sprintf("Chunk(%v,2)", x), func() string { return fmt.Sprint(gogu.Chunk(cpx(), 2)) }},
			helperCall{fmt.Sprintf("Sum(%v)", x), func() string { return fmt.Sprint(gogu.Sum(cpx())) }},
			helperCall{fmt.Sprintf("Shuffle(%v)", x), func() string { // every draw is an explorer choice; the result is compared as a multiset
				out := gogu.Shuffle(cpx())
				sort.Ints(out)
				return fmt.Sprint(out)
			}},
			helperCall{fmt.Sprintf("Range(%d)", len(x)+2), func() string { r, _ := gogu.Range(len(x) + 2); return fmt.Sprint(r) }},
		)
	}
	return out
}

// C16first: a helper's FIRST use in a process, by two goroutines at once (arg: the index of the helper
// family, or "count"). Whatever a helper sets up lazily on first use -- a compiled pattern, a table -- is
// set up here while another call is under way; the ordinary worker has long initialised everything when
// its pairs run. One fresh process per family; ThreadSanitizer judges the execution, and both calls must
// return what a later call returns alone.
func init() {
	subcommands["C16first"] = func(arg string) {
		calls := c16concCalls()
		fam := func(name string) string { return name[:strings.Index(name, "(")] }
		var firsts []int
		seen := map[string]bool{}
		for i, c := range calls {
			if !seen[fam(c.name)] {
				seen[fam(c.name)] = true
				firsts = append(firsts, i)
			}
		}
		if arg == "count" {
			fmt.Println(len(firsts))
			return
		}
		var k int
		fmt.Sscan(arg, &k)
		if k < 0 || k >= len(firsts) {
			os.Exit(2)
		}
		c := calls[firsts[k]]
		out := newWorkerOut()
		var res [2]string
		vrt.Run(nil, 20000, false, func() {
			var wg sync.WaitGroup
			wg.Add(2)
			vrt.Go(func() { defer wg.Done(); res[0] = safeCall(c.f) })
			vrt.Go(func() { defer wg.Done(); res[1] = safeCall(c.f) })
			wg.Wait()
		})
		vrt.Run(nil, 20000, true, func() {}) // let the detector flush
		alone := safeCall(c.f)
		if res[0] != alone || res[1] != alone {
			out.finding(wFinding{fam(c.name) + "/first-use-by-two-goroutines/returns-something-else", fmt.Sprintf("the first two calls of %s in a process, made concurrently, returned %q and %q; a later call returns %q", c.name, res[0], res[1], alone), []string{c.name, c.name}, nil})
		}
		if dir := os.Getenv("VERIF_TSAN_DIR"); dir != "" {
			if b, err := os.ReadFile(fmt.Sprintf("%s/tsan.%d", dir, os.Getpid())); err == nil {
				for _, rc := range parseRaces(string(b)) {
					out.finding(wFinding{fam(c.name) + "/first-use-by-two-goroutines/data-race/" + rc[0], "the first two calls of a helper in a process race with each other (lazily initialised shared state); ThreadSanitizer:\n" + rc[1], []string{c.name, c.name}, nil})
				}
			}
		}
		out.stats(wStats{Shard: "first:" + arg, Scenarios: 1, Execs: 1, MinBound: -1, Extra: map[string]int{}})
	}
}

func init() {
	subcommands["C16worker"] = func(arg string) {
		out := newWorkerOut()
		st := wStats{Shard: arg, MinBound: -1, Extra: map[string]int{}}
		calls := c16concCalls()
		alone := make([]string, len(calls))
		for i, c := range calls {
			alone[i] = safeCall(c.f)
		}
		deadline := time.Now().Add(2 * time.Minute)
		reported := map[string]bool{}
		// in the -race build: ThreadSanitizer's log of this process (data races between two helper calls)
		logPath := ""
		if dir := os.Getenv("VERIF_TSAN_DIR"); dir != "" {
			logPath = fmt.Sprintf("%s/tsan.%d", dir, os.Getpid())
		}
		var logOff int64
		newRaces := func() [][2]string {
			if logPath == "" {
				return nil
			}
			fi, err := os.Stat(logPath)
			if err != nil || fi.Size() <= logOff {
				return nil
			}
			f, err := os.Open(logPath)
			if err != nil {
				return nil
			}
			defer f.Close()
			buf := make([]byte, fi.Size()-logOff)
			f.ReadAt(buf, logOff)
			logOff = fi.Size()
			return parseRaces(string(buf))
		}
		states := map[string]struct{}{}
		fam := func(name string) string { return name[:strings.Index(name, "(")] }
		for i := range calls {
			for j := range calls {
				if fam(calls[i].name) != fam(calls[j].name) && (i+j)%5 != 0 {
					continue // every pair within one helper, a fifth of the cross-helper pairs
				}
				st.Scenarios++
				var res [2]string
				e := &vrt.Explorer{Horizon: 20000, Budget: 20000, Deadline: deadline, MaxBound: 3}
				e.Check = func(x *vrt.Exec) {
					states[fmt.Sprint(i, j, res)] = struct{}{}
					for k, idx := range []int{i, j} {
						if res[k] != alone[idx] {
							key := fam(calls[idx].name) + "/concurrent-call-returns-something-else"
							if !reported[key] {
								reported[key] = true
								out.finding(wFinding{key, fmt.Sprintf("%s returned %q while %s ran concurrently; alone it returns %q", calls[idx].name, res[k], calls[[]int{j, i}[k]].name, alone[idx]),
									map[string]any{"calls": []string{calls[i].name, calls[j].name}, "schedule_thread_ids": append([]int16{}, x.Schedule()...)}, map[string]any{"engine": "conc", "check": "C16", "sub": "C16worker", "shard": arg, "choices": append([]int{}, e.LastChoices...)}})
							}
						}
					}
					if x.Deadlock && !reported["deadlock"] {
						reported["deadlock"] = true
						out.finding(wFinding{"helpers/concurrent-calls-deadlock", x.DeadlockInfo, []string{calls[i].name, calls[j].name}, nil})
					}
				}
				e.Explore(func() {
					var wg sync.WaitGroup
					wg.Add(2)
					vrt.Go(func() { defer wg.Done(); res[0] = safeCall(calls[i].f) })
					vrt.Go(func() { defer wg.Done(); res[1] = safeCall(calls[j].f) })
					wg.Wait()
				})
				for _, rc := range newRaces() {
					key := fam(calls[i].name) + "‖" + fam(calls[j].name) + "/data-race/" + rc[0]
					if !reported[key] {
						reported[key] = true
						out.finding(wFinding{key, "two helper calls on separate arguments race with each other (shared scratch state); ThreadSanitizer:\n" + rc[1], []string{calls[i].name, calls[j].name}, nil})
					}
				}
				st.Execs += e.Execs
				st.Steps += e.Steps
				if !e.Complete {
					st.Incomplete++
				}
			}
		}
		st.States = len(states)
		st.Samples = []string{fmt.Sprintf("%d pairs of concurrent helper calls (%d calls), every interleaving of their synchronisation operations", st.Scenarios, len(calls))}
		out.stats(st)
		_ = os.Stderr
	}
}
