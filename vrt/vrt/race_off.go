//go:build verif && !race

package vrt

import "unsafe"

const RaceBuild = false

func raceDisable() {}
func raceEnable()  {}

func raceAcquire(unsafe.Pointer) {}
func raceRelease(unsafe.Pointer) {}

func spawn(fn func()) { go fn() }
func releasePool()    {}
