package seqmc

import "strings"

// Pair runs two systems of the same kind side by side: every operation of either is an operation of the
// pair, both are observed after every step, the state is the pair of states. Two instances of a type
// share nothing a caller can see -- unless the implementation keeps something at package level (a pool
// of backing arrays, a cache of nodes, a lazily built table): then what one instance does shows in the
// other. The BFS over the pair explores every interleaving of the two histories.
func Pair(a, b Sys) Sys { return &pairSys{a, b} }

type pairSys struct{ a, b Sys }

func tag(t string, ops []Op) []Op {
	out := make([]Op, len(ops))
	for i, o := range ops {
		o.N = t + o.N
		out[i] = o
	}
	return out
}

func (p *pairSys) Ops() []Op { return append(tag("A.", p.a.Ops()), tag("B.", p.b.Ops())...) }

func (p *pairSys) pick(o Op) (Sys, Op) {
	s := p.a
	if strings.HasPrefix(o.N, "B.") {
		s = p.b
	}
	o.N = o.N[2:]
	return s, o
}

func (p *pairSys) Apply(o Op, c *Ctx) {
	s, op := p.pick(o)
	s.Apply(op, c)
}

func (p *pairSys) Observe(c *Ctx) {
	orig := c.Copy // a fresh copy of the whole pair: each side asks for its own half
	if orig != nil {
		c.Copy = func() Sys { return orig().(*pairSys).a }
	}
	p.a.Observe(c)
	if orig != nil {
		c.Copy = func() Sys { return orig().(*pairSys).b }
	}
	p.b.Observe(c)
	c.Copy = orig
}

func (p *pairSys) Key() string { return p.a.Key() + " || " + p.b.Key() }

func (p *pairSys) OpClass(o Op) string {
	s, op := p.pick(o)
	if oc, ok := s.(interface{ OpClass(Op) string }); ok {
		return oc.OpClass(op) // same classes as a single instance: a recorded finding keeps its key
	}
	return op.N
}
