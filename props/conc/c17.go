//go:build verif

package main

import (
	"errors"
	"fmt"
	"math"
	"os"
	"strings"
	"time"

	"github.com/esimov/gogu"
	"github.com/esimov/gogu/cache"
	"github.com/esimov/gogu/vrtshim/vrt"
	sync "github.com/esimov/gogu/vrtshim/vsync"
	"verif/core"
)

// C17 — Memoize: single flight per key, cached value served, errors not cached,
// keys independent. singleflight itself is recompiled against the controlled
// runtime (virtual copy under vrtshim/singleflight), so the windows between
// Cache.Get, group.Do, SetDefault and the group's key deletion are explored.

func init() {
	registry["C17"] = func(rep *core.Report) {
		shards := []string{"shared-item", "seq", "2x1", "2x2", "3x1", "2x(2,1)", "blocked-key", "expiry", "expiry-janitor", "expiry-2cycles", "expiry-janitor-2cycles"}
		rep.Set("engine", "vrt+explore: every interleaving of the Memoize callers (scheduling points inside the cache's RWMutex and singleflight's Mutex/WaitGroup), callback latency = 0/1/2 scheduling points, callback outcome = Choose(value|error)")
		if !runWorkers(rep, "C17worker", shards, nil) {
			fmt.Fprintln(os.Stderr, "C17: worker failure")
			os.Exit(2)
		}
	}
	subcommands["C17worker"] = c17worker
}

type mExec struct { // one execution of the user function
	key        string
	n          int // invocation number (value = 1000*keyIndex + n)
	thread     int
	start, end int // stamps
	tStart     int64
	ok         bool
	err        error
}

type mCall struct {
	key      string
	thread   int
	inv, ret int
	tInv     int64
	tRet     int64
	val      int
	hasVal   bool
	err      error
	item     *cache.Item[int] // what the caller was handed ...
	valEnd   int              // ... and what it holds at the end of the execution
}

func c17worker(arg string) {
	c := &c20ctx{check: "C17", out: newWorkerOut(), st: &wStats{Shard: arg, MinBound: -1, Extra: map[string]int{}}, states: map[string]struct{}{}}
	c.deadline = time.Now().Add(3 * time.Minute)
	c.budget = 150000
	if thorough {
		c.deadline = time.Now().Add(20 * time.Minute)
		c.budget = 3000000
	}
	if arg == "expiry-janitor-2cycles" && !thorough {
		c.budget = 600000 // five threads over eight clock units: preemption bound 2 needs this many schedules
	}
	if arg == "shared-item" {
		c17longLifetime(c)
		c17sharedItem(c)
		c.st.States = len(c.states)
		c.out.stats(*c.st)
		return
	}
	keys := []string{"p", "q"}
	var progs [][][]string // threads -> calls -> key
	add := func(p ...[]string) { progs = append(progs, p) }
	switch arg {
	case "seq":
		L := 4
		if thorough {
			L = 5
		}
		var gen func(cur []string)
		gen = func(cur []string) {
			if len(cur) >= 1 {
				add(append([]string{}, cur...))
			}
			if len(cur) == L {
				return
			}
			for _, k := range keys {
				gen(append(cur, k))
			}
		}
		gen(nil)
	case "2x1":
		add([]string{"p"}, []string{"p"})
		add([]string{"p"}, []string{"q"})
	case "3x1":
		add([]string{"p"}, []string{"p"}, []string{"p"})
		add([]string{"p"}, []string{"p"}, []string{"q"})
	case "2x(2,1)":
		for _, a := range keys {
			for _, b := range keys {
				add([]string{"p", a}, []string{b})
			}
		}
	case "2x2":
		add([]string{"p", "p"}, []string{"p", "p"})
		add([]string{"p", "q"}, []string{"p", "q"})
		add([]string{"p", "q"}, []string{"q", "p"})
	case "blocked-key":
		add([]string{"p"}, []string{"p"}, []string{"Q-blocks"})
		add([]string{"p", "p"}, []string{"Q-blocks"})
	case "expiry", "expiry-janitor":
		add([]string{"p", "p"}, []string{"p"})
		add([]string{"p", "p", "p"})
		if arg == "expiry" {
			add([]string{"p", "p", "p", "p"})
		} else {
			add([]string{"p", "p", "q"}) // a second key stored after the first one was swept
			add([]string{"p", "p"}, []string{"q"})
		}
	case "expiry-2cycles", "expiry-janitor-2cycles":
		// the clock runs for 8 units (lifetime 3): a value is cached, expires (and is swept), is computed
		// again, cached again and expires again -- whatever only goes wrong the second time round
		add([]string{"p", "p", "p", "p", "p"})
		add([]string{"p", "p", "p"}, []string{"p", "p"})
		if thorough {
			add([]string{"p", "p", "p"}, []string{"p", "p", "p"})
			add([]string{"p", "q", "p", "q", "p"})
		}
	}
	latencies := []int{0, 1, 2}
	if strings.HasSuffix(arg, "-2cycles") {
		latencies = []int{0, 1}
	}
	if arg == "2x2" || arg == "3x1" {
		latencies = []int{0, 1}
	}
	for _, prog := range progs {
		for _, lat := range latencies {
			if arg == "expiry-janitor" && lat == 2 {
				continue
			}
			c17scenario(c, arg, prog, lat, strings.HasPrefix(arg, "expiry"))
		}
	}
	c.st.States = len(c.states)
	c.out.stats(*c.st)
}

func c17scenario(c *c20ctx, fam string, prog [][]string, lat int, expiry bool) {
	var execs []*mExec
	var calls []*mCall
	var viol string
	var th []string
	for _, t := range prog {
		th = append(th, strings.Join(t, ";"))
	}
	name := fmt.Sprintf("Memoize(%s; latency=%d; expiry=%t)", strings.Join(th, " ‖ "), lat, expiry)
	janitor := strings.HasPrefix(fam, "expiry-janitor")
	clockSteps := 2
	if strings.HasSuffix(fam, "-2cycles") {
		clockSteps = 4
	}
	outcomes := 2 // value | error
	if fam == "seq" || fam == "2x1" || fam == "2x(2,1)" || thorough {
		outcomes = 3 // ... | error together with a value
	}
	if janitor {
		name = fmt.Sprintf("Memoize(%s; latency=%d; expiry=3, cleanup-interval=2)", strings.Join(th, " ‖ "), lat)
	}
	if clockSteps != 2 {
		name += fmt.Sprintf(" clock %d x Advance(2)", clockSteps)
	}
	bound := 0
	if len(prog) >= 3 || fam == "2x2" || janitor {
		bound = 2
		if thorough {
			bound = 3
		}
	}
	c.explore(name, bound, func() {
		execs, calls, viol = execs[:0], calls[:0], ""
		// items the callback can return: built through a scratch cache (Item has no exported constructor)
		scratch := cache.New[string, int](cache.NoExpiration, 0)
		items := map[int]*cache.Item[int]{} // built before the threads start: building one has scheduling points
		for _, k := range []string{"p", "q"} {
			for n := 1; n <= 8; n++ {
				v := valueOf(k, n)
				scratch.Update("v", v, cache.NoExpiration)
				items[v], _ = scratch.Get("v")
			}
		}
		item := func(v int) *cache.Item[int] { return items[v] }
		exp := cache.NoExpiration
		if expiry {
			exp = 3 * unit
		}
		n0 := vrt.ThreadCount()
		cleanup := time.Duration(0)
		if janitor {
			cleanup = 2 * unit // the cache's own cleanup goroutine sweeps while the callers run
		}
		m := gogu.NewMemoizer[string, int](exp, cleanup)
		vrt.MarkSpawnedSinceDaemon(n0)
		inflight := map[string]int{}
		count := map[string]int{}
		var wg sync.WaitGroup
		wg.Add(len(prog))
		perThread := make([][]*mCall, len(prog))
		for ti, ks := range prog {
			ti, ks := ti, ks
			vrt.GoNamed(fmt.Sprintf("caller%d", ti), false, func() {
				released := false
				defer func() {
					if !released {
						wg.Done()
					}
				}()
				for _, k := range ks {
					if k == "Q-blocks" {
						// key q's computation parks forever: p's callers must neither wait for it nor see its value
						vrt.SetDaemon()
						released = true
						wg.Done() // this thread never returns; the join must not wait for it
						m.Memoize("q", func() (*cache.Item[int], error) {
							vrt.Wait("q's computation never finishes", vrt.Never{})
							return nil, nil
						})
						return
					}
					k := k
					cl := &mCall{key: k, thread: ti}
					perThread[ti] = append(perThread[ti], cl)
					cl.inv, cl.tInv = vrt.Stamp(), now()
					it, err := m.Memoize(k, func() (*cache.Item[int], error) {
						count[k]++
						e := &mExec{key: k, n: count[k], thread: ti, start: vrt.Stamp(), tStart: now()}
						execs = append(execs, e)
						inflight[k]++
						if inflight[k] > 1 && viol == "" {
							viol = fmt.Sprintf("two executions of the function for key %q in progress at once", k)
						}
						for i := 0; i < lat; i++ {
							vrt.Sched("computation")
						}
						// outcome: a value, an error, or an error together with a (partial) value -- the
						// last one is still an error result and must not be cached
						oc := vrt.Choose(outcomes)
						e.ok = oc == 0
						inflight[k]--
						e.end = vrt.Stamp()
						if !e.ok {
							e.err = errors.New(fmt.Sprintf("error of %s#%d", k, e.n))
							if oc == 2 {
								return item(valueOf(k, e.n)), e.err
							}
							return nil, e.err
						}
						return item(valueOf(k, e.n)), nil
					})
					cl.err = err
					if it != nil {
						cl.val, cl.hasVal, cl.item = it.Val(), true, it
					}
					cl.tRet, cl.ret = now(), vrt.Stamp()
				}
			})
		}
		if expiry {
			wg.Add(1)
			vrt.GoNamed("clock", false, func() {
				defer wg.Done()
				for i := 0; i < clockSteps; i++ {
					vrt.Advance(2 * unit)
				}
			})
		}
		wg.Wait()
		for _, l := range perThread {
			calls = append(calls, l...)
		}
		for _, cl := range calls { // a caller may keep what it was handed: it must not change under it
			if cl.item != nil {
				cl.valEnd = cl.item.Val()
			}
		}
	}, func(x *vrt.Exec) (string, string) {
		if viol != "" {
			return "Memoize/two-executions-in-flight-for-one-key", viol
		}
		// an execution stays "in flight" until the Memoize call that started it returns: singleflight
		// lets late callers join it up to that point (documented behaviour)
		flightEnd := func(e *mExec) int {
			for _, cl := range calls {
				if cl.thread == e.thread && cl.inv < e.start && e.start < cl.ret {
					return cl.ret
				}
			}
			return e.end
		}
		// calls that began after some call had already returned a value for the key (the value is cached)
		postCache := map[string][]*mCall{}
		for _, cl := range calls {
			// which execution produced this result?
			var src *mExec
			for _, e := range execs {
				if cl.err != nil && e.err == cl.err {
					src = e
				}
				if cl.err == nil && cl.hasVal && e.ok && valueOf(e.key, e.n) == cl.val {
					src = e
				}
			}
			if cl.item != nil && cl.valEnd != cl.val {
				return "Memoize/returned-item-changes-later", fmt.Sprintf("the item returned to the call %s (thread %d) held %d when it was returned and holds %d at the end of the execution", cl.key, cl.thread, cl.val, cl.valEnd)
			}
			for _, e := range execs {
				if cl.err == nil && cl.hasVal && !e.ok && valueOf(e.key, e.n) == cl.val {
					return "Memoize/error-was-cached", fmt.Sprintf("call %s returned value %d with a nil error, but the execution that produced it (#%d) ended in an error: an error result must not be cached or served as a success", cl.key, cl.val, e.n)
				}
			}
			switch {
			case cl.err == nil && !cl.hasVal:
				return "Memoize/returns-neither-value-nor-error", fmt.Sprintf("call %s by thread %d returned (nil, nil)", cl.key, cl.thread)
			case src == nil:
				return "Memoize/result-from-no-execution", fmt.Sprintf("call %s returned value %d / error %v that no execution of the function produced", cl.key, cl.val, cl.err)
			case src.key != cl.key:
				return "Memoize/result-of-another-key", fmt.Sprintf("call for key %s returned the result of an execution for key %s", cl.key, src.key)
			case src.start > cl.ret:
				return "Memoize/result-from-a-later-execution", "result produced by an execution that started after the call had returned"
			case cl.err != nil && flightEnd(src) < cl.inv:
				return "Memoize/error-was-cached", fmt.Sprintf("call %s started after execution #%d had failed and still received its error", cl.key, src.n)
			}
			// once cached (a call that returned the value successfully before this call started), no new execution
			for _, prev := range calls {
				if prev == cl || prev.key != cl.key || prev.err != nil || !prev.hasVal || !(prev.ret < cl.inv) {
					continue
				}
				// When prev returned, the key held a live entry (prev was served from it, or its flight had
				// just stored one, or the store was refused because a live one existed). That entry was
				// stored by a successful execution e that started before prev returned, so it lives at
				// least until e.tStart + lifetime, and Memoize only stores through Set, which never
				// replaces a live entry. Executions whose entry had certainly expired before prev began
				// cannot be that e. The call is judged only if it ends before the earliest possible expiry.
				stillCached := !expiry
				if expiry {
					earliest := int64(-1)
					for _, e := range execs {
						if e.key != cl.key || !e.ok || e.start > prev.ret {
							continue
						}
						stored := e.tStart // latest instant at which e's flight can have stored: its Memoize call's return
						for _, c0 := range calls {
							if c0.thread == e.thread && c0.inv < e.start && e.start < c0.ret {
								stored = c0.tRet
							}
						}
						if prev.tInv > stored+3 {
							continue // certainly expired before prev began
						}
						if earliest < 0 || e.tStart+3 < earliest {
							earliest = e.tStart + 3
						}
					}
					stillCached = earliest >= 0 && cl.tRet < earliest
				}
				if !stillCached {
					continue
				}
				for _, e := range execs {
					if e.key == cl.key && e.thread == cl.thread && e.start > cl.inv && e.start < cl.ret {
						return "Memoize/recomputes-although-cached", fmt.Sprintf("call %s (thread %d) started after another call had returned the cached value %d, yet invoked the function again (#%d)", cl.key, cl.thread, prev.val, e.n)
					}
				}
				if cl.err != nil {
					return "Memoize/cached-value-not-served", fmt.Sprintf("call %s started after value %d had been returned, but got error %v", cl.key, prev.val, cl.err)
				}

				if !expiry {
					postCache[cl.key] = append(postCache[cl.key], cl)
				}
				break
			}
		}
		for k, cls := range postCache {
			for _, cl := range cls[1:] {
				if cl.val != cls[0].val {
					return "Memoize/cached-value-changes", fmt.Sprintf("two calls for key %s that both started after a value had been cached returned %d and %d", k, cls[0].val, cl.val)
				}
			}
		}
		return "", ""
	}, func() any {
		var s []string
		for _, e := range execs {
			s = append(s, fmt.Sprintf("exec %s#%d ok=%t [%d,%d]", e.key, e.n, e.ok, e.start, e.end))
		}
		for _, cl := range calls {
			s = append(s, fmt.Sprintf("call %s t%d [%d,%d] @%d..%d -> %d(end %d)/%v", cl.key, cl.thread, cl.inv, cl.ret, cl.tInv, cl.tRet, cl.val, cl.valEnd, cl.err))
		}
		return strings.Join(s, "; ")
	})
}

func valueOf(key string, n int) int {
	if key == "q" {
		return 2000 + n
	}
	return 1000 + n
}

// c17sharedItem: the function hands back the SAME item object from every execution (a backing store that
// returns what it holds), and two Memoizers with different lifetimes memoize it. Each keeps its own
// entry: what one does with the item (its deadline) is not the other's. Orders of the first two calls and
// the length of the wait are explorer choices.
func c17sharedItem(c *c20ctx) {
	var runs [2]int
	var recs []string
	var viol, det string
	c.explore("Memoize: two Memoizers (lifetime 3 / no expiry), the function returns one shared item", 0, func() {
		runs, recs, viol, det = [2]int{}, recs[:0], "", ""
		scratch := cache.New[string, int](cache.NoExpiration, 0)
		scratch.Update("v", 7, cache.NoExpiration)
		shared, _ := scratch.Get("v")
		ms := [2]*gogu.Memoizer[string, int]{gogu.NewMemoizer[string, int](3*unit, 0), gogu.NewMemoizer[string, int](cache.NoExpiration, 0)}
		call := func(i int) {
			before := runs[i]
			it, err := ms[i].Memoize("p", func() (*cache.Item[int], error) { runs[i]++; return shared, nil })
			recs = append(recs, fmt.Sprintf("m%d@%d ran=%d", i, now(), runs[i]-before))
			if err != nil || it == nil || it.Val() != 7 {
				viol, det = "Memoize/shared-item/wrong-result", fmt.Sprintf("Memoizer %d returned (%v, %v), want the value 7", i, it, err)
			}
		}
		first := vrt.Choose(2)
		call(first)
		call(1 - first)
		vrt.Advance(time.Duration(2+2*vrt.Choose(3)) * unit) // 2, 4 or 6 units
		t := now()
		call(1) // no expiry: cached for ever
		if runs[1] != 1 && viol == "" {
			viol, det = "Memoize/shared-item/recomputes-although-cached", fmt.Sprintf("the Memoizer without expiry ran the function %d times; its entry never expires (history %v)", runs[1], recs)
		}
		call(0)
		if want := 1 + b2i(t > 3); runs[0] != want && viol == "" {
			viol, det = "Memoize/shared-item/lifetime-3-not-respected", fmt.Sprintf("the Memoizer with lifetime 3 ran the function %d times by time %d, want %d (history %v)", runs[0], t, want, recs)
		}
	}, func(x *vrt.Exec) (string, string) { return viol, det }, func() any { return fmt.Sprint(recs) })
}

func b2i(b bool) int {
	if b {
		return 1
	}
	return 0
}

// c17longLifetime: a Memoizer whose entries live for decades or centuries (up to the largest Duration):
// a value cached now is served for the rest of the execution, with and without the cleanup goroutine.
func c17longLifetime(c *c20ctx) {
	for _, d := range []time.Duration{50 * 365 * 24 * time.Hour, 250 * 365 * 24 * time.Hour, math.MaxInt64 - 1, math.MaxInt64} {
		for _, cleanup := range []time.Duration{0, 2 * unit} {
			d, cleanup := d, cleanup
			runs := 0
			var viol, det string
			c.explore(fmt.Sprintf("Memoize with a lifetime of %v (cleanup interval %v): three calls over 8 units", d, cleanup), 2, func() {
				runs, viol, det = 0, "", ""
				scratch := cache.New[string, int](cache.NoExpiration, 0)
				scratch.Update("v", 7, cache.NoExpiration)
				item, _ := scratch.Get("v")
				n0 := vrt.ThreadCount()
				m := gogu.NewMemoizer[string, int](d, cleanup)
				vrt.MarkSpawnedSinceDaemon(n0)
				for i := 0; i < 3; i++ {
					it, err := m.Memoize("p", func() (*cache.Item[int], error) { runs++; return item, nil })
					if (err != nil || it == nil || it.Val() != 7) && viol == "" {
						viol, det = "Memoize/long-lifetime/wrong-result", fmt.Sprintf("call %d returned (%v, %v)", i+1, it, err)
					}
					vrt.Advance(4 * unit)
					if cleanup > 0 {
						vrt.WaitIdle()
					}
				}
				if runs != 1 && viol == "" {
					viol, det = "Memoize/long-lifetime/recomputes-although-cached", fmt.Sprintf("the function ran %d times in 12 units although the value is cached for %v", runs, d)
				}
			}, func(x *vrt.Exec) (string, string) { return viol, det }, func() any { return fmt.Sprint("runs=", runs) })
		}
	}
}
