//go:build verif

// Package vatomic mirrors sync/atomic: every operation is a scheduling point of the controlled
// runtime followed by the real atomic operation (so a -race build sees exactly the acquire/release
// edges the production code would generate). gogu does not use sync/atomic today; the shim exists so
// that a change introducing lock-free code is explored at the granularity of its atomic steps instead
// of silently running each atomic section without preemption.
package vatomic

import (
	"sync/atomic"
	"unsafe"

	"github.com/esimov/gogu/vrtshim/vrt"
)

//go:norace
func pt(what string) { vrt.Sched(what) }

func AddInt32(addr *int32, delta int32) int32 {
	pt("atomic.AddInt32")
	return atomic.AddInt32(addr, delta)
}
func AddInt64(addr *int64, delta int64) int64 {
	pt("atomic.AddInt64")
	return atomic.AddInt64(addr, delta)
}
func AddUint32(addr *uint32, delta uint32) uint32 {
	pt("atomic.AddUint32")
	return atomic.AddUint32(addr, delta)
}
func AddUint64(addr *uint64, delta uint64) uint64 {
	pt("atomic.AddUint64")
	return atomic.AddUint64(addr, delta)
}
func AddUintptr(addr *uintptr, delta uintptr) uintptr {
	pt("atomic.AddUintptr")
	return atomic.AddUintptr(addr, delta)
}
func LoadInt32(addr *int32) int32       { pt("atomic.LoadInt32"); return atomic.LoadInt32(addr) }
func LoadInt64(addr *int64) int64       { pt("atomic.LoadInt64"); return atomic.LoadInt64(addr) }
func LoadUint32(addr *uint32) uint32    { pt("atomic.LoadUint32"); return atomic.LoadUint32(addr) }
func LoadUint64(addr *uint64) uint64    { pt("atomic.LoadUint64"); return atomic.LoadUint64(addr) }
func LoadUintptr(addr *uintptr) uintptr { pt("atomic.LoadUintptr"); return atomic.LoadUintptr(addr) }
func LoadPointer(addr *unsafe.Pointer) unsafe.Pointer {
	pt("atomic.LoadPointer")
	return atomic.LoadPointer(addr)
}
func StoreInt32(addr *int32, v int32)       { pt("atomic.StoreInt32"); atomic.StoreInt32(addr, v) }
func StoreInt64(addr *int64, v int64)       { pt("atomic.StoreInt64"); atomic.StoreInt64(addr, v) }
func StoreUint32(addr *uint32, v uint32)    { pt("atomic.StoreUint32"); atomic.StoreUint32(addr, v) }
func StoreUint64(addr *uint64, v uint64)    { pt("atomic.StoreUint64"); atomic.StoreUint64(addr, v) }
func StoreUintptr(addr *uintptr, v uintptr) { pt("atomic.StoreUintptr"); atomic.StoreUintptr(addr, v) }
func StorePointer(addr *unsafe.Pointer, v unsafe.Pointer) {
	pt("atomic.StorePointer")
	atomic.StorePointer(addr, v)
}
func SwapInt32(addr *int32, v int32) int32 { pt("atomic.SwapInt32"); return atomic.SwapInt32(addr, v) }
func SwapInt64(addr *int64, v int64) int64 { pt("atomic.SwapInt64"); return atomic.SwapInt64(addr, v) }
func SwapUint32(addr *uint32, v uint32) uint32 {
	pt("atomic.SwapUint32")
	return atomic.SwapUint32(addr, v)
}
func SwapUint64(addr *uint64, v uint64) uint64 {
	pt("atomic.SwapUint64")
	return atomic.SwapUint64(addr, v)
}
func CompareAndSwapInt32(addr *int32, o, n int32) bool {
	pt("atomic.CompareAndSwapInt32")
	return atomic.CompareAndSwapInt32(addr, o, n)
}
func CompareAndSwapInt64(addr *int64, o, n int64) bool {
	pt("atomic.CompareAndSwapInt64")
	return atomic.CompareAndSwapInt64(addr, o, n)
}
func CompareAndSwapUint32(addr *uint32, o, n uint32) bool {
	pt("atomic.CompareAndSwapUint32")
	return atomic.CompareAndSwapUint32(addr, o, n)
}
func CompareAndSwapUint64(addr *uint64, o, n uint64) bool {
	pt("atomic.CompareAndSwapUint64")
	return atomic.CompareAndSwapUint64(addr, o, n)
}
func CompareAndSwapPointer(addr *unsafe.Pointer, o, n unsafe.Pointer) bool {
	pt("atomic.CompareAndSwapPointer")
	return atomic.CompareAndSwapPointer(addr, o, n)
}

type Int32 struct{ v atomic.Int32 }

func (x *Int32) Load() int32        { pt("atomic.Int32.Load"); return x.v.Load() }
func (x *Int32) Store(v int32)      { pt("atomic.Int32.Store"); x.v.Store(v) }
func (x *Int32) Add(d int32) int32  { pt("atomic.Int32.Add"); return x.v.Add(d) }
func (x *Int32) Swap(v int32) int32 { pt("atomic.Int32.Swap"); return x.v.Swap(v) }
func (x *Int32) CompareAndSwap(o, n int32) bool {
	pt("atomic.Int32.CompareAndSwap")
	return x.v.CompareAndSwap(o, n)
}

type Int64 struct{ v atomic.Int64 }

func (x *Int64) Load() int64        { pt("atomic.Int64.Load"); return x.v.Load() }
func (x *Int64) Store(v int64)      { pt("atomic.Int64.Store"); x.v.Store(v) }
func (x *Int64) Add(d int64) int64  { pt("atomic.Int64.Add"); return x.v.Add(d) }
func (x *Int64) Swap(v int64) int64 { pt("atomic.Int64.Swap"); return x.v.Swap(v) }
func (x *Int64) CompareAndSwap(o, n int64) bool {
	pt("atomic.Int64.CompareAndSwap")
	return x.v.CompareAndSwap(o, n)
}

type Uint32 struct{ v atomic.Uint32 }

func (x *Uint32) Load() uint32         { pt("atomic.Uint32.Load"); return x.v.Load() }
func (x *Uint32) Store(v uint32)       { pt("atomic.Uint32.Store"); x.v.Store(v) }
func (x *Uint32) Add(d uint32) uint32  { pt("atomic.Uint32.Add"); return x.v.Add(d) }
func (x *Uint32) Swap(v uint32) uint32 { pt("atomic.Uint32.Swap"); return x.v.Swap(v) }
func (x *Uint32) CompareAndSwap(o, n uint32) bool {
	pt("atomic.Uint32.CompareAndSwap")
	return x.v.CompareAndSwap(o, n)
}

type Uint64 struct{ v atomic.Uint64 }

func (x *Uint64) Load() uint64         { pt("atomic.Uint64.Load"); return x.v.Load() }
func (x *Uint64) Store(v uint64)       { pt("atomic.Uint64.Store"); x.v.Store(v) }
func (x *Uint64) Add(d uint64) uint64  { pt("atomic.Uint64.Add"); return x.v.Add(d) }
func (x *Uint64) Swap(v uint64) uint64 { pt("atomic.Uint64.Swap"); return x.v.Swap(v) }
func (x *Uint64) CompareAndSwap(o, n uint64) bool {
	pt("atomic.Uint64.CompareAndSwap")
	return x.v.CompareAndSwap(o, n)
}

type Bool struct{ v atomic.Bool }

func (x *Bool) Load() bool       { pt("atomic.Bool.Load"); return x.v.Load() }
func (x *Bool) Store(v bool)     { pt("atomic.Bool.Store"); x.v.Store(v) }
func (x *Bool) Swap(v bool) bool { pt("atomic.Bool.Swap"); return x.v.Swap(v) }
func (x *Bool) CompareAndSwap(o, n bool) bool {
	pt("atomic.Bool.CompareAndSwap")
	return x.v.CompareAndSwap(o, n)
}

type Pointer[T any] struct{ v atomic.Pointer[T] }

func (x *Pointer[T]) Load() *T     { pt("atomic.Pointer.Load"); return x.v.Load() }
func (x *Pointer[T]) Store(v *T)   { pt("atomic.Pointer.Store"); x.v.Store(v) }
func (x *Pointer[T]) Swap(v *T) *T { pt("atomic.Pointer.Swap"); return x.v.Swap(v) }
func (x *Pointer[T]) CompareAndSwap(o, n *T) bool {
	pt("atomic.Pointer.CompareAndSwap")
	return x.v.CompareAndSwap(o, n)
}

type Value struct{ v atomic.Value }

func (x *Value) Load() any      { pt("atomic.Value.Load"); return x.v.Load() }
func (x *Value) Store(v any)    { pt("atomic.Value.Store"); x.v.Store(v) }
func (x *Value) Swap(v any) any { pt("atomic.Value.Swap"); return x.v.Swap(v) }
func (x *Value) CompareAndSwap(o, n any) bool {
	pt("atomic.Value.CompareAndSwap")
	return x.v.CompareAndSwap(o, n)
}
