package main

import (
	"fmt"
	"math"
	"sort"

	"github.com/esimov/gogu"
	"verif/enum"
)

// C14 — map helpers. Every helper that ranges over a map runs under
// withChoices: with the overlay's map-order seam every iteration order of
// every ranged map is executed.

func init() { registry["C14"] = c14 }

func mcopy[K comparable, V any](m map[K]V) map[K]V {
	c := make(map[K]V, len(m))
	for k, v := range m {
		c[k] = v
	}
	return c
}

func meq[K comparable, V comparable](a, b map[K]V) bool {
	if len(a) != len(b) {
		return false
	}
	for k, v := range a {
		if w, ok := b[k]; !ok || w != v {
			return false
		}
	}
	return true
}

func mstr(m map[string]int) string {
	ks := make([]string, 0, len(m))
	for k := range m {
		ks = append(ks, k)
	}
	sort.Strings(ks)
	s := "{"
	for _, k := range ks {
		s += fmt.Sprintf("%s:%d ", k, m[k])
	}
	return s + "}"
}

type vpred struct {
	name string
	f    func(int) bool
}

var vpreds = []vpred{
	{"true", func(int) bool { return true }},
	{"false", func(int) bool { return false }},
	{"v==0", func(v int) bool { return v == 0 }},
	{"v>0", func(v int) bool { return v > 0 }},
}

func c14(r *R) {
	keys := []string{"", "a", "b", "c"} // "" is the zero value of the key type: a legitimate key
	vals := []int{0, 1, 2}
	maxE := 4
	var maps []map[string]int
	enum.Maps(keys, vals, maxE, func(m map[string]int) { maps = append(maps, mcopy(m)) })
	sort.SliceStable(maps, func(i, j int) bool { return len(maps[i]) < len(maps[j]) })
	r.Set("maps_enumerated", len(maps))
	r.Sample(fmt.Sprintf("every map with <= %d entries over keys %v x values %v: %d maps, each helper run under every map iteration order (seams=%t)", maxE, keys, vals, len(maps), seams))
	keyLists := enum.AllSlices([]string{"a", "b", "zz"}, 3)
	orders := 0
	for _, m := range maps {
		ms := mstr(m)
		if len(m) >= 2 {
			r.Nontrivial(ms)
		}
		// Keys / Values
		n, _ := withChoices(0, func() {
			ks := gogu.Keys(mcopy(m))
			r.Eval("Keys")
			okK := len(ks) == len(m) && !hasRepeat(ks)
			for _, k := range ks {
				if _, ok := m[k]; !ok {
					okK = false
				}
			}
			if !okK {
				r.Bad("Keys/not-every-key-once", "Keys("+ms+")", "got %v", ks)
			}
		})
		orders += n
		withChoices(0, func() {
			vs := gogu.Values(mcopy(m))
			r.Eval("Values")
			var want []int
			for _, v := range m {
				want = append(want, v)
			}
			if !samePerm(vs, want) {
				r.Bad("Values/not-every-value-once", "Values("+ms+")", "got %v", vs)
			}
		})
		// Pick / Omit partition
		for _, kl := range keyLists {
			if len(kl) == 0 {
				_, err := gogu.Pick(mcopy(m))
				r.Eval("Pick")
				if err == nil {
					r.Bad("Pick/no-keys-no-error", "Pick("+ms+")", "returned nil error for an empty key list (documented error)")
				}
				continue
			}
			withChoices(0, func() {
				in := mcopy(m)
				picked, err := gogu.Pick(in, kl...)
				r.Eval("Pick")
				om := gogu.Omit(mcopy(m), kl...)
				r.Eval("Omit")
				wp, wo := map[string]int{}, map[string]int{}
				for k, v := range m {
					if contains(kl, k) {
						wp[k] = v
					} else {
						wo[k] = v
					}
				}
				wit := fmt.Sprintf("(%s,%v)", ms, kl)
				if err != nil || !meq(picked, wp) {
					r.Bad("Pick/wrong", "Pick"+wit, "got (%s,%v), want %s", mstr(picked), err, mstr(wp))
				}
				if !meq(om, wo) {
					r.Bad("Omit/wrong", "Omit"+wit, "got %s, want %s", mstr(om), mstr(wo))
				}
			})
		}
		for _, p := range vpreds {
			withChoices(0, func() {
				wp, wo := map[string]int{}, map[string]int{}
				for k, v := range m {
					if p.f(v) {
						wp[k] = v
					} else {
						wo[k] = v
					}
				}
				wit := fmt.Sprintf("(%s,%s)", ms, p.name)
				pb := gogu.PickBy(mcopy(m), func(k string, v int) bool { return p.f(v) })
				r.Eval("PickBy")
				if !meq(pb, wp) {
					r.Bad("PickBy/wrong", "PickBy"+wit, "got %s, want %s", mstr(pb), mstr(wp))
				}
				fm := gogu.FilterMap(mcopy(m), p.f)
				r.Eval("FilterMap")
				if !meq(fm, wp) {
					r.Bad("FilterMap/wrong", "FilterMap"+wit, "got %s, want %s", mstr(fm), mstr(wp))
				}
			})
			withChoices(0, func() {
				wo := map[string]int{}
				for k, v := range m {
					if !p.f(v) {
						wo[k] = v
					}
				}
				ob := gogu.OmitBy(mcopy(m), func(k string, v int) bool { return p.f(v) })
				r.Eval("OmitBy")
				if !meq(ob, wo) {
					r.Bad("OmitBy/wrong", fmt.Sprintf("OmitBy(%s,%s)", ms, p.name), "got %s, want %s", mstr(ob), mstr(wo))
				}
			})
			// key predicate variant
			withChoices(0, func() {
				kp := func(k string, v int) bool { return k < "c" }
				pb := gogu.PickBy(mcopy(m), kp)
				ob := gogu.OmitBy(mcopy(m), kp)
				r.Eval("PickBy")
				r.Eval("OmitBy")
				for k, v := range m {
					_, inP := pb[k]
					_, inO := ob[k]
					if inP == inO || inP != (k < "c") || (inP && pb[k] != v) || (inO && ob[k] != v) {
						r.Bad("PickBy-OmitBy/do-not-partition", fmt.Sprintf("PickBy/OmitBy(%s,k<c)", ms), "got %s and %s", mstr(pb), mstr(ob))
					}
				}
			})
			// quantifiers
			withChoices(0, func() {
				some, every := false, true
				for _, v := range m {
					some = some || p.f(v)
					every = every && p.f(v)
				}
				r.Eval("MapSome")
				r.Eval("MapEvery")
				if g := gogu.MapSome(mcopy(m), p.f); g != some {
					r.Bad("MapSome/wrong", fmt.Sprintf("MapSome(%s,%s)", ms, p.name), "got %t", g)
				}
				if g := gogu.MapEvery(mcopy(m), p.f); g != every {
					r.Bad("MapEvery/wrong", fmt.Sprintf("MapEvery(%s,%s)", ms, p.name), "got %t", g)
				}
			})
			// Find / FindKey / FindByKey
			withChoices(0, func() {
				var q []string
				for k, v := range m {
					if p.f(v) {
						q = append(q, k)
					}
				}
				sort.Strings(q)
				f := gogu.Find(mcopy(m), p.f)
				r.Eval("Find")
				want := map[string]int{}
				if len(q) > 0 {
					want[q[0]] = m[q[0]]
				}
				if !meq(f, want) {
					r.Bad("Find/not-the-qualifying-entry-with-smallest-key", fmt.Sprintf("Find(%s,%s)", ms, p.name), "got %s, want %s", mstr(f), mstr(want))
				}
			})
			withChoices(0, func() {
				var q []string
				for k, v := range m {
					if p.f(v) {
						q = append(q, k)
					}
				}
				fk := gogu.FindKey(mcopy(m), p.f)
				r.Eval("FindKey")
				if (len(q) == 0 && fk != "") || (len(q) > 0 && !contains(q, fk)) {
					r.Bad("FindKey/not-a-qualifying-key", fmt.Sprintf("FindKey(%s,%s)", ms, p.name), "got %q, qualifying %v", fk, q)
				}
			})
		}
		withChoices(0, func() {
			fb := gogu.FindByKey(mcopy(m), func(k string) bool { return k >= "b" })
			r.Eval("FindByKey")
			nq := 0
			for k := range m {
				if k >= "b" {
					nq++
				}
			}
			ok := (nq == 0 && len(fb) == 0) || (nq > 0 && len(fb) == 1)
			for k, v := range fb {
				if k < "b" || m[k] != v {
					ok = false
				}
			}
			if !ok {
				r.Bad("FindByKey/not-one-qualifying-entry", fmt.Sprintf("FindByKey(%s,k>=b)", ms), "got %s", mstr(fb))
			}
		})
		for val := 0; val <= 3; val++ {
			withChoices(0, func() {
				has := false
				for _, v := range m {
					has = has || v == val
				}
				r.Eval("MapContains")
				if g := gogu.MapContains(mcopy(m), val); g != has {
					r.Bad("MapContains/wrong", fmt.Sprintf("MapContains(%s,%d)", ms, val), "got %t", g)
				}
			})
		}
		// MapValues / MapKeys / MapCollection / Invert / MapUnique
		withChoices(0, func() {
			mv := gogu.MapValues(mcopy(m), func(v int) int { return v + 10 })
			r.Eval("MapValues")
			ok := len(mv) == len(m)
			for k, v := range m {
				ok = ok && mv[k] == v+10
			}
			if !ok {
				r.Bad("MapValues/association-lost", "MapValues("+ms+",+10)", "got %s", mstr(mv))
			}
		})
		withChoices(0, func() {
			mk := gogu.MapKeys(mcopy(m), func(k string, v int) string { return k + "!" })
			r.Eval("MapKeys")
			ok := len(mk) == len(m)
			for k, v := range m {
				ok = ok && mk[k+"!"] == v
			}
			if !ok {
				r.Bad("MapKeys/association-lost", "MapKeys("+ms+",k+!)", "got %s", mstr(mk))
			}
		})
		withChoices(0, func() {
			// colliding mapped keys: the value must be one of the colliding entries'
			mk := gogu.MapKeys(mcopy(m), func(k string, v int) string {
				if k < "c" {
					return "lo"
				}
				return "hi"
			})
			r.Eval("MapKeys")
			for nk, v := range mk {
				ok := false
				for k, ov := range m {
					if ((k < "c") == (nk == "lo")) && ov == v {
						ok = true
					}
				}
				if !ok {
					r.Bad("MapKeys/collision-value-from-nowhere", "MapKeys("+ms+",collapse)", "got %s", mstr(mk))
				}
			}
		})
		withChoices(0, func() {
			mc := gogu.MapCollection(mcopy(m), func(v int) int { return v * 3 })
			r.Eval("MapCollection")
			var want []int
			for _, v := range m {
				want = append(want, v*3)
			}
			if !samePerm(mc, want) {
				r.Bad("MapCollection/wrong", "MapCollection("+ms+",*3)", "got %v", mc)
			}
		})
		withChoices(0, func() {
			inv := gogu.Invert(mcopy(m))
			r.Eval("Invert")
			dv := map[int]bool{}
			for _, v := range m {
				dv[v] = true
			}
			ok := len(inv) == len(dv)
			for v, k := range inv {
				if mv, has := m[k]; !has || mv != v {
					ok = false
				}
			}
			if !ok {
				r.Bad("Invert/value-not-mapped-back-to-a-key-that-held-it", "Invert("+ms+")", "got %v", inv)
			}
		})
		withChoices(0, func() {
			mu := gogu.MapUnique(mcopy(m))
			r.Eval("MapUnique")
			dv := map[int]bool{}
			for _, v := range m {
				dv[v] = true
			}
			seen := map[int]bool{}
			ok := len(mu) == len(dv)
			for k, v := range mu {
				if m[k] != v || seen[v] {
					ok = false
				}
				if _, has := m[k]; !has {
					ok = false
				}
				seen[v] = true
			}
			if !ok {
				r.Bad("MapUnique/not-one-original-entry-per-value", "MapUnique("+ms+")", "got %s", mstr(mu))
			}
		})
	}
	r.Set("iteration_orders_executed_for_Keys", orders)
	c14Collections(r, maps)
	c14SliceToMap(r)
	c14Stateful(r)
	c14Reentrant(r)
	c14NaNValues(r)
}

func c14Collections(r *R, maps []map[string]int) {
	// a 10-map sub-family incl. the empty map; all collections of <= 3 (quick: <= 2 plus selected triples)
	var fam []map[string]int
	for _, m := range maps {
		if len(m) <= 1 || (len(m) == 2 && m["a"] != m["b"] && len(fam) < 10) {
			if _, hasC := m["c"]; hasC {
				continue
			}
			if _, hasZ := m[""]; hasZ && len(m) == 2 && m["a"] == 0 {
				continue
			}
			fam = append(fam, m)
		}
	}
	r.Set("collection_family", len(fam))
	var colls [][]map[string]int
	colls = append(colls, []map[string]int{})
	for _, a := range fam {
		colls = append(colls, []map[string]int{a})
		for _, b := range fam {
			colls = append(colls, []map[string]int{a, b})
			if thorough {
				for _, c := range fam {
					colls = append(colls, []map[string]int{a, b, c})
				}
			}
		}
	}
	cstr := func(c []map[string]int) string {
		s := "["
		for _, m := range c {
			s += mstr(m)
		}
		return s + "]"
	}
	for _, coll := range colls {
		cs := cstr(coll)
		cpColl := func() []map[string]int {
			out := make([]map[string]int, len(coll))
			for i, m := range coll {
				out[i] = mcopy(m)
			}
			return out
		}
		// Pluck
		for _, key := range []string{"a", "b", "zz"} {
			withChoices(0, func() {
				got := gogu.Pluck(cpColl(), key)
				r.Eval("Pluck")
				want := []int{}
				for _, m := range coll {
					if v, ok := m[key]; ok {
						want = append(want, v)
					}
				}
				if !eqSlice(got, want) {
					r.Bad("Pluck/wrong", fmt.Sprintf("Pluck(%s,%q)", cs, key), "got %v, want %v", got, want)
				}
			})
		}
		for _, p := range vpreds {
			withChoices(0, func() {
				in := cpColl()
				got := gogu.FilterMapCollection(in, p.f)
				r.Eval("FilterMapCollection")
				var want []int // indices kept
				for i, m := range coll {
					q := false
					for _, v := range m {
						q = q || p.f(v)
					}
					if q {
						want = append(want, i)
					}
				}
				ok := len(got) == len(want)
				for j := range want {
					if ok && !meq(got[j], coll[want[j]]) {
						ok = false
					}
				}
				if !ok {
					cls := "wrong"
					if len(got) > len(want) {
						cls = "map-kept-more-than-once"
					}
					r.Bad("FilterMapCollection/"+cls, fmt.Sprintf("FilterMapCollection(%s,%s)", cs, p.name), "got %s, want the maps at positions %v, each once", cstr(got), want)
				}
			})
			withChoices(0, func() {
				pm := func(m map[string]int) bool {
					for _, v := range m {
						if p.f(v) {
							return true
						}
					}
					return false
				}
				// PartitionMap's predicate sees the whole map; make it order-independent (quantifies over values)
				got := gogu.PartitionMap(cpColl(), pm)
				r.Eval("PartitionMap")
				var w0, w1 []map[string]int
				for _, m := range coll {
					if len(m) == 0 {
						continue
					}
					if pm(m) {
						w0 = append(w0, m)
					} else {
						w1 = append(w1, m)
					}
				}
				if cstr(got[0]) != cstr(w0) || cstr(got[1]) != cstr(w1) {
					r.Bad("PartitionMap/wrong", fmt.Sprintf("PartitionMap(%s,some %s)", cs, p.name), "got %s / %s, want %s / %s", cstr(got[0]), cstr(got[1]), cstr(w0), cstr(w1))
				}
			})
		}
		if len(coll) >= 2 {
			r.Nontrivial("coll" + cs)
		}
	}
	// Filter2DMapCollection on a small family of 2-level maps
	inner := []map[string]int{{}, {"x": 0}, {"x": 1}, {"x": 0, "y": 1}}
	var outer []map[string]map[string]int
	outer = append(outer, map[string]map[string]int{})
	for i, a := range inner {
		outer = append(outer, map[string]map[string]int{"p": a})
		for _, b := range inner[i:] {
			outer = append(outer, map[string]map[string]int{"p": a, "q": b})
		}
	}
	qual := func(m map[string]int) bool {
		for _, v := range m {
			if v > 0 {
				return true
			}
		}
		return false
	}
	for _, a := range outer {
		for _, b := range outer {
			coll := []map[string]map[string]int{a, b}
			withChoices(0, func() {
				got := gogu.Filter2DMapCollection(coll, qual)
				r.Eval("Filter2DMapCollection")
				var want []int
				for i, m := range coll {
					q := false
					for _, v := range m {
						q = q || qual(v)
					}
					if q {
						want = append(want, i)
					}
				}
				ok := len(got) == len(want)
				for j := range want {
					if ok && fmt.Sprint(got[j]) != fmt.Sprint(coll[want[j]]) {
						ok = false
					}
				}
				if !ok {
					cls := "wrong"
					if len(got) > len(want) {
						cls = "map-kept-more-than-once"
					}
					r.Bad("Filter2DMapCollection/"+cls, fmt.Sprintf("Filter2DMapCollection(%v, some v>0)", coll), "got %v, want positions %v, each once", got, want)
				}
			})
		}
	}
}

func c14SliceToMap(r *R) {
	ks := enum.AllSlices([]string{"a", "b"}, 3)
	vs := enum.AllSlices([]int{0, 1}, 3)
	for _, k := range ks {
		for _, v := range vs {
			// the same two lists as prefixes of longer buffers (spare capacity holding other values): the
			// contract is about lengths, whatever lies behind them
			kk, vv := append(make([]string, 0, len(k)+3), k...), append(make([]int, 0, len(v)+3), v...)
			copy(kk[len(k):cap(kk)], []string{"X", "Y", "Z"})
			copy(vv[len(v):cap(vv)], []int{7, 8, 9})
			var got2 map[string]int
			p2, _ := enum.Try(func() { got2 = gogu.SliceToMap(kk, vv) })
			var got map[string]int
			p, _ := enum.Try(func() { got = gogu.SliceToMap(cp(k), cp(v)) })
			r.Eval("SliceToMap")
			wit := fmt.Sprintf("SliceToMap(%v,%v)", k, v)
			if p2 != p || (!p && !meq(got, got2)) {
				r.Bad("SliceToMap/depends-on-spare-capacity", wit, "with exact slices: panic=%t result %v; as prefixes of longer buffers: panic=%t result %v", p, got, p2, got2)
			}
			if len(k) != len(v) {
				if !p {
					r.Bad("SliceToMap/unequal-lengths-accepted", wit, "returned %v", got)
				}
				continue
			}
			if p {
				r.Bad("SliceToMap/panic-on-equal-lengths", wit, "panicked")
				continue
			}
			want := map[string]int{}
			for i := range k {
				want[k[i]] = v[i]
			}
			if !meq(got, want) {
				r.Bad("SliceToMap/wrong", wit, "got %v, want %v (last wins)", got, want)
			}
			if hasRepeat(k) {
				r.Nontrivial("s2m" + wit)
			}
		}
	}
}

// c14Stateful: the selecting helpers ask their callback exactly once per entry. With a stateful predicate
// ("accept the first j entries I am asked about") the result holds exactly min(j, len) entries of the map
// (which ones depends on the iteration order), the complement helper the others, and the callback has
// been asked len(m) times -- for every map of the family and every j.
func c14Stateful(r *R) {
	for n := 0; n <= 4; n++ {
		m := map[string]int{}
		for i := 0; i < n; i++ {
			m[string(rune('a'+i))] = i + 1
		}
		for j := 0; j <= n+1; j++ {
			type res struct {
				name  string
				got   map[string]int
				calls int
				want  int
			}
			var out []res
			mk := func() (func() bool, *int) {
				c := 0
				return func() bool { c++; return c <= j }, &c
			}
			f, c := mk()
			out = append(out, res{"FilterMap", gogu.FilterMap(mcopy(m), func(int) bool { return f() }), 0, minInt(j, n)})
			out[len(out)-1].calls = *c
			f, c = mk()
			out = append(out, res{"PickBy", gogu.PickBy(mcopy(m), func(string, int) bool { return f() }), 0, minInt(j, n)})
			out[len(out)-1].calls = *c
			f, c = mk()
			out = append(out, res{"OmitBy", gogu.OmitBy(mcopy(m), func(string, int) bool { return f() }), 0, n - minInt(j, n)})
			out[len(out)-1].calls = *c
			for _, o := range out {
				r.Eval(o.name + "/stateful-callback")
				wit := fmt.Sprintf("%s(%s, accept the first %d entries asked about)", o.name, mstr(m), j)
				if o.calls != n {
					r.Bad(o.name+"/callback-not-asked-exactly-once-per-entry", wit, "the callback was asked %d times, want %d", o.calls, n)
					continue
				}
				ok := len(o.got) == o.want
				for k, v := range o.got {
					if mv, in := m[k]; !in || mv != v {
						ok = false
					}
				}
				if !ok {
					r.Bad(o.name+"/wrong-with-stateful-callback", wit, "got %s, want %d entries of the map", mstr(o.got), o.want)
				}
			}
		}
		// the transforming helpers call theirs once per entry too
		calls := 0
		mv := gogu.MapValues(mcopy(m), func(v int) int { calls++; return v*10 + calls - calls })
		r.Eval("MapValues/stateful-callback")
		if calls != n || len(mv) != n {
			r.Bad("MapValues/callback-not-asked-exactly-once-per-entry", fmt.Sprintf("MapValues(%s)", mstr(m)), "callback called %d times, result has %d entries, want %d", calls, len(mv), n)
		}
		calls = 0
		mk2 := gogu.MapKeys(mcopy(m), func(k string, v int) string { calls++; return k + "!" })
		r.Eval("MapKeys/stateful-callback")
		if calls != n || len(mk2) != n {
			r.Bad("MapKeys/callback-not-asked-exactly-once-per-entry", fmt.Sprintf("MapKeys(%s)", mstr(m)), "callback called %d times, result has %d entries, want %d", calls, len(mk2), n)
		}
	}
	r.Nontrivial("stateful-a")
	r.Nontrivial("stateful-b")
}

func minInt(a, b int) int {
	if a < b {
		return a
	}
	return b
}

// c14Reentrant: a callback may itself use the helpers (a predicate that looks something up in another map
// with Find, a transformation that calls Keys): the outer call returns what it returns with a plain
// callback. Whatever a helper keeps between its steps (a pooled key buffer, a package-level scratch map)
// is exposed by the inner call. Every map with <= 3 entries over 3 keys x 3 values, a fixed inner map.
func c14Reentrant(r *R) {
	inner := map[string]int{"p": 1, "q": 2, "r": 0, "s": 3}
	pos := func(v int) bool { return v > 0 }
	disturb := func() {
		gogu.Find(inner, pos)
		gogu.FindKey(inner, pos)
		gogu.Keys(inner)
		gogu.Values(inner)
		gogu.FilterMap(inner, pos)
		gogu.PickBy(inner, func(string, int) bool { return true })
		gogu.MapValues(inner, func(v int) int { return v })
		gogu.Invert(inner)
		gogu.MapUnique(inner)
	}
	var maps []map[string]int
	enum.Maps([]string{"a", "b", "c"}, []int{0, 1, 2}, 3, func(m map[string]int) { maps = append(maps, mcopy(m)) })
	type call struct {
		name string
		f    func(m map[string]int, hook func()) string
	}
	calls := []call{
		{"Find", func(m map[string]int, h func()) string {
			return mstr(gogu.Find(m, func(v int) bool { h(); return v > 0 }))
		}},
		{"FindKey", func(m map[string]int, h func()) string {
			return gogu.FindKey(m, func(v int) bool { h(); return v == 7 }) // no entry qualifies: the answer does not depend on the iteration order
		}},
		{"FindByKey", func(m map[string]int, h func()) string {
			return mstr(gogu.FindByKey(m, func(k string) bool { h(); return k == "b" })) // at most one key qualifies: no dependence on the iteration order
		}},
		{"FilterMap", func(m map[string]int, h func()) string {
			return mstr(gogu.FilterMap(m, func(v int) bool { h(); return v > 0 }))
		}},
		{"PickBy", func(m map[string]int, h func()) string {
			return mstr(gogu.PickBy(m, func(k string, v int) bool { h(); return v > 0 }))
		}},
		{"OmitBy", func(m map[string]int, h func()) string {
			return mstr(gogu.OmitBy(m, func(k string, v int) bool { h(); return v > 0 }))
		}},
		{"MapValues", func(m map[string]int, h func()) string {
			return mstr(gogu.MapValues(m, func(v int) int { h(); return v + 1 }))
		}},
		{"MapKeys", func(m map[string]int, h func()) string {
			return mstr(gogu.MapKeys(m, func(k string, v int) string { h(); return k + "!" }))
		}},
		{"MapEvery", func(m map[string]int, h func()) string {
			return fmt.Sprint(gogu.MapEvery(m, func(v int) bool { h(); return v > 0 }))
		}},
		{"MapSome", func(m map[string]int, h func()) string {
			return fmt.Sprint(gogu.MapSome(m, func(v int) bool { h(); return v > 7 }))
		}},
	}
	for _, m := range maps {
		for _, c := range calls {
			var plain, re string
			p1, _ := enum.Try(func() { plain = c.f(mcopy(m), func() {}) })
			p2, msg := enum.Try(func() { re = c.f(mcopy(m), disturb) })
			r.Eval(c.name + "/re-entrant-callback")
			if p1 != p2 || plain != re {
				r.Bad(c.name+"/re-entrant-callback-changes-the-result", fmt.Sprintf("%s(%s) with a callback that uses the map helpers on another map", c.name, mstr(m)), "got %s (panic=%t %s), with a plain callback %s", re, p2, msg, plain)
			}
		}
	}
	r.Nontrivial("reentrant-a")
	r.Nontrivial("reentrant-b")
}

// c14NaNValues: float values include NaN, which equals nothing, itself included: every NaN entry is a
// distinct value (MapUnique keeps them all, under their own keys), Invert maps it nowhere useful but the
// other entries are untouched, MapContains(NaN) is false, Values/Keys list every entry.
func c14NaNValues(r *R) {
	nan := math.NaN()
	for _, m := range []map[string]float64{
		{"a": nan}, {"a": nan, "b": nan}, {"a": 1, "b": nan}, {"": 2, "a": nan, "b": 2}, {"": nan, "a": 1, "b": 1, "c": nan},
	} {
		wit := fmt.Sprintf("map %v", m)
		in := map[string]float64{}
		for k, v := range m {
			in[k] = v
		}
		u := gogu.MapUnique(in)
		r.Eval("MapUnique/NaN-values")
		nanIn, nanOut := 0, 0
		for _, v := range m {
			if v != v {
				nanIn++
			}
		}
		distinct := map[float64]bool{}
		for k, v := range u {
			if v != v {
				nanOut++
			} else {
				distinct[v] = true
			}
			if mv, ok := m[k]; !ok || (mv != v && (mv == mv || v == v)) {
				r.Bad("MapUnique/entry-not-from-the-map/NaN-values", wit, "MapUnique returned entry %q=%v, which the map does not hold", k, v)
			}
		}
		wantDistinct := map[float64]bool{}
		for _, v := range m {
			if v == v {
				wantDistinct[v] = true
			}
		}
		if nanOut != nanIn || len(distinct) != len(wantDistinct) || len(u) != nanIn+len(wantDistinct) {
			r.Bad("MapUnique/NaN-values", wit, "MapUnique = %v: want one entry per distinct value and every NaN entry (NaN equals nothing)", u)
		}
		if gogu.MapContains(in, nan) {
			r.Bad("MapContains/NaN", wit, "MapContains(NaN) = true")
		}
		if len(gogu.Values(in)) != len(m) || len(gogu.Keys(in)) != len(m) {
			r.Bad("Keys-Values/NaN-values", wit, "Keys/Values list %d/%d entries, want %d", len(gogu.Keys(in)), len(gogu.Values(in)), len(m))
		}
	}
	r.Nontrivial("nan-a")
	r.Nontrivial("nan-b")
}
