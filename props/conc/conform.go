//go:build verif

package main

import (
	"fmt"
	"os"
	"os/exec"
	"runtime"
	"sort"
	"strings"
	"time"

	shim "github.com/esimov/gogu/vrtshim/conformprogs"
	"github.com/esimov/gogu/vrtshim/vrt"
	native "verif/props/conform/progs"
)

// conform: do the shims model the real primitives? The same plain-Go programs (props/conform/progs)
// run (a) natively, free-running, many times with varying GOMAXPROCS, and (b) after vinstr's rewriting
// under the controlled runtime, EVERY schedule. Required: native outcomes are a subset of the explored
// outcomes (the model misses no behaviour the real primitives show), no explored schedule violates an
// in-program assertion, deadlocks or hits the horizon (the model allows nothing the primitives forbid,
// as far as the assertions state it), and a recursive read lock with a writer pending deadlocks in the
// model as it does in Go. Exit 0 / 2 (a failure here is a defect of the machinery, never a VIOLATION).
func conform() int {
	bad := 0
	fmt.Println("conformance of the shims (native outcomes must be among the explored ones)")
	for i, np := range native.All {
		sp := shim.All[i]
		nat := map[string]int{}
		runs := 300
		if np.Timed {
			runs = 5
		}
		for r := 0; r < runs; r++ {
			runtime.GOMAXPROCS(1 + r%4)
			nat[np.F()]++
		}
		runtime.GOMAXPROCS(runtime.NumCPU())
		exp := map[string]int{}
		problems := map[string]bool{}
		var out string
		e := &vrt.Explorer{Horizon: 20000, Quick: false, Budget: 400000, Deadline: time.Now().Add(2 * time.Minute), MaxBound: 3}
		e.Check = func(x *vrt.Exec) {
			exp[out]++
			for t := 0; t < x.NumThreads(); t++ {
				if pm := x.ThreadAt(t).Panic; pm != "" {
					problems["panic: "+pm] = true
				}
			}
			if x.Deadlock {
				problems["deadlock: "+x.DeadlockInfo] = true
			}
			if x.HorizonHit {
				problems["horizon"] = true
			}
			if strings.HasPrefix(out, "ASSERT") {
				problems[out] = true
			}
		}
		e.Explore(func() { out = "(did not finish)"; out = sp.F() })
		var missing []string
		for o := range nat {
			if exp[o] == 0 {
				missing = append(missing, o)
			}
		}
		status := "ok"
		if len(missing) > 0 || len(problems) > 0 || e.Diverged != "" {
			status = "FAIL"
			bad++
		}
		fmt.Printf("  %-4s %-34s native %v | explored %v (%d schedules, complete=%t bound=%d)\n", status, np.Name, keys(nat), keys(exp), e.Execs, e.Complete, e.BoundDone)
		for _, m := range missing {
			fmt.Printf("       native outcome %q is not produced by any explored schedule\n", m)
		}
		for p := range problems {
			fmt.Printf("       explored: %s\n", p)
		}
		if e.Diverged != "" {
			fmt.Printf("       nondeterminism: %s\n", e.Diverged)
		}
	}
	// model-only fact: RLock; (writer Lock pending); RLock again => deadlock (sync.RWMutex documents this)
	dead, total := 0, 0
	e := &vrt.Explorer{Horizon: 20000, Budget: 100000, MaxBound: 3}
	e.Check = func(x *vrt.Exec) {
		total++
		if x.Deadlock {
			dead++
		}
	}
	e.Explore(shim.RecursiveReadLock)
	st := "ok"
	if dead == 0 || dead == total {
		st = "FAIL"
		bad++
	}
	fmt.Printf("  %-4s %-34s %d of %d schedules deadlock (want: some, not all)\n", st, "rwmutex-recursive-rlock", dead, total)
	if bad > 0 {
		fmt.Printf("conformance: %d program(s) FAILED\n", bad)
		return 2
	}
	fmt.Println("conformance: all programs ok")
	return 0
}

func keys(m map[string]int) []string {
	var ks []string
	for k := range m {
		ks = append(ks, k)
	}
	sort.Strings(ks)
	return ks
}

// conformRace (race build only): the same programs are free of data races in Go (checked natively with
// `go test -race` when they were written), so ThreadSanitizer -- which sees the program's own
// synchronisation only through the REAL primitive behind every shim, the scheduler's hand-offs being
// hidden -- must report nothing in any explored schedule. A report here means a shim creates fewer
// happens-before edges than the primitive it models (C01 would then raise false alarms on code that uses
// that primitive correctly).
func conformRace() int {
	if !vrt.RaceBuild {
		fmt.Println("conform-race needs the -race build (bin/conc_race)")
		return 2
	}
	dir := os.Getenv("VERIF_TSAN_DIR")
	if dir == "" {
		// re-exec with a log directory for the race detector
		d, err := os.MkdirTemp("", "verif-conform-")
		if err != nil {
			return 2
		}
		defer os.RemoveAll(d)
		cmd := exec.Command(os.Args[0], "conform-race", "-")
		cmd.Env = append(os.Environ(), "VERIF_TSAN_DIR="+d, "GORACE=halt_on_error=0 exitcode=0 log_path="+d+"/tsan")
		cmd.Stdout, cmd.Stderr = os.Stdout, os.Stderr
		if err := cmd.Run(); err != nil {
			if ee, ok := err.(*exec.ExitError); ok {
				return ee.ExitCode()
			}
			return 2
		}
		return 0
	}
	logPath := fmt.Sprintf("%s/tsan.%d", dir, os.Getpid())
	var off int64
	grown := func() string {
		fi, err := os.Stat(logPath)
		if err != nil || fi.Size() <= off {
			return ""
		}
		f, err := os.Open(logPath)
		if err != nil {
			return ""
		}
		defer f.Close()
		buf := make([]byte, fi.Size()-off)
		f.ReadAt(buf, off)
		off = fi.Size()
		return string(buf)
	}
	bad := 0
	fmt.Println("happens-before conformance of the shims (race build: no report in any schedule of a race-free program)")
	for _, sp := range shim.All {
		if only := os.Getenv("VERIF_CONFORM_ONLY"); only != "" && sp.Name != only {
			continue
		}
		if cs := os.Getenv("VERIF_CONFORM_CHOICES"); cs != "" { // debugging aid: one execution
			var choices []int
			for _, f := range strings.Split(cs, ",") {
				var v int
				fmt.Sscan(f, &v)
				choices = append(choices, v)
			}
			x := vrt.Run(choices, 20000, false, func() { sp.F() })
			vrt.Run(nil, 20000, true, func() {})
			fmt.Println("schedule", x.Schedule(), "\n", grown())
			continue
		}
		var out string
		e := &vrt.Explorer{Horizon: 20000, Quick: false, Budget: 20000, Deadline: time.Now().Add(time.Minute), MaxBound: 2}
		firstBad := ""
		e.Check = func(x *vrt.Exec) {
			if firstBad == "" {
				if fi, err := os.Stat(logPath); err == nil && fi.Size() > off {
					firstBad = fmt.Sprintf("first reported in the execution with schedule (thread ids) %v, choices %v", x.Schedule(), e.LastChoices)
				}
			}
		}
		e.Explore(func() { out = sp.F() })
		vrt.Run(nil, 20000, true, func() {}) // let the detector flush reports of the torn-down execution
		_ = out
		rep := grown()
		st := "ok"
		if strings.Contains(rep, "DATA RACE") != sp.Racy {
			st = "FAIL"
			bad++
		}
		note := ""
		if sp.Racy {
			note = " (racy on purpose: a report is required)"
			if st == "FAIL" {
				note = " (racy on purpose, but NO schedule produced a report: the model synchronises more than Go does)"
			}
		}
		fmt.Printf("  %-4s %-40s %d schedules%s\n", st, sp.Name, e.Execs, note)
		if st == "FAIL" && !sp.Racy {
			fmt.Println("       " + firstBad)
			lines := strings.Split(rep, "\n")
			if len(lines) > 24 {
				lines = lines[:24]
			}
			fmt.Println("       " + strings.Join(lines, "\n       "))
		}
	}
	if bad > 0 {
		fmt.Printf("happens-before conformance: %d program(s) FAILED\n", bad)
		return 2
	}
	fmt.Println("happens-before conformance: all programs ok")
	return 0
}

func init() {
	subcommands["conform"] = func(string) { os.Exit(conform()) }
	subcommands["conform-race"] = func(string) { os.Exit(conformRace()) }
}
