package main

import (
	"encoding/json"
	"fmt"
	"math"
	"sort"
	"strings"
	"time"

	"github.com/esimov/gogu/bstree"
	"github.com/esimov/gogu/cache"
	"github.com/esimov/gogu/heap"
	"github.com/esimov/gogu/list"
	"github.com/esimov/gogu/queue"
	"github.com/esimov/gogu/stack"
	"github.com/esimov/gogu/trie"
	"verif/core"
)

// Phase-structured ("long-run") histories. The BFS of each container is exhaustive under a small
// size cap; what it cannot reach are behaviours that depend on a size or a count crossing a threshold
// (a ring buffer that is exactly full, a backing array that shrinks at a quarter of its capacity, a
// lookup cache that is flushed every eighth call, a map that is rebuilt after 64 deletions). These
// families enumerate EVERY history of a given phase structure — each phase repeats one operation, and
// every combination of phase lengths up to L is executed — and compare the real object with the
// reference model. They are exhaustive within the stated family, not samples.

type lrPhase struct {
	Op string `json:"op"`
	N  int    `json:"n"`
}

func lrWitness(comp string, ph []lrPhase) (string, map[string]any) {
	var s []string
	for _, p := range ph {
		s = append(s, fmt.Sprintf("%s x%d", p.Op, p.N))
	}
	return comp + ": " + strings.Join(s, "; "), map[string]any{"engine": "long-run", "component": comp, "phases": ph}
}

type lrFail func(key, format string, a ...any)

// ---------------------------------------------------------------- queues

func lrQueue(comp string, ph []lrPhase, fail lrFail) {
	var q fifo
	var model []int
	next := 1
	if comp == "Queue" {
		q = sliceQ{queue.New[int]()}
	} else {
		q = linkedQ{queue.NewLinked[int](next)}
		model = append(model, next)
		next++
	}
	var gone []int
	for _, p := range ph {
		for i := 0; i < p.N; i++ {
			switch p.Op {
			case "Enqueue":
				q.Enqueue(next)
				model = append(model, next)
				next++
			case "Dequeue":
				v, ok := q.Dequeue()
				if len(model) == 0 {
					if ok && q.ReportsEmpty() || v != 0 {
						fail(comp+".Dequeue/long-run/empty-not-reported", "Dequeue on an empty queue returned (%d, ok=%t)", v, ok)
						return
					}
					continue
				}
				if !ok || v != model[0] {
					fail(comp+".Dequeue/long-run/not-fifo", "Dequeue returned (%d, ok=%t), want %d", v, ok, model[0])
					return
				}
				gone = append(gone, model[0])
				model = model[1:]
			case "Clear":
				q.Clear()
				gone = append(gone, model...)
				model = nil
			}
		}
	}
	if n := q.Size(); n != len(model) {
		fail(comp+".Size/long-run/wrong", "Size = %d, want %d", n, len(model))
		return
	}
	if len(model) > 0 {
		if v := q.Peek(); v != model[0] {
			fail(comp+".Peek/long-run/not-next-dequeue", "Peek = %d, want %d", v, model[0])
			return
		}
	}
	for _, v := range model {
		if !q.Search(v) {
			fail(comp+".Search/long-run/reports-false-for-held", "Search(%d) = false although it is held (held %d..%d)", v, model[0], model[len(model)-1])
			return
		}
	}
	for i, v := range gone {
		if i >= 3 && i < len(gone)-3 {
			continue
		}
		if q.Search(v) {
			fail(comp+".Search/long-run/reports-true-for-dequeued", "Search(%d) = true although it was dequeued", v)
			return
		}
	}
	if q.Search(next + 7) {
		fail(comp+".Search/long-run/reports-true-for-absent", "Search(%d) = true for a value never enqueued", next+7)
		return
	}
	for _, want := range model {
		v, ok := q.Dequeue()
		if !ok || v != want {
			fail(comp+".Dequeue/long-run/drain-not-fifo", "draining: Dequeue returned (%d, ok=%t), want %d", v, ok, want)
			return
		}
	}
	if n := q.Size(); n != 0 {
		fail(comp+".Size/long-run/nonzero-after-drain", "Size = %d after a full drain", n)
	}
}

// ---------------------------------------------------------------- stacks

const lrProbe = -5 // the value the "same question asked again much later" families ask about

func lrStack(comp string, ph []lrPhase, fail lrFail) {
	var s lifo
	var model []int
	next := 1
	if comp == "Stack" {
		s = stack.New[int]()
	} else {
		s = stack.NewLinked[int](next)
		model = append(model, next)
		next++
	}
	// LStack.Pop's returned value with >= 2 elements is a recorded finding (C06): only its effect is compared there
	popValue := func(got, want, sizeBefore int) bool {
		return got == want || (comp == "LStack" && sizeBefore >= 2)
	}
	check := func() bool {
		if n := s.Size(); n != len(model) {
			fail(comp+".Size/long-run/wrong", "Size = %d, want %d", n, len(model))
			return false
		}
		want := 0
		if len(model) > 0 {
			want = model[len(model)-1]
		}
		if v := s.Peek(); v != want {
			fail(comp+".Peek/long-run/not-the-top", "Peek = %d, want %d (size %d)", v, want, len(model))
			return false
		}
		if s.Search(0) {
			fail(comp+".Search/long-run/reports-true-for-absent-zero-value", "Search(0) = true although 0 was never pushed (size %d)", len(model))
			return false
		}
		return true
	}
	for _, p := range ph {
		for i := 0; i < p.N; i++ {
			switch p.Op {
			case "Push":
				s.Push(next)
				model = append(model, next)
				next++
			case "PushProbe": // a fixed value, pushed as often as the phase says
				s.Push(lrProbe)
				model = append(model, lrProbe)
			case "SearchProbe":
				held := false
				for _, m := range model {
					held = held || m == lrProbe
				}
				if got := s.Search(lrProbe); got != held {
					fail(comp+".Search/long-run/stale-answer", "Search(%d) = %t, held = %t (size %d)", lrProbe, got, held, len(model))
					return
				}
			case "Cycle": // Push then Pop of another value: the contents are the same afterwards, the history is longer
				s.Push(lrProbe + 1)
				if v := s.Pop(); !popValue(v, lrProbe+1, len(model)+1) {
					fail(comp+".Pop/long-run/not-lifo", "Pop right after Push(%d) returned %d", lrProbe+1, v)
					return
				}
			case "Pop", "PopChecked":
				v := s.Pop()
				if len(model) == 0 {
					if v != 0 {
						fail(comp+".Pop/long-run/empty-returns-nonzero", "Pop on an empty stack returned %d", v)
						return
					}
				} else {
					if !popValue(v, model[len(model)-1], len(model)) {
						fail(comp+".Pop/long-run/not-lifo", "Pop returned %d, want %d (size before %d)", v, model[len(model)-1], len(model))
						return
					}
					model = model[:len(model)-1]
				}
				if p.Op == "PopChecked" && !check() {
					return
				}
			}
		}
	}
	if !check() {
		return
	}
	for _, v := range model {
		if !s.Search(v) {
			fail(comp+".Search/long-run/reports-false-for-held", "Search(%d) = false although it is held", v)
			return
		}
	}
	if s.Search(next) {
		fail(comp+".Search/long-run/reports-true-for-absent", "Search(%d) = true for a value never pushed", next)
		return
	}
	for len(model) > 0 {
		v := s.Pop()
		if !popValue(v, model[len(model)-1], len(model)) {
			fail(comp+".Pop/long-run/drain-not-lifo", "draining: Pop returned %d, want %d", v, model[len(model)-1])
			return
		}
		model = model[:len(model)-1]
	}
	check()
}

// ---------------------------------------------------------------- element type any

// lrAnyElems: the containers instantiated with an INTERFACE element type, holding values of several dynamic
// types and nil (an implementation detail that cannot hold nil or mixed types -- atomic.Value, a typed
// sentinel -- shows here). Every sequence of pushes over the value list up to length 3, then a full drain,
// then one more push/pop.
func lrAnyElems(rep *core.Report, only ...string) {
	vals := []any{1, "a", nil, 2.5, true}
	type cont struct {
		name string
		mk   func(first any) (push func(any), pop func() any, peek func() any, size func() int, search func(any) bool)
		fifo bool
	}
	conts := []cont{
		{"Stack", func(first any) (func(any), func() any, func() any, func() int, func(any) bool) {
			s := stack.New[any]()
			s.Push(first)
			return s.Push, s.Pop, s.Peek, s.Size, s.Search
		}, false},
		{"Queue", func(first any) (func(any), func() any, func() any, func() int, func(any) bool) {
			q := queue.New[any]()
			q.Enqueue(first)
			return q.Enqueue, func() any { v, _ := q.Dequeue(); return v }, q.Peek, q.Size, q.Search
		}, true},
		{"LQueue", func(first any) (func(any), func() any, func() any, func() int, func(any) bool) {
			q := queue.NewLinked[any](first)
			return q.Enqueue, q.Dequeue, q.Peek, q.Size, q.Search
		}, true},
	}
	n := 0
	for _, ct := range conts {
		use := false
		for _, o := range only {
			use = use || o == ct.name
		}
		if !use {
			continue
		}
		var seqs [][]any
		var gen func(cur []any)
		gen = func(cur []any) {
			if len(cur) >= 1 {
				seqs = append(seqs, append([]any{}, cur...))
			}
			if len(cur) == 3 {
				return
			}
			for _, v := range vals {
				gen(append(cur, v))
			}
		}
		gen(nil)
		for _, sq := range seqs {
			n++
			wit := fmt.Sprintf("%s[any]: push %v, drain, push/pop once more", ct.name, sq)
			func() {
				defer func() {
					if r := recover(); r != nil {
						rep.Add(ct.name+"/element-type-any/panic", fmt.Sprintf("panic: %v", r), wit, nil)
					}
				}()
				push, pop, peek, size, search := ct.mk(sq[0])
				for _, v := range sq[1:] {
					push(v)
				}
				if size() != len(sq) {
					rep.Add(ct.name+".Size/element-type-any", fmt.Sprintf("Size = %d, want %d", size(), len(sq)), wit, nil)
					return
				}
				for i := range sq {
					want := sq[len(sq)-1-i]
					if ct.fifo {
						want = sq[i]
					}
					if want != nil && !search(want) {
						rep.Add(ct.name+".Search/element-type-any", fmt.Sprintf("Search(%v) = false although it is held", want), wit, nil)
						return
					}
					if g := peek(); g != want {
						rep.Add(ct.name+".Peek/element-type-any", fmt.Sprintf("Peek = %v, want %v", g, want), wit, nil)
						return
					}
					if g := pop(); g != want {
						rep.Add(ct.name+".Pop/element-type-any", fmt.Sprintf("removal %d returned %v, want %v", i+1, g, want), wit, nil)
						return
					}
				}
				if ct.name != "LQueue" { // the linked queue keeps its first node
					if size() != 0 {
						rep.Add(ct.name+".Size/element-type-any", fmt.Sprintf("Size = %d after a full drain", size()), wit, nil)
						return
					}
					push("again")
					if g := pop(); g != "again" || size() != 0 {
						rep.Add(ct.name+".Pop/element-type-any", fmt.Sprintf("after a drain: push then removal returned %v (Size %d)", g, size()), wit, nil)
					}
				}
			}()
		}
	}
	rep.Inc("transitions", n*8)
}

// ---------------------------------------------------------------- LRU

// phases: Add xN adds N fresh keys; Get xN looks up key I (the I-th oldest live key) N times;
// Cycle xN does Add(k)+Remove(k) N times on a fresh key.
func lrLRU(capacity int, ph []lrPhase, fail lrFail) {
	c, err := cache.NewLRU[int, int](capacity)
	if err != nil {
		fail("LRU.NewLRU/long-run/error", "NewLRU(%d): %v", capacity, err)
		return
	}
	var model []int // most recent first
	next := 1
	comp := "LRU"
	touch := func(i int) {
		k := model[i]
		copy(model[1:i+1], model[:i])
		model[0] = k
	}
	for _, p := range ph {
		for i := 0; i < p.N; i++ {
			switch {
			case p.Op == "Add":
				k := next
				next++
				gk, _, removed := c.Add(k, k*10)
				model = append([]int{k}, model...)
				if len(model) > capacity {
					ev := model[len(model)-1]
					model = model[:len(model)-1]
					if !removed || gk != ev {
						fail(comp+".Add/long-run/evicts-wrong-entry", "Add(%d) to a full cache evicted (%d, removed=%t), want the least recently used %d", k, gk, removed, ev)
						return
					}
					if _, ok := c.Get(ev); ok { // a miss does not touch recency
						fail(comp+".Get/long-run/evicted-key-found", "Get(%d) finds a key that was just evicted", ev)
						return
					}
				} else if removed {
					fail(comp+".Add/long-run/spurious-eviction", "Add(%d) below capacity reported an eviction", k)
					return
				}
			case strings.HasPrefix(p.Op, "Get"):
				if len(model) == 0 {
					continue
				}
				var idx int
				fmt.Sscanf(p.Op, "Get#%d", &idx)
				i := len(model) - 1 - idx%len(model) // idx-th oldest
				k := model[i]
				v, ok := c.Get(k)
				if !ok || v != k*10 {
					fail(comp+".Get/long-run/live-key-wrong", "Get(%d) = (%d,%t), want (%d,true)", k, v, ok, k*10)
					return
				}
				touch(i)
			case p.Op == "Flush":
				c.Flush()
				model = nil
				if _, _, ok := c.GetOldest(); ok {
					fail(comp+".GetOldest/long-run/reports-an-entry-in-an-empty-cache", "GetOldest reports an entry right after Flush")
					return
				}
				if _, _, ok := c.GetYoungest(); ok {
					fail(comp+".GetYoungest/long-run/reports-an-entry-in-an-empty-cache", "GetYoungest reports an entry right after Flush")
					return
				}
			case p.Op == "RemoveOldest" || p.Op == "RemoveYoungest" || p.Op == "RemoveKey":
				var k, v int
				var ok bool
				want := -1
				if len(model) > 0 {
					want = model[len(model)-1]
					if p.Op != "RemoveOldest" {
						want = model[0]
					}
				}
				switch p.Op {
				case "RemoveOldest":
					k, v, ok = c.RemoveOldest()
				case "RemoveYoungest":
					k, v, ok = c.RemoveYoungest()
				default:
					if want < 0 {
						continue
					}
					k = want
					v, ok = c.Remove(want)
				}
				if want < 0 {
					if ok || k != 0 || v != 0 {
						fail(comp+"."+p.Op+"/long-run/empty-cache-reports-an-entry", "%s on an empty cache = (%d,%d,%t)", p.Op, k, v, ok)
						return
					}
					continue
				}
				if !ok || k != want || v != want*10 {
					fail(comp+"."+p.Op+"/long-run/wrong-entry", "%s = (%d,%d,%t), want (%d,%d,true) (count before %d)", p.Op, k, v, ok, want, want*10, len(model))
					return
				}
				if p.Op == "RemoveOldest" {
					model = model[:len(model)-1]
				} else {
					model = model[1:]
				}
			case p.Op == "Cycle":
				k := next
				next++
				c.Add(k, k*10)
				if len(model) >= capacity {
					model = model[:capacity-1]
				}
				if _, ok := c.Remove(k); !ok {
					fail(comp+".Remove/long-run/live-key-not-removed", "Remove(%d) = false right after Add", k)
					return
				}
				if _, ok := c.Get(k); ok {
					fail(comp+".Get/long-run/removed-key-found", "Get(%d) finds a key that was just removed", k)
					return
				}
			}
			if n := c.Count(); n != len(model) {
				fail(comp+".Count/long-run/wrong", "Count = %d, want %d", n, len(model))
				return
			}
		}
	}
	// drain by RemoveOldest: exactly the model, least recent first
	for i := len(model) - 1; i >= 0; i-- {
		k, v, ok := c.RemoveOldest()
		if !ok || k != model[i] || v != model[i]*10 {
			fail(comp+".recency-order/long-run/drain-disagrees-with-model", "RemoveOldest = (%d,%d,%t), want key %d (model, most recent first: %v)", k, v, ok, model[i], model)
			return
		}
	}
	if n := c.Count(); n != 0 {
		fail(comp+".Count/long-run/nonzero-after-drain", "Count = %d after draining", n)
	}
}

// ---------------------------------------------------------------- heap

// phases: Push<shape> xN pushes N values of a shape (asc, desc, eq, zig), Pop xN pops.
func lrHeap(cmp string, ph []lrPhase, fail lrFail) {
	less := hComps[cmp]
	h := heap.NewHeap(less)
	var model []hE
	seq := 0
	comp := "Heap"
	// heap.Delete on a heap of >= 4 elements may leave an array that is not a heap (recorded finding,
	// pinned by the suite): from then on a failure of ORDER is that finding; sizes, the multiset and
	// what Delete reports are judged as always
	tainted := false
	orderKey := func(k string) string {
		if tainted {
			return "Heap.order/after-Delete(held,size=>=4)/pop-sequence-out-of-order"
		}
		return k
	}
	for _, p := range ph {
		for i := 0; i < p.N; i++ {
			switch p.Op {
			case "Pop":
				got := h.Pop()
				if len(model) == 0 {
					if got != (hE{}) {
						fail(comp+".Pop/long-run/empty-returns-nonzero", "Pop on an empty heap returned %v", got)
						return
					}
					continue
				}
				bi := -1
				for j, m := range model {
					if m == got {
						bi = j
					}
					if less(m, got) {
						fail(orderKey(comp+".Pop/long-run/not-extremal"), "Pop returned %v although %v precedes it under %s (size %d)", got, m, cmp, len(model))
						return
					}
				}
				if bi < 0 {
					fail(comp+".Pop/long-run/returns-element-not-held", "Pop returned %v, which is not held", got)
					return
				}
				model = append(model[:bi], model[bi+1:]...)
			case "Clear":
				h.Clear()
				model = nil
				tainted = false
			case "DeleteOldest", "DeleteNewest": // a successful Delete of an element known to be held
				if len(model) == 0 {
					continue
				}
				j := 0
				if p.Op == "DeleteNewest" {
					j = len(model) - 1
				}
				if len(model) >= 4 {
					tainted = true
				}
				ok, err := h.Delete(model[j])
				if !ok || err != nil {
					fail(comp+".Delete/long-run/held-element-not-deleted", "Delete(%v) = (%t, %v) although the element is held (size %d)", model[j], ok, err, len(model))
					return
				}
				model = append(model[:j:j], model[j+1:]...)
			default:
				seq++
				var k int
				switch p.Op {
				case "PushAsc":
					k = seq
				case "PushDesc":
					k = 10000 - seq
				case "PushEq":
					k = 5
				case "PushZig":
					k = 5000 + (seq%2*2-1)*seq
				}
				e := hE{k, seq % 2}
				h.Push(e)
				model = append(model, e)
			}
			if n := h.Size(); n != len(model) {
				fail(comp+".Size/long-run/wrong", "Size = %d, want %d", n, len(model))
				return
			}
		}
	}
	if msg := drainCheck(h, less, model); msg != "" {
		k := comp + ".order/long-run/pop-sequence-" + drainCls(msg)
		if drainCls(msg) == "out-of-order" {
			k = orderKey(k)
		}
		fail(k, "%s", msg)
	}
}

// ---------------------------------------------------------------- driver

func lrRun(rep *core.Report, comp string, phases [][]lrPhase, run func(ph []lrPhase, fail lrFail)) {
	n, ops := 0, 0
	for _, ph := range phases {
		ph := ph
		n++
		for _, p := range ph {
			ops += p.N
		}
		func() {
			defer func() {
				if r := recover(); r != nil {
					w, rp := lrWitness(comp, ph)
					rep.Add(comp+"/long-run/panic", fmt.Sprintf("panic: %v", r), w, rp)
				}
			}()
			run(ph, func(key, format string, a ...any) {
				w, rp := lrWitness(comp, ph)
				rep.Add(key, fmt.Sprintf(format, a...), w, rp)
			})
		}()
		if n%5000 == 1 {
			w, _ := lrWitness(comp, ph)
			rep.Sample("long-run " + w)
		}
	}
	rep.Inc("transitions", ops)
	rep.Inc("traces_validated_against_impl", ops)
	rep.Inc("long_run_histories", n)
}

func lrTriples(a, b, c string, L1, L2, L3 int, kLEn bool) [][]lrPhase {
	var out [][]lrPhase
	for n := 0; n <= L1; n++ {
		for k := 0; k <= L2; k++ {
			if kLEn && k > n+1 {
				break
			}
			for m := 0; m <= L3; m++ {
				out = append(out, []lrPhase{{a, n}, {b, k}, {c, m}})
			}
		}
	}
	return out
}

func init() {
	extras["C05"] = func(rep *core.Report) {
		L := 40
		if thorough {
			L = 72
		}
		for _, comp := range []string{"Queue", "LQueue"} {
			comp := comp
			lrRun(rep, comp, lrTriples("Enqueue", "Dequeue", "Enqueue", L, L, L, true), func(ph []lrPhase, fail lrFail) { lrQueue(comp, ph, fail) })
			// a reused instance: grown, cleared, refilled a little, drained (what is kept across Clear?)
			var hs [][]lrPhase
			for n := 0; n <= 2*L; n += 1 + n/24 {
				for m := 0; m <= 12; m++ {
					for _, k := range []int{0, 1, m, m + 1} {
						hs = append(hs, []lrPhase{{"Enqueue", n}, {"Clear", 1}, {"Enqueue", m}, {"Dequeue", k}, {"Enqueue", 2}})
					}
				}
			}
			lrRun(rep, comp, hs, func(ph []lrPhase, fail lrFail) { lrQueue(comp, ph, fail) })
		}
		lrAnyElems(rep, "Queue", "LQueue")
		rep.Set("long_run_family", fmt.Sprintf("every history Enqueue^n Dequeue^k Enqueue^m with n,m <= %d, k <= n+1, both implementations", L))
	}
	extras["C06"] = func(rep *core.Report) {
		lrAnyElems(rep, "Stack")
		L, deep, deepL := 32, 1400, 160
		if thorough {
			L, deep, deepL = 64, 2400, 300
		}
		for _, comp := range []string{"Stack", "LStack"} {
			comp := comp
			lrRun(rep, comp, lrTriples("Push", "Pop", "Push", L, L, L, true), func(ph []lrPhase, fail lrFail) { lrStack(comp, ph, fail) })
			// deep: push n, then pop everything with Size/Peek/Search(0) checked after every single Pop
			d := deep
			if comp == "LStack" {
				d = deepL // the linked stack walks its list on every Push
			}
			var hs [][]lrPhase
			for n := 1; n <= d; n++ {
				if comp == "Stack" && n > 300 && n%7 != 0 && n&(n-1) != 0 && (n-1)&(n-2) != 0 {
					continue // beyond 300: every 7th size and the sizes around powers of two
				}
				hs = append(hs, []lrPhase{{"Push", n}, {"PopChecked", n + 1}})
			}
			lrRun(rep, comp, hs, func(ph []lrPhase, fail lrFail) { lrStack(comp, ph, fail) })
			// the same question asked again after a long history that leaves the contents (almost) as they
			// were: N push/pop cycles with N around 2^7 and 2^15 (8- and 16-bit modification counters wrap)
			hs = nil
			for _, N := range []int{126, 127, 128, 129, 254, 255, 256, 32766, 32767, 32768, 32769} {
				for p := 1; p <= 2; p++ {
					hs = append(hs, []lrPhase{{"Push", 1}, {"SearchProbe", 1}, {"PushProbe", p}, {"Cycle", N}, {"SearchProbe", 1}})
				}
				for q := 0; q <= 1; q++ {
					hs = append(hs, []lrPhase{{"Push", 1}, {"PushProbe", 1}, {"SearchProbe", 1}, {"Pop", 1}, {"Push", q}, {"Cycle", N}, {"SearchProbe", 1}})
				}
			}
			lrRun(rep, comp, hs, func(ph []lrPhase, fail lrFail) { lrStack(comp, ph, fail) })
		}
		rep.Set("long_run_family", fmt.Sprintf("every history Push^n Pop^k Push^m with n,m <= %d, k <= n+1; Push^n then n+1 checked Pops for n <= %d (Stack; every n <= 300, then every 7th and around powers of two) / %d (LStack)", L, deep, deepL))
	}
	prev := extras["C07"]
	extras["C07"] = func(rep *core.Report) {
		if prev != nil {
			prev(rep)
		}
		G, A := 20, 150
		if thorough {
			G, A = 40, 400
		}
		for capacity := 1; capacity <= 3; capacity++ {
			capacity := capacity
			var hs [][]lrPhase
			for a := 1; a <= capacity+1; a++ { // fill (and overfill by one)
				for idx := 0; idx < capacity; idx++ { // which live key is looked up, by age
					for g := 0; g <= G; g++ { // how many times in a row
						for idx2 := 0; idx2 < capacity; idx2++ {
							for g2 := 0; g2 <= 2; g2++ {
								hs = append(hs, []lrPhase{{"Add", a}, {fmt.Sprintf("Get#%d", idx), g}, {fmt.Sprintf("Get#%d", idx2), g2}, {"Add", 2}})
							}
						}
					}
				}
			}
			for a := 0; a <= A; a += 1 {
				hs = append(hs, []lrPhase{{"Add", a}})
			}
			for r := 0; r <= A; r++ {
				for pre := 0; pre <= capacity; pre++ {
					hs = append(hs, []lrPhase{{"Add", pre}, {"Cycle", r}, {"Add", 2}})
				}
			}
			lrRun(rep, fmt.Sprintf("LRU(cap=%d)", capacity), hs, func(ph []lrPhase, fail lrFail) { lrLRU(capacity, ph, fail) })
		}
		// large capacities: fill to n, then drain by one of the three removals (every returned entry
		// compared), or flush and look at the empty cache, then use it again
		for _, capacity := range []int{40, 130, 260} {
			capacity := capacity
			var hs [][]lrPhase
			for n := 0; n <= capacity+2; n += 1 + n/20 {
				for _, rm := range []string{"RemoveOldest", "RemoveYoungest", "RemoveKey"} {
					hs = append(hs, []lrPhase{{"Add", n}, {rm, n + 1}, {"Add", 3}, {rm, 2}})
				}
				hs = append(hs, []lrPhase{{"Add", n}, {"Flush", 1}, {"Add", 3}, {"RemoveOldest", 1}, {"Flush", 1}, {"RemoveYoungest", 1}})
			}
			lrRun(rep, fmt.Sprintf("LRU(cap=%d)", capacity), hs, func(ph []lrPhase, fail lrFail) { lrLRU(capacity, ph, fail) })
		}
		// very large capacities (a 16-bit field, a pre-sizing clamp): the cache holds exactly `capacity`
		// entries, the first eviction comes with Add number capacity+1 and takes the first key
		for _, capacity := range []int{4095, 4096, 4097, 65535, 65536, 65537, 70000} {
			c, err := cache.NewLRU[int, int](capacity)
			wit := fmt.Sprintf("LRU(cap=%d): Add x%d", capacity, capacity+2)
			if err != nil {
				rep.Add("LRU.NewLRU/long-run/error", fmt.Sprintf("NewLRU(%d): %v", capacity, err), wit, nil)
				continue
			}
			for k := 1; k <= capacity+2; k++ {
				gk, _, removed := c.Add(k, k*10)
				if want := k > capacity; removed != want || (removed && gk != k-capacity) {
					rep.Add("LRU.Add/long-run/evicts-wrong-entry", fmt.Sprintf("LRU(cap=%d): Add number %d reported eviction=(%d,%t), want evicted=%t (key %d)", capacity, k, gk, removed, want, k-capacity), wit, nil)
					break
				}
			}
			if n := c.Count(); n != capacity {
				rep.Add("LRU.Count/long-run/wrong", fmt.Sprintf("LRU(cap=%d) after %d Adds: Count = %d", capacity, capacity+2, n), wit, nil)
			}
			if k, _, ok := c.GetOldest(); !ok || k != 3 {
				rep.Add("LRU.GetOldest/long-run/wrong-entry", fmt.Sprintf("LRU(cap=%d) after %d Adds: GetOldest = (%d,%t), want key 3", capacity, capacity+2, k, ok), wit, nil)
			}
			rep.Inc("transitions", capacity+4)
		}
		rep.Set("long_run_family", fmt.Sprintf("capacity 1..3: fill, one live key looked up g <= %d times in a row, another <= 2 times, two more Adds; up to %d consecutive Adds of fresh keys; up to %d Add+Remove cycles", G, A, A))
	}
	prev3 := extras["C03"]
	extras["C03"] = func(rep *core.Report) {
		if prev3 != nil {
			prev3(rep)
		}
		L := 48
		if thorough {
			L = 140
		}
		for _, cmp := range []string{"<", ">"} {
			cmp := cmp
			var hs [][]lrPhase
			for _, shape := range []string{"PushAsc", "PushDesc", "PushEq", "PushZig"} {
				for _, shape2 := range []string{"PushAsc", "PushDesc"} {
					for n := 0; n <= L; n += 1 + n/16 {
						for k := 0; k <= n; k += 1 + k/8 {
							for m := 0; m <= L/2; m += 1 + m/8 {
								hs = append(hs, []lrPhase{{shape, n}, {"Pop", k}, {shape2, m}})
							}
						}
					}
				}
			}
			// a reused instance: grown to n, cleared (or drained), refilled with a few, then removals --
			// whatever a removal assumes about the relation between length and capacity
			for _, shape := range []string{"PushAsc", "PushDesc"} {
				for n := 0; n <= 3*L; n += 1 + n/12 {
					for m := 0; m <= 10; m++ {
						for _, rm := range []string{"Pop", "DeleteOldest", "DeleteNewest"} {
							for _, k := range []int{1, 2, m + 1} {
								hs = append(hs, []lrPhase{{shape, n}, {"Clear", 1}, {"PushZig", m}, {rm, k}, {"PushAsc", 2}})
							}
						}
					}
				}
				// removals by Delete while shrinking from n
				for n := 0; n <= L; n += 1 + n/16 {
					for k := 0; k <= n+1; k += 1 + k/8 {
						hs = append(hs, []lrPhase{{shape, n}, {"DeleteOldest", k}, {"PushDesc", 3}}, []lrPhase{{shape, n}, {"DeleteNewest", k}, {"Pop", 2}})
					}
				}
			}
			lrRun(rep, "Heap("+cmp+")", hs, func(ph []lrPhase, fail lrFail) { lrHeap(cmp, ph, fail) })
		}
	}
	for _, p := range []string{"C03", "C05", "C06", "C07"} {
		p := p
		old := extraReplay[p]
		extraReplay[p] = func(key string, raw json.RawMessage) int {
			var r struct {
				Engine    string    `json:"engine"`
				Component string    `json:"component"`
				Phases    []lrPhase `json:"phases"`
			}
			if json.Unmarshal(raw, &r) != nil || r.Engine != "long-run" {
				if old != nil {
					return old(key, raw)
				}
				return 2
			}
			hit := false
			fail := func(k, format string, a ...any) {
				fmt.Printf("  FAIL %s: %s\n", k, fmt.Sprintf(format, a...))
				hit = hit || k == key
			}
			w, _ := lrWitness(r.Component, r.Phases)
			fmt.Println("replay long-run", w)
			func() {
				defer func() {
					if rr := recover(); rr != nil {
						fmt.Printf("  FAIL %s/long-run/panic: %v\n", r.Component, rr)
						hit = hit || strings.HasSuffix(key, "/long-run/panic")
					}
				}()
				switch {
				case r.Component == "Queue" || r.Component == "LQueue":
					lrQueue(r.Component, r.Phases, fail)
				case r.Component == "Stack" || r.Component == "LStack":
					lrStack(r.Component, r.Phases, fail)
				case strings.HasPrefix(r.Component, "LRU(cap="):
					var c int
					fmt.Sscanf(r.Component, "LRU(cap=%d)", &c)
					lrLRU(c, r.Phases, fail)
				case strings.HasPrefix(r.Component, "Heap("):
					lrHeap(r.Component[5:6], r.Phases, fail)
				}
			}()
			if hit {
				return 1
			}
			fmt.Println("  not reproduced")
			return 0
		}
	}
}

// ---------------------------------------------------------------- more families (round 3 of the seeded changes)

func init() {
	// C04: many keys. Every n up to N keys inserted ascending, descending or outside-in, then a full
	// Traverse (a traversal that hands items over in batches only shows its seams beyond a batch), lookups,
	// deletion of every second key and another Traverse.
	prev4 := extras["C04"]
	extras["C04"] = func(rep *core.Report) {
		if prev4 != nil {
			prev4(rep)
		}
		N := 400
		if thorough {
			N = 1500
		}
		trans := 0
		for n := 1; n <= N; n += 1 + n/40 {
			for shape := 0; shape < 3; shape++ {
				keys := make([]int, n)
				for i := range keys {
					switch shape {
					case 0:
						keys[i] = i
					case 1:
						keys[i] = n - 1 - i
					default: // outside-in: 0, n-1, 1, n-2, ...
						if i%2 == 0 {
							keys[i] = i / 2
						} else {
							keys[i] = n - 1 - i/2
						}
					}
				}
				t := bstree.New[int, string](func(a, b int) bool { return a < b })
				for _, k := range keys {
					t.Upsert(k, fmt.Sprint("v", k))
				}
				trans += n
				wit := fmt.Sprintf("BsTree: %d keys upserted in order shape %d (0 ascending, 1 descending, 2 outside-in)", n, shape)
				chk := func(stage string, present func(k int) bool) bool {
					var got []int
					bad := ""
					t.Traverse(func(it bstree.Item[int, string]) {
						got = append(got, it.Key)
						if it.Val != fmt.Sprint("v", it.Key) && bad == "" {
							bad = fmt.Sprintf("key %d carries value %q", it.Key, it.Val)
						}
					})
					want := 0
					for k := 0; k < n; k++ {
						if present(k) {
							if want >= len(got) || got[want] != k {
								bad = fmt.Sprintf("position %d: want key %d", want, k)
								break
							}
							want++
						}
					}
					if bad == "" && want != len(got) {
						bad = fmt.Sprintf("visited %d items, want %d", len(got), want)
					}
					if bad != "" {
						rep.Add("BsTree.Traverse/differs-from-ordered-map/many-keys", fmt.Sprintf("%s, %s: %s", wit, stage, bad), wit, nil)
						return false
					}
					for k := -1; k <= n; k += 1 + n/50 {
						it, err := t.Get(k)
						if p := k >= 0 && k < n && present(k); p != (err == nil) || (p && it.Val != fmt.Sprint("v", k)) {
							rep.Add("BsTree.Get/many-keys", fmt.Sprintf("%s, %s: Get(%d) = (%v, %v)", wit, stage, k, it, err), wit, nil)
							return false
						}
					}
					return true
				}
				if !chk("after the upserts", func(int) bool { return true }) {
					continue
				}
				for k := 0; k < n; k += 2 {
					if err := t.Delete(k); err != nil {
						rep.Add("BsTree.Delete/present-key-reported-not-found/many-keys", fmt.Sprintf("%s: Delete(%d) = %v", wit, k, err), wit, nil)
						break
					}
				}
				trans += n / 2
				chk("after deleting every second key", func(k int) bool { return k%2 == 1 })
			}
		}
		rep.Inc("transitions", trans)
		rep.Inc("traces_validated_against_impl", trans)
		rep.Set("many_keys_family", fmt.Sprintf("n up to %d keys x 3 insertion shapes", N))
	}

	// C09: large results. n keys, Keys()/StartsWith drained completely and in two portions.
	prev9 := extras["C09"]
	extras["C09"] = func(rep *core.Report) {
		if prev9 != nil {
			prev9(rep)
		}
		N := 700
		if thorough {
			N = 2600
		}
		trans := 0
		for n := 1; n <= N; n += 1 + n/30 {
			tr := trie.New[string, int](queue.New[string]())
			var want []string
			for i := 0; i < n; i++ {
				k := fmt.Sprintf("%c%03d", 'a'+i%3, i)
				tr.Put(k, i)
				want = append(want, k)
			}
			sort.Strings(want)
			trans += n
			wit := fmt.Sprintf("Trie with %d keys", n)
			if tr.Size() != n {
				rep.Add("Trie.Size/many-keys", fmt.Sprintf("%s: Size = %d", wit, tr.Size()), wit, nil)
			}
			for _, firstPart := range []int{n, n * 3 / 4, 1} {
				q, err := tr.Keys()
				if err != nil {
					rep.Add("Trie.Keys/many-keys/error", fmt.Sprintf("%s: %v", wit, err), wit, nil)
					break
				}
				var got []string
				for i := 0; i < firstPart && q.Size() > 0; i++ {
					k, _ := q.Dequeue()
					got = append(got, k)
				}
				got = append(got, drainQ(q)...)
				if fmt.Sprint(got) != fmt.Sprint(want) {
					d := 0
					for d < len(got) && d < len(want) && got[d] == want[d] {
						d++
					}
					rep.Add("Trie.Keys/differs/many-keys", fmt.Sprintf("%s: Keys() drained (%d first, then the rest) yields %d keys, want %d; first difference at position %d", wit, firstPart, len(got), len(want), d), wit, nil)
					break
				}
			}
			q, _ := tr.StartsWith("b")
			var wb []string
			for _, k := range want {
				if k[0] == 'b' {
					wb = append(wb, k)
				}
			}
			if got := drainQ(q); fmt.Sprint(got) != fmt.Sprint(wb) {
				rep.Add("Trie.StartsWith/differs/many-keys", fmt.Sprintf("%s: StartsWith(b) yields %d keys, want %d", wit, len(got), len(wb)), wit, nil)
			}
		}
		// shapes: long keys (every length 1..140: a length kept in a byte, a bit mask of lengths) and deep
		// spines (m keys that differ at one byte position, inserted descending / ascending / middle-out:
		// the sibling chain at that position is m deep on one side)
		check := func(wit string, keys []string) {
			tr := trie.New[string, int](queue.New[string]())
			want := map[string]int{}
			for i, k := range keys {
				tr.Put(k, i)
				want[k] = i
			}
			trans += len(keys)
			if tr.Size() != len(want) {
				rep.Add("Trie.Size/shapes", fmt.Sprintf("%s: Size = %d, want %d", wit, tr.Size(), len(want)), wit, nil)
			}
			var sorted []string
			for k, v := range want {
				sorted = append(sorted, k)
				if g, ok := tr.Get(k); !ok || g != v || !tr.Contains(k) {
					rep.Add("Trie.Get/stored-key-not-found/shapes", fmt.Sprintf("%s: Get(key of %d bytes) = (%d,%t), Contains = %t, want (%d,true)", wit, len(k), g, ok, tr.Contains(k), v), wit, nil)
					return
				}
				if len(k) > 1 {
					if _, ok := tr.Get(k[:len(k)-1]); ok != (want[k[:len(k)-1]] != 0 || keys[0] == k[:len(k)-1]) {
						if _, stored := want[k[:len(k)-1]]; !stored {
							rep.Add("Trie.Get/proper-prefix-reported/shapes", fmt.Sprintf("%s: Get finds the %d-byte prefix of a stored key", wit, len(k)-1), wit, nil)
							return
						}
					}
				}
			}
			sort.Strings(sorted)
			q, err := tr.Keys()
			if got := drainQ(q); err != nil || fmt.Sprint(got) != fmt.Sprint(sorted) {
				rep.Add("Trie.Keys/differs/shapes", fmt.Sprintf("%s: Keys() yields %d keys (err %v), want %d, each once, in byte order", wit, len(got), err, len(sorted)), wit, nil)
				return
			}
			p := sorted[len(sorted)/2][:1]
			var wp []string
			for _, k := range sorted {
				if strings.HasPrefix(k, p) {
					wp = append(wp, k)
				}
			}
			q, _ = tr.StartsWith(p)
			if got := drainQ(q); fmt.Sprint(got) != fmt.Sprint(wp) {
				rep.Add("Trie.StartsWith/differs/shapes", fmt.Sprintf("%s: StartsWith(%q) yields %d keys, want %d", wit, p, len(got), len(wp)), wit, nil)
			}
			if lp, err := tr.LongestPrefix(sorted[0] + "~~"); err != nil || lp != sorted[0] {
				rep.Add("Trie.LongestPrefix/wrong/shapes", fmt.Sprintf("%s: LongestPrefix(first key + \"~~\") = (%d bytes, %v), want the first key", wit, len(lp), err), wit, nil)
			}
		}
		for L := 1; L <= 140; L++ {
			check(fmt.Sprintf("Trie with one key of %d bytes and one of %d", L, L+1), []string{strings.Repeat("k", L), strings.Repeat("k", L) + "z"})
		}
		for _, m := range []int{8, 16, 31, 32, 33, 34, 48, 64, 65, 100, 200} {
			for _, order := range []string{"descending", "ascending", "middle-out"} {
				var keys []string
				for i := 0; i < m; i++ {
					j := i
					switch order {
					case "descending":
						j = m - 1 - i
					case "middle-out":
						j = m/2 + (i+1)/2*(1-2*(i%2))
						if j < 0 || j >= m {
							j = i
						}
					}
					keys = append(keys, "p"+string(rune(0x21+j))+"s") // differ at byte 1 (0x21..: printable)
				}
				check(fmt.Sprintf("Trie with %d keys differing at one byte position, inserted %s", m, order), keys)
			}
		}
		rep.Inc("transitions", trans)
		rep.Inc("traces_validated_against_impl", trans)
		rep.Set("many_keys_family", fmt.Sprintf("n up to %d keys; keys of 1..141 bytes; spines of 8..200 siblings in three insertion orders", N))
	}

	// C05: deep queues. Enqueue n, then n+1 Dequeues with every value, Size and Peek checked.
	prev5 := extras["C05"]
	extras["C05"] = func(rep *core.Report) {
		prev5(rep)
		deep := 1500
		if thorough {
			deep = 5000
		}
		for _, comp := range []string{"Queue", "LQueue"} {
			comp := comp
			d := deep
			if comp == "LQueue" {
				d = 200 // the linked queue walks its list on every Enqueue
			}
			trans := 0
			for n := 1; n <= d; n++ {
				if n > 300 && n%7 != 0 && n&(n-1) != 0 && (n-1)&(n-2) != 0 {
					continue
				}
				var q fifo
				first := 1
				if comp == "Queue" {
					q = sliceQ{queue.New[int]()}
				} else {
					q = linkedQ{queue.NewLinked[int](1)}
					first = 2
				}
				for v := first; v <= n; v++ {
					q.Enqueue(v)
				}
				trans += 2 * n
				wit := fmt.Sprintf("%s: Enqueue 1..%d, then Dequeue until empty", comp, n)
				for v := 1; v <= n; v++ {
					if p := q.Peek(); p != v {
						rep.Add(comp+".Peek/long-run/not-next-dequeue", fmt.Sprintf("%s: Peek = %d before the %d-th Dequeue", wit, p, v), wit, nil)
						break
					}
					got, ok := q.Dequeue()
					if !ok || got != v {
						rep.Add(comp+".Dequeue/long-run/not-fifo", fmt.Sprintf("%s: the %d-th Dequeue returned (%d, ok=%t)", wit, v, got, ok), wit, nil)
						break
					}
					if sz := q.Size(); sz != n-v {
						rep.Add(comp+".Size/long-run/wrong", fmt.Sprintf("%s: Size = %d after %d Dequeues", wit, sz, v), wit, nil)
						break
					}
				}
			}
			rep.Inc("transitions", trans)
			rep.Inc("traces_validated_against_impl", trans)
		}
	}

	// C07: capacities around the sizes where storage strategies switch (64, 128), and a key type whose
	// == is not reflexive.
	prev7 := extras["C07"]
	extras["C07"] = func(rep *core.Report) {
		prev7(rep)
		caps := []int{31, 32, 33, 62, 63, 64, 65, 100, 127, 128, 129}
		if thorough {
			caps = append(caps, 255, 256, 257, 500)
		}
		for _, capacity := range caps {
			capacity := capacity
			var hs [][]lrPhase
			for _, over := range []int{0, 1, 2, capacity / 2, capacity + 3} {
				for _, g := range []int{0, 1, 9} {
					hs = append(hs, []lrPhase{{"Add", capacity + over}, {"Get#0", g}, {fmt.Sprintf("Get#%d", capacity/2), g}, {"Add", 3}, {"Cycle", 5}})
				}
			}
			lrRun(rep, fmt.Sprintf("LRU(cap=%d)", capacity), hs, func(ph []lrPhase, fail lrFail) { lrLRU(capacity, ph, fail) })
		}
		// NaN keys: an entry that can never be found again must still respect the capacity and be evictable
		for capacity := 1; capacity <= 3; capacity++ {
			c, _ := cache.NewLRU[float64, int](capacity)
			nan := math.NaN()
			wit := fmt.Sprintf("LRU[float64] cap=%d with NaN keys", capacity)
			for i := 0; i < capacity+3; i++ {
				k := nan
				if i%2 == 1 {
					k = float64(i)
				}
				c.Add(k, i)
				if n := c.Count(); n > capacity {
					rep.Add("LRU.Count/exceeds-capacity/non-reflexive-key", fmt.Sprintf("%s: Count = %d after %d Adds", wit, n, i+1), wit, nil)
					break
				}
			}
			for i := 0; i < capacity+2; i++ {
				c.RemoveOldest()
			}
			if n := c.Count(); n != 0 {
				rep.Add("LRU.Count/nonzero-after-drain/non-reflexive-key", fmt.Sprintf("%s: Count = %d after removing the oldest entry %d times", wit, n, capacity+2), wit, nil)
			}
			rep.Inc("transitions", 2*capacity+5)
		}
	}
}

// ---------------------------------------------------------------- C04: comparators with ties

// A strict comparator may tie keys that are not identical (case-insensitive names, points compared by one
// coordinate, NaNs): the tree must treat tied keys as ONE key -- that is what "any strict comparator" means
// for a symbol table. Here: ints compared by their tens (0 and 5 tie, 10 and 15 tie). Every history up to
// length 4 (5) over Upsert(k, v) for k in {0, 5, 10, 15, 20} and Delete of a present class.
func init() {
	prev := extras["C04"]
	extras["C04"] = func(rep *core.Report) {
		if prev != nil {
			prev(rep)
		}
		L := 4
		if thorough {
			L = 5
		}
		less := func(a, b int) bool { return a/10 < b/10 }
		keys := []int{0, 5, 10, 15, 20}
		type opT struct {
			del bool
			k   int
			v   string
		}
		var ops []opT
		for _, k := range keys {
			ops = append(ops, opT{false, k, "a"}, opT{false, k, "b"}, opT{true, k, ""})
		}
		n := 0
		var run func(hist []opT)
		run = func(hist []opT) {
			if len(hist) > 0 {
				n++
				t := bstree.New[int, string](less)
				model := map[int]string{}
				var w []string
				ok := true
				for _, o := range hist {
					if o.del {
						if _, present := model[o.k/10]; !present {
							return // deleting an absent key is the business of the main search (recorded Size finding)
						}
						w = append(w, fmt.Sprintf("Delete(%d)", o.k))
						if err := t.Delete(o.k); err != nil {
							rep.Add("BsTree.Delete/present-key-reported-not-found/tied-keys", fmt.Sprintf("Delete(%d) returned %v although a key tied with it is present (classes %v)", o.k, err, model), strings.Join(w, "; "), nil)
							ok = false
						}
						delete(model, o.k/10)
					} else {
						w = append(w, fmt.Sprintf("Upsert(%d,%s)", o.k, o.v))
						t.Upsert(o.k, o.v)
						model[o.k/10] = o.v
					}
				}
				wit := "BsTree(by tens): " + strings.Join(w, "; ")
				if ok && t.Size() != len(model) {
					rep.Add("BsTree.Size/tied-keys", fmt.Sprintf("Size = %d, want %d classes %v", t.Size(), len(model), model), wit, nil)
				}
				for _, k := range keys {
					it, err := t.Get(k)
					want, present := model[k/10]
					if present != (err == nil) || (present && it.Val != want) {
						rep.Add("BsTree.Get/tied-keys", fmt.Sprintf("Get(%d) = (%q, %v), want present=%t value %q", k, it.Val, err, present, want), wit, nil)
						break
					}
				}
				var got, wantT []string
				t.Traverse(func(it bstree.Item[int, string]) { got = append(got, fmt.Sprintf("%d=%s", it.Key/10, it.Val)) })
				for c := 0; c <= 2; c++ {
					if v, present := model[c]; present {
						wantT = append(wantT, fmt.Sprintf("%d=%s", c, v))
					}
				}
				if fmt.Sprint(got) != fmt.Sprint(wantT) {
					rep.Add("BsTree.Traverse/tied-keys", fmt.Sprintf("Traverse visited (class=value) %v, want %v", got, wantT), wit, nil)
				}
			}
			if len(hist) == L {
				return
			}
			for _, o := range ops {
				run(append(hist[:len(hist):len(hist)], o))
			}
		}
		run(nil)
		rep.Inc("transitions", n*L)
		rep.Set("tied_keys_family", fmt.Sprintf("%d histories up to length %d with a comparator that ties 0~5 and 10~15", n, L))
	}
}

// ---------------------------------------------------------------- C04: a slow callback

// Traverse hands every present key to the callback however long the callback takes over one of them (a
// traversal that gives up on a slow consumer -- a timeout around the hand-over -- loses the rest). One real
// pause of 1.5 s, the only real-time wait of the whole suite: the unchanged tree has no timer anywhere near
// Traverse, so the pause cannot make it fail.
func init() {
	prev := extras["C04"]
	extras["C04"] = func(rep *core.Report) {
		if prev != nil {
			prev(rep)
		}
		t := bstree.New[int, string](func(a, b int) bool { return a < b })
		for _, k := range []int{4, 2, 6, 1, 3, 5, 7} {
			t.Upsert(k, "v")
		}
		var got []int
		t.Traverse(func(it bstree.Item[int, string]) {
			if len(got) == 1 {
				time.Sleep(1500 * time.Millisecond)
			}
			got = append(got, it.Key)
		})
		if fmt.Sprint(got) != "[1 2 3 4 5 6 7]" {
			rep.Add("BsTree.Traverse/slow-callback/keys-lost", fmt.Sprintf("Traverse with a callback that takes 1.5 s over the second key visited %v, want all seven keys", got), "BsTree(<) with keys 1..7; Traverse(callback pauses once for 1.5 s)", nil)
		}
		rep.Inc("transitions", 8)
	}
}

// ---------------------------------------------------------------- C03: comparators from one constructor

// Two comparators may be the same code with different captured state (closures from one constructor, one
// literal evaluated in a loop, method values of two receivers): "the same function" by code address says
// nothing about the order they define. Every slice up to length 5 over 3 values: built under one, converted
// to the other, drained.
type lrOrder struct{ desc bool }

func (o lrOrder) less(a, b hE) bool { return (a.K < b.K) != o.desc && a.K != b.K }

//go:noinline
func lrMkCmp(desc bool) func(a, b hE) bool {
	return func(a, b hE) bool {
		if desc {
			return a.K > b.K
		}
		return a.K < b.K
	}
}

func init() {
	prev := extras["C03"]
	extras["C03"] = func(rep *core.Report) {
		if prev != nil {
			prev(rep)
		}
		n := 0
		pairs := []struct {
			name     string
			from, to func(a, b hE) bool
			ref      func(a, b hE) bool
		}{
			{"closures of one constructor, ascending to descending", lrMkCmp(false), lrMkCmp(true), hGreater},
			{"closures of one constructor, descending to ascending", lrMkCmp(true), lrMkCmp(false), hLess},
			{"method values of two receivers, ascending to descending", lrOrder{false}.less, lrOrder{true}.less, hGreater},
		}
		var vals [][]int
		var gen func(cur []int)
		gen = func(cur []int) {
			vals = append(vals, append([]int{}, cur...))
			if len(cur) == 5 {
				return
			}
			for v := 1; v <= 3; v++ {
				gen(append(cur, v))
			}
		}
		gen(nil)
		for _, pr := range pairs {
			for _, vs := range vals {
				n++
				h := heap.NewHeap(pr.from)
				var model []hE
				for i, v := range vs {
					e := hE{v, i}
					h.Push(e)
					model = append(model, e)
				}
				h.Convert(pr.to)
				wit := fmt.Sprintf("heap of %v built under one comparator, Convert to another (%s), drained", vs, pr.name)
				if msg := drainCheck(h, pr.ref, model); msg != "" {
					rep.Add("Heap.order/after-Convert/comparators-sharing-code/pop-sequence-"+drainCls(msg), msg, wit, nil)
					break
				}
			}
		}
		rep.Inc("transitions", n*6)
	}
}

// ---------------------------------------------------------------- C05 / C07: more shapes (round 6)

func init() {
	prev5 := extras["C05"]
	extras["C05"] = func(rep *core.Report) {
		prev5(rep)
		// Search on queues that have just crossed a size at which a lookup structure might be built or
		// dropped: distinct values 1..n, every value of the last 40 and a sample of the others searched
		// right after the Enqueue that brought the queue to n elements, and again after shrinking
		for _, comp := range []string{"Queue", "LQueue"} {
			for _, n := range []int{255, 256, 257, 1023, 1024, 1025, 1026, 2049, 4097} {
				if comp == "LQueue" && n > 1100 {
					continue // the linked queue walks its list on every Enqueue
				}
				wit := fmt.Sprintf("%s: Enqueue of the distinct values 1..%d, Search after each of the last Enqueues", comp, n)
				var q fifo
				lo := 1
				if comp == "Queue" {
					q = sliceQ{queue.New[int]()}
				} else {
					q = linkedQ{queue.NewLinked[int](1)}
					lo = 2
				}
				bad := false
				for v := lo; v <= n && !bad; v++ {
					q.Enqueue(v)
					if v >= n-40 {
						for _, probe := range []int{v, v - 1, 1, v / 2, v + 1} {
							if got, want := q.Search(probe), probe >= 1 && probe <= v; got != want {
								rep.Add(comp+".Search/long-run/size-threshold", fmt.Sprintf("with the values 1..%d held, Search(%d) = %t", v, probe, got), wit, nil)
								bad = true
								break
							}
						}
					}
				}
				for k := 1; k <= n-200 && !bad; k++ { // shrink to 200 and ask again
					q.Dequeue()
					if k%97 == 0 || k == n-200 {
						for _, probe := range []int{k, k + 1, n, n + 1} {
							if got, want := q.Search(probe), probe > k && probe <= n; got != want {
								rep.Add(comp+".Search/long-run/size-threshold", fmt.Sprintf("with the values %d..%d held, Search(%d) = %t", k+1, n, probe, got), wit, nil)
								bad = true
								break
							}
						}
					}
				}
				rep.Inc("transitions", 2*n)
			}
		}
	}
	prev7 := extras["C07"]
	extras["C07"] = func(rep *core.Report) {
		if prev7 != nil {
			prev7(rep)
		}
		// the largest capacity there is: "practically unbounded"
		if c, err := cache.NewLRU[int, int](math.MaxInt); err != nil {
			rep.Add("LRU.NewLRU/long-run/error", fmt.Sprintf("NewLRU(MaxInt): %v", err), "NewLRU(MaxInt)", nil)
		} else {
			for k := 1; k <= 5; k++ {
				if _, _, removed := c.Add(k, k); removed || c.Count() != k {
					rep.Add("LRU.Add/long-run/spurious-eviction", fmt.Sprintf("NewLRU(MaxInt): Add number %d evicted=%t, Count = %d", k, removed, c.Count()), "NewLRU(MaxInt); Add x5", nil)
					break
				}
			}
		}
		// a cache used through a COPY of the exported struct (v := *c): the copy is a cache like any other
		for fill := 0; fill <= 3; fill++ {
			c, _ := cache.NewLRU[int, int](2)
			for k := 1; k <= fill; k++ {
				c.Add(k, k*10)
			}
			v := *c
			wit := fmt.Sprintf("c := NewLRU(2); Add x%d; v := *c; then v is used", fill)
			held := fill
			if held > 2 {
				held = 2
			}
			if _, _, ok := v.GetOldest(); ok != (held > 0) || v.Count() != held {
				rep.Add("LRU.GetOldest/copied-struct", fmt.Sprintf("on the copy: GetOldest ok=%t, Count=%d, want %d entries", ok, v.Count(), held), wit, nil)
				continue
			}
			gk, _, removed := v.Add(9, 90)
			// (GetOldest has just refreshed the oldest entry: the other one, key `fill`, is the one to go)
			if want := fill >= 2; removed != want || (removed && gk != fill) {
				rep.Add("LRU.Add/copied-struct/evicts-wrong-entry", fmt.Sprintf("on the copy: Add(9) evicted (%d,%t), want evicted=%t key %d", gk, removed, want, fill), wit, nil)
			}
			if g, ok := v.Get(9); !ok || g != 90 {
				rep.Add("LRU.Get/copied-struct", fmt.Sprintf("on the copy: Get(9) = (%d,%t) right after Add", g, ok), wit, nil)
			}
		}
		rep.Inc("transitions", 30)
	}
}

// ---------------------------------------------------------------- C09 / C19: identity of what is handed out and handed in

func init() {
	prev9 := extras["C09"]
	extras["C09"] = func(rep *core.Report) {
		if prev9 != nil {
			prev9(rep)
		}
		// keys a caller has taken out of one result stay what they are while later queries run (a Go
		// string never changes -- unless it is a view into a buffer the trie goes on writing to)
		tr := trie.New[string, int](queue.New[string]())
		stored := []string{"alpha", "alp", "beta", "be", "gamma", "g", "alphabet"}
		for i, k := range stored {
			tr.Put(k, i)
		}
		var kept, copies []string
		take := func(q trie.Queuer[string], err error) {
			if err != nil {
				return
			}
			for q.Size() > 0 {
				k, e := q.Dequeue()
				if e != nil {
					break
				}
				kept = append(kept, k)
				copies = append(copies, strings.Clone(k))
			}
		}
		take(tr.Keys())
		take(tr.StartsWith("al"))
		take(tr.StartsWith("g"))
		tr.StartsWith("b")
		tr.Keys()
		tr.LongestPrefix("alphabetical")
		tr.Put("zeta", 9)
		tr.Keys()
		for i := range kept {
			if kept[i] != copies[i] {
				rep.Add("Trie.Keys/keys-handed-out-change-later", fmt.Sprintf("key number %d taken out of an earlier result was %q and reads %q after later queries", i+1, copies[i], kept[i]), "Keys / StartsWith results kept by the caller, then more queries and a Put", nil)
				break
			}
		}
		rep.Inc("transitions", 12)
	}
	prev19 := extras["C19"]
	extras["C19"] = func(rep *core.Report) {
		if prev19 != nil {
			prev19(rep)
		}
		// elements whose == is identity: two distinct pointers to equal values are two different elements
		// ("the node found for a given value" is the node holding THAT value)
		type rec struct{ n int }
		p, q, r := &rec{1}, &rec{1}, &rec{1}
		each := func(f func(func(*rec))) string {
			var out []string
			f(func(v *rec) {
				switch v {
				case p:
					out = append(out, "p")
				case q:
					out = append(out, "q")
				case r:
					out = append(out, "r")
				default:
					out = append(out, "?")
				}
			})
			return strings.Join(out, " ")
		}
		check := func(name, step, got, want string) {
			if got != want {
				rep.Add(name+"/pointer-elements/acts-on-an-equal-looking-element", fmt.Sprintf("after %s the list is [%s], want [%s] (p, q, r are distinct pointers to equal records)", step, got, want), name+" of *rec: Init(p); Append(q); "+step, nil)
			}
		}
		{
			l := list.Init(p)
			l.Append(q)
			if n, ok := l.Find(q); !ok || n == nil || n.Value != q {
				rep.Add("SList.Find/pointer-elements/finds-an-equal-looking-element", "Find(q) on [p q] does not return the node holding q", "SList of *rec: Init(p); Append(q); Find(q)", nil)
			}
			if _, ok := l.Find(r); ok {
				rep.Add("SList.Find/pointer-elements/finds-an-equal-looking-element", "Find(r) on [p q] reports r as present", "SList of *rec: Init(p); Append(q); Find(r)", nil)
			}
			l.Replace(q, r)
			check("SList.Replace", "Replace(q, r)", each(l.Each), "p r")
			if n, ok := l.Find(r); ok {
				l.Append(q)
				l.Delete(n)
				check("SList.Delete", "Replace(q, r); Append(q); Delete(Find(r))", each(l.Each), "p q")
			}
		}
		{
			l := list.InitDList(p)
			l.Append(q)
			if n, ok := l.Find(q); !ok || n == nil || n.Value != q {
				rep.Add("DList.Find/pointer-elements/finds-an-equal-looking-element", "Find(q) on [p q] does not return the node holding q", "DList of *rec: InitDList(p); Append(q); Find(q)", nil)
			}
			if _, ok := l.Find(r); ok {
				rep.Add("DList.Find/pointer-elements/finds-an-equal-looking-element", "Find(r) on [p q] reports r as present", "DList of *rec: InitDList(p); Append(q); Find(r)", nil)
			}
			l.Replace(q, r)
			check("DList.Replace", "Replace(q, r)", each(l.Each), "p r")
			if n, ok := l.Find(r); ok {
				l.Append(q)
				l.Delete(n)
				check("DList.Delete", "Replace(q, r); Append(q); Delete(Find(r))", each(l.Each), "p q")
			}
		}
		rep.Inc("transitions", 16)
	}
}
