//go:build verif

package vrt

import (
	"fmt"
	"reflect"
	"sort"
	"sync/atomic"
)

// Chan models a Go channel under the controlled runtime. In pass-through mode
// (no execution attached) it is a thin wrapper around a real channel.
type Chan[T any] struct {
	real  chan T
	core  chanCore // non-generic readiness state, read by the (non-generic, norace) predicates
	buf   []T
	sendq []*sendWait[T]
	recvq []*recvWait[T]
	// hb carries the happens-before edges of completed operations to the race
	// detector (an atomic read-modify-write: acquire+release). This orders all
	// operations of one channel, slightly more than Go guarantees.
	hb uint32
}

// chanCore mirrors len(buf), len(sendq), len(recvq), cap and closed.
type chanCore struct {
	cap, nbuf, nsend, nrecv int
	closed                 bool
}

//go:norace
func (c *chanCore) sendReady() bool { return c.closed || c.nbuf < c.cap || c.nrecv > 0 }

//go:norace
func (c *chanCore) recvReady() bool { return c.nbuf > 0 || c.nsend > 0 || c.closed }

// chanWait is the predicate of a parked send or receive.
type chanWait struct {
	core *chanCore
	done *bool
	send bool
}

//go:norace
func (w *chanWait) Ready() bool {
	if *w.done {
		return true
	}
	if w.send {
		return w.core.sendReady()
	}
	return w.core.recvReady()
}

type sendWait[T any] struct {
	v     T
	taken bool
}

type recvWait[T any] struct {
	v    T
	ok   bool
	done bool
}

//go:norace
func (c *Chan[T]) syncCore() {
	c.core.nbuf, c.core.nsend, c.core.nrecv = len(c.buf), len(c.sendq), len(c.recvq)
}

func MakeChan[T any](n int) *Chan[T] {
	return &Chan[T]{real: make(chan T, n), core: chanCore{cap: n}}
}

//go:norace
func (c *Chan[T]) edge() { atomic.AddUint32(&c.hb, 1) }

//go:norace
func (c *Chan[T]) sendReady() bool { c.syncCore(); return c.core.sendReady() }

//go:norace
func (c *Chan[T]) recvReady() bool { c.syncCore(); return c.core.recvReady() }

//go:norace
func Send[T any](c *Chan[T], v T) {
	if !Active() {
		if Aborting() {
			return
		}
		if c == nil {
			var nc chan T
			nc <- v
		}
		c.real <- v
		return
	}
	if c == nil {
		Wait("send on nil channel", Never{})
		return
	}
	s := &sendWait[T]{v: v}
	c.sendq = append(c.sendq, s)
	c.syncCore()
	Wait("chan send", &chanWait{core: &c.core, done: &s.taken, send: true})
	if s.taken {
		c.edge()
		return
	}
	c.removeSend(s)
	defer c.syncCore()
	if c.core.closed {
		panic("send on closed channel")
	}
	c.edge()
	// A receiver registers itself before it has looked at the channel, so a registered receiver does
	// not mean the buffer is empty: hand the value over directly only if nothing is buffered ahead of
	// it (FIFO); otherwise it goes into the buffer and the receiver takes the oldest value when it runs.
	if len(c.buf) == 0 && len(c.recvq) > 0 {
		r := c.recvq[0]
		c.recvq = c.recvq[1:]
		r.v, r.ok, r.done = v, true, true
		return
	}
	c.buf = append(c.buf, v)
}

//go:norace
func (c *Chan[T]) removeSend(s *sendWait[T]) {
	for i, x := range c.sendq {
		if x == s {
			c.sendq = append(c.sendq[:i:i], c.sendq[i+1:]...)
			c.syncCore()
			return
		}
	}
}

//go:norace
func (c *Chan[T]) removeRecv(r *recvWait[T]) {
	for i, x := range c.recvq {
		if x == r {
			c.recvq = append(c.recvq[:i:i], c.recvq[i+1:]...)
			c.syncCore()
			return
		}
	}
}

//go:norace
func Recv2[T any](c *Chan[T]) (T, bool) {
	if !Active() {
		var z T
		if Aborting() {
			return z, false
		}
		if c == nil {
			var nc chan T
			v, ok := <-nc
			return v, ok
		}
		v, ok := <-c.real
		return v, ok
	}
	if c == nil {
		Wait("receive from nil channel", Never{})
		var z T
		return z, false
	}
	r := &recvWait[T]{}
	c.recvq = append(c.recvq, r)
	c.syncCore()
	Wait("chan receive", &chanWait{core: &c.core, done: &r.done})
	if r.done {
		c.edge()
		return r.v, r.ok
	}
	c.removeRecv(r)
	return c.takeNow()
}

// takeNow performs a receive that is known to be ready.
//
//go:norace
func (c *Chan[T]) takeNow() (T, bool) {
	c.edge()
	defer c.syncCore()
	var z T
	if len(c.buf) > 0 {
		v := c.buf[0]
		c.buf = c.buf[1:]
		if len(c.sendq) > 0 { // a blocked sender moves into the freed slot
			s := c.sendq[0]
			c.sendq = c.sendq[1:]
			c.buf = append(c.buf, s.v)
			s.taken = true
		}
		return v, true
	}
	if len(c.sendq) > 0 {
		s := c.sendq[0]
		c.sendq = c.sendq[1:]
		s.taken = true
		return s.v, true
	}
	return z, false // closed
}

//go:norace
func Recv[T any](c *Chan[T]) T {
	v, _ := Recv2(c)
	return v
}

//go:norace
func Close[T any](c *Chan[T]) {
	if !Active() {
		if Aborting() {
			return
		}
		close(c.real)
		return
	}
	Sched("chan close")
	if c.core.closed {
		panic("close of closed channel")
	}
	c.core.closed = true
	c.edge()
	// registered receivers are woken by their predicate (closed => ready) and then drain what is still
	// buffered before they see the zero value: nothing is completed on their behalf here
	c.syncCore()
}

// TrySend is the non-blocking send used by timers (Go drops a tick when the channel is full).
//
//go:norace
func TrySend[T any](c *Chan[T], v T) bool {
	defer c.syncCore()
	if len(c.buf) == 0 && len(c.recvq) > 0 {
		r := c.recvq[0]
		c.recvq = c.recvq[1:]
		r.v, r.ok, r.done = v, true, true
		c.edge()
		return true
	}
	if len(c.buf) < c.core.cap {
		c.buf = append(c.buf, v)
		c.edge()
		return true
	}
	return false
}

// ---------------------------------------------------------------- select

type selCase struct {
	core *chanCore // nil: never ready (nil channel)
	send bool
	fire func() any
}

//go:norace
func (c *selCase) ready() bool {
	if c.core == nil {
		return false
	}
	if c.send {
		return c.core.sendReady()
	}
	return c.core.recvReady()
}

// selWait is the predicate of a parked select: some case is ready.
type selWait struct {
	cases [8]selCase
	n     int
}

//go:norace
func (w *selWait) Ready() bool {
	for i := 0; i < w.n; i++ {
		if w.cases[i].ready() {
			return true
		}
	}
	return false
}

// Sel is the result of a Select.
type Sel struct {
	Index int
	val   any
	ok    bool
}

// SelCase is one communication clause.
type SelCase struct {
	c selCase
	// pass-through
	dir  reflect.SelectDir
	ch   reflect.Value
	send reflect.Value
}

//go:norace
func RecvCase[T any](c *Chan[T]) SelCase {
	sc := SelCase{dir: reflect.SelectRecv}
	if c == nil {
		sc.ch = reflect.ValueOf((chan T)(nil))
		return sc
	}
	sc.ch = reflect.ValueOf(c.real)
	c.syncCore()
	sc.c = selCase{
		core: &c.core,
		fire: func() any {
			v, ok := c.takeNow()
			return [2]any{v, ok}
		},
	}
	return sc
}

//go:norace
func SendCase[T any](c *Chan[T], v T) SelCase {
	sc := SelCase{dir: reflect.SelectSend, send: reflect.ValueOf(v)}
	if c == nil {
		sc.ch = reflect.ValueOf((chan T)(nil))
		return sc
	}
	sc.ch = reflect.ValueOf(c.real)
	c.syncCore()
	sc.c = selCase{
		core: &c.core,
		send: true,
		fire: func() any {
			defer c.syncCore()
			if c.core.closed {
				panic("send on closed channel")
			}
			c.edge()
			if len(c.buf) == 0 && len(c.recvq) > 0 {
				r := c.recvq[0]
				c.recvq = c.recvq[1:]
				r.v, r.ok, r.done = v, true, true
				return nil
			}
			c.buf = append(c.buf, v)
			return nil
		},
	}
	return sc
}

// Select blocks until one case is ready (or takes default when hasDefault and none is);
// among several ready cases the explorer chooses (Go chooses pseudo-randomly).
//
//go:norace
func Select(hasDefault bool, cases ...SelCase) *Sel {
	if !Active() {
		if Aborting() {
			return &Sel{Index: -1}
		}
		rc := make([]reflect.SelectCase, 0, len(cases)+1)
		for _, c := range cases {
			rc = append(rc, reflect.SelectCase{Dir: c.dir, Chan: c.ch, Send: c.send})
		}
		if hasDefault {
			rc = append(rc, reflect.SelectCase{Dir: reflect.SelectDefault})
		}
		i, v, ok := reflect.Select(rc)
		if hasDefault && i == len(cases) {
			return &Sel{Index: -1}
		}
		var val any
		if v.IsValid() {
			val = v.Interface()
		}
		return &Sel{Index: i, val: val, ok: ok}
	}
	if len(cases) > 8 {
		panic("vrt.Select: more than 8 cases")
	}
	w := &selWait{n: len(cases)} // scheduler-owned copy: the caller's variadic slice was written by instrumented code
	for i := range cases {
		w.cases[i] = cases[i].c
	}
	if hasDefault {
		Sched("select")
	} else {
		Wait("select", w)
	}
	var ready []int
	for i, c := range cases {
		if c.c.ready() {
			ready = append(ready, i)
		}
	}
	if len(ready) == 0 {
		return &Sel{Index: -1}
	}
	k := ready[X.choose(len(ready), true, false, nil)]
	r := cases[k].c.fire()
	s := &Sel{Index: k}
	if p, ok := r.([2]any); ok {
		s.val, s.ok = p[0], p[1].(bool)
	}
	return s
}

// SelVal / SelOK extract the value received by the chosen case (the channel argument fixes the type).
//
//go:norace
func SelVal[T any](c *Chan[T], s *Sel) T {
	v, _ := s.val.(T)
	return v
}

//go:norace
func SelOK(s *Sel) bool { return s.ok }

// BlockForever is `select {}`.
//
//go:norace
func BlockForever() {
	if !Active() {
		if Aborting() {
			return
		}
		select {}
	}
	SetDaemon() // a goroutine that parks itself for good is not a deadlock victim
	Wait("select {}", Never{})
}

// ---------------------------------------------------------------- map iteration order

// MapOrder returns the keys of m in the order a `for range m` loop visits
// them: the runtime's own (random) order when nobody drives choices, otherwise
// every permutation is reachable through Choose (keys are first sorted into a
// canonical order so that a choice sequence determines the permutation).
//
//go:norace
func MapOrder[K comparable, V any](m map[K]V) []K {
	keys := make([]K, 0, len(m))
	for k := range m {
		keys = append(keys, k)
	}
	if len(keys) < 2 || (!Active() && ChooseHook == nil) {
		return keys
	}
	sort.Slice(keys, func(i, j int) bool { return keyLess(keys[i], keys[j]) })
	out := make([]K, 0, len(keys))
	for len(keys) > 0 {
		i := Choose(len(keys))
		out = append(out, keys[i])
		keys = append(keys[:i:i], keys[i+1:]...)
	}
	return out
}

func keyLess(a, b any) bool {
	switch x := a.(type) {
	case int:
		return x < b.(int)
	case string:
		return x < b.(string)
	case float64:
		return x < b.(float64)
	}
	va, vb := reflect.ValueOf(a), reflect.ValueOf(b)
	switch va.Kind() {
	case reflect.Int, reflect.Int8, reflect.Int16, reflect.Int32, reflect.Int64:
		return va.Int() < vb.Int()
	case reflect.Uint, reflect.Uint8, reflect.Uint16, reflect.Uint32, reflect.Uint64:
		return va.Uint() < vb.Uint()
	case reflect.String:
		return va.String() < vb.String()
	case reflect.Float32, reflect.Float64:
		return va.Float() < vb.Float()
	}
	return fmt.Sprintf("%#v", a) < fmt.Sprintf("%#v", b)
}
