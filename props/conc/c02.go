//go:build verif

package main

import (
	"fmt"
	"os"
	"sort"
	"strings"
	"time"

	"github.com/esimov/gogu/vrtshim/vrt"
	sync "github.com/esimov/gogu/vrtshim/vsync"
	"verif/core"
)

// C02 — linearizability of single-element operations: every program of
// 2 threads x <=2 calls or 3 threads x 1 call, every interleaving at
// synchronisation-operation granularity, compared with the outcomes of the same
// calls run one at a time (on the same implementation) in every order that
// respects program order and the observed real-time order.

func init() {
	registry["C02"] = func(rep *core.Report) {
		var shards []string
		for _, t := range conTypes() {
			if t.c01only {
				continue
			}
			for ii := range t.inits {
				shards = append(shards, fmt.Sprintf("%s:%d", t.name, ii))
			}
		}
		rep.Set("engine", "vrt+explore: stateless DFS over every interleaving (scheduling points before each lock/unlock/channel/clock operation) of the real containers recompiled against the controlled runtime; oracle = brute-force linearizability against sequential runs of the same implementation")
		if !runWorkers(rep, "C02worker", shards, nil) {
			fmt.Fprintln(os.Stderr, "C02: worker failure")
			os.Exit(2)
		}
	}
	subcommands["C02worker"] = c02worker
}

var subcommands = map[string]func(arg string){}

type program [][]int // op indices per thread

func (p program) String(t *conType) string {
	var th []string
	for _, calls := range p {
		var cs []string
		for _, c := range calls {
			cs = append(cs, t.ops[c].label)
		}
		th = append(th, strings.Join(cs, ";"))
	}
	return strings.Join(th, " ‖ ")
}

// methodsKey is the sorted multiset of method names, e.g. "Put‖Put".
func (p program) methodsKey(t *conType) string {
	var ms []string
	for _, calls := range p {
		for _, c := range calls {
			ms = append(ms, t.ops[c].method)
		}
	}
	sort.Strings(ms)
	return strings.Join(ms, "‖")
}

func programs(n int, withTwoByTwo bool) []program {
	var ps []program
	// 2 x 1
	for a := 0; a < n; a++ {
		for b := a; b < n; b++ {
			ps = append(ps, program{{a}, {b}})
		}
	}
	// 3 x 1
	for a := 0; a < n; a++ {
		for b := a; b < n; b++ {
			for c := b; c < n; c++ {
				ps = append(ps, program{{a}, {b}, {c}})
			}
		}
	}
	// 2 x (2,1)
	for a := 0; a < n; a++ {
		for b := 0; b < n; b++ {
			for c := 0; c < n; c++ {
				ps = append(ps, program{{a, b}, {c}})
			}
		}
	}
	if withTwoByTwo {
		for a := 0; a < n; a++ {
			for b := 0; b < n; b++ {
				for c := a; c < n; c++ {
					for d := 0; d < n; d++ {
						if c == a && d < b {
							continue
						}
						ps = append(ps, program{{a, b}, {c, d}})
					}
				}
			}
		}
	}
	return ps
}

// call identifies one call of a program.
type call struct{ th, ix int }

// orders returns every total order of the program's calls that respects program order.
func orders(p program) [][]call {
	var out [][]call
	pos := make([]int, len(p))
	var cur []call
	total := 0
	for _, c := range p {
		total += len(c)
	}
	var rec func()
	rec = func() {
		if len(cur) == total {
			out = append(out, append([]call{}, cur...))
			return
		}
		for th := range p {
			if pos[th] < len(p[th]) {
				cur = append(cur, call{th, pos[th]})
				pos[th]++
				rec()
				pos[th]--
				cur = cur[:len(cur)-1]
			}
		}
	}
	rec()
	return out
}

// record of one execution (written by the threads, each to its own slots).
type execRec struct {
	res   [4][3]string
	inv   [4][3]int
	ret   [4][3]int
	final string
}

func safeCall(f func() string) (out string) {
	defer func() {
		if r := recover(); r != nil {
			if fmt.Sprintf("%T", r) == "vrt.abortSentinel" {
				panic(r)
			}
			out = fmt.Sprintf("panic(%v)", r)
		}
	}()
	return f()
}

func (rec *execRec) outcome(p program) string {
	var sb strings.Builder
	for th, calls := range p {
		for ix := range calls {
			sb.WriteString(rec.res[th][ix])
			sb.WriteString("|")
		}
	}
	sb.WriteString("#")
	sb.WriteString(rec.final)
	return sb.String()
}

func c02worker(arg string) {
	out := newWorkerOut()
	parts := strings.Split(arg, ":")
	var t *conType
	for _, ct := range conTypes() {
		if ct.name == parts[0] {
			t = ct
		}
	}
	var ii int
	fmt.Sscan(parts[1], &ii)
	init := t.inits[ii]
	st := wStats{Shard: arg, MinBound: -1}
	deadline := time.Now().Add(3 * time.Minute)
	budget := 30000
	if thorough {
		deadline = time.Now().Add(20 * time.Minute)
		budget = 400000
	}
	var bad []string // method multisets already found violating (skip supersets)
	containsBad := func(p program) bool {
		mk := strings.Split(p.methodsKey(t), "‖")
		for _, b := range bad {
			need := strings.Split(b, "‖")
			// multiset containment
			used := make([]bool, len(mk))
			ok := true
			for _, n := range need {
				found := false
				for i, m := range mk {
					if !used[i] && m == n {
						used[i], found = true, true
						break
					}
				}
				if !found {
					ok = false
					break
				}
			}
			if ok {
				return true
			}
		}
		return false
	}
	var rec execRec
	states := map[string]struct{}{}
	for _, p := range programs(len(t.ops), true) {
		if r := replayReq; r != nil && fmt.Sprint([][]int(p)) != r.Scenario {
			continue
		}
		if len(p) == 2 && len(p[0]) == 2 && len(p[1]) == 2 && !thorough && replayReq == nil {
			continue // 2 x 2 programs: thorough tier (and replays)
		}
		if only := os.Getenv("VERIF_C02_ONLY"); only != "" && fmt.Sprint([][]int(p)) != only {
			continue // debugging aid: restrict a worker to one program
		}
		if containsBad(p) {
			st.Skipped++
			continue
		}
		if strings.HasPrefix(init.name, "huge-") && (len(p) != 2 || len(p[0]) != 1 || len(p[1]) != 1) {
			continue // very large start states: the programs of two single calls
		}
		if len(t.atMostOnce) > 0 {
			cnt := map[string]int{}
			twice := false
			for _, th := range p {
				for _, c := range th {
					if m := t.ops[c].method; t.atMostOnce[m] {
						cnt[m]++
						twice = twice || cnt[m] > 1
					}
				}
			}
			if twice {
				continue
			}
		}
		st.Scenarios++
		// sequential reference: every order respecting program order, run one call at a time
		ords := orders(p)
		seqOut := make([]string, len(ords))
		for oi, ord := range ords {
			x := vrt.Run(nil, 100000, true, func() {
				inst := init.mk()
				for _, c := range ord {
					op := t.ops[p[c.th][c.ix]]
					rec.res[c.th][c.ix] = safeCall(func() string { return op.run(inst) })
				}
				rec.final = safeCall(func() string { return t.final(inst) })
			})
			seqOut[oi] = rec.outcome(p)
			if x.Deadlock {
				seqOut[oi] += "#DEADLOCK"
			}
			st.Execs++
		}
		outcomes := map[string]bool{}
		violated := false
		key := fmt.Sprintf("%s.%s", t.name, p.methodsKey(t))
		// judge decides one complete execution: "" or (finding key, detail)
		judge := func(x *vrt.Exec) (string, string) {
			for i := 0; i < x.NumThreads(); i++ {
				if pm := x.ThreadAt(i).Panic; pm != "" {
					return key + "/panic-outside-a-call", "thread " + x.ThreadAt(i).Name + " panicked: " + pm
				}
			}
			if x.Deadlock {
				return key + "/deadlock", "no thread enabled: " + x.DeadlockInfo + "; results so far " + rec.outcome(p)
			}
			if x.HorizonHit {
				return key + "/livelock-horizon", "execution exceeded the step horizon"
			}
			got := rec.outcome(p)
			// a sequential order that respects real-time order and yields the same outcome?
			for oi, ord := range ords {
				if seqOut[oi] != got {
					continue
				}
				okRT := true
				for i := 0; i < len(ord) && okRT; i++ {
					for j := i + 1; j < len(ord); j++ {
						a, b := ord[i], ord[j] // a before b in the sequential order
						if rec.ret[b.th][b.ix] < rec.inv[a.th][a.ix] {
							okRT = false // b had returned before a was invoked
							break
						}
					}
				}
				if okRT {
					return "", ""
				}
			}
			allowed := map[string]bool{}
			for _, s := range seqOut {
				allowed[s] = true
			}
			var al []string
			for s := range allowed {
				al = append(al, s)
			}
			sort.Strings(al)
			return key + "/not-linearizable", fmt.Sprintf("concurrent outcome %q (results per call | ... # final observation) equals no sequential run that respects the real-time order; sequential outcomes: %q", got, al)
		}
		body := func() {
			inst := init.mk()
			var wg sync.WaitGroup
			wg.Add(len(p))
			for th, calls := range p {
				th, calls := th, calls
				vrt.Go(func() {
					defer wg.Done()
					for ix, oi := range calls {
						op := t.ops[oi]
						rec.inv[th][ix] = vrt.Stamp()
						rec.res[th][ix] = safeCall(func() string { return op.run(inst) })
						rec.ret[th][ix] = vrt.Stamp()
					}
				})
			}
			wg.Wait()
			rec.final = safeCall(func() string { return t.final(inst) })
		}
		reset := func() {
			for i := range rec.res {
				for j := range rec.res[i] {
					rec.res[i][j], rec.inv[i][j], rec.ret[i][j] = "", 0, 0
				}
			}
		}
		if r := replayReq; r != nil {
			reset()
			x := vrt.Run(r.Choices, 20000, !thorough, body)
			k, detail := judge(x)
			fmt.Printf("replay %s init=%s program %s\n  schedule (thread ids): %v\n  outcome: %s\n", t.name, init.name, p.String(t), x.Schedule(), rec.outcome(p))
			if k != "" {
				fmt.Printf("  FAIL %s: %s\n", k, detail)
			}
			r.Seen, r.Hit = true, k == r.Key
			return
		}
		e := &vrt.Explorer{Horizon: 20000, Quick: !thorough, Budget: budget, Deadline: deadline, MaxBound: 3}
		e.StopEarly = func() bool { return violated }
		e.Check = func(x *vrt.Exec) {
			if violated {
				return
			}
			got := rec.outcome(p)
			outcomes[got] = true
			sched := append([]int16{}, x.Schedule()...)
			if os.Getenv("VERIF_C02_ONLY") != "" {
				fmt.Fprintln(os.Stderr, "schedule:", sched, got)
			}
			if len(states) < 2000000 {
				states[fmt.Sprint(st.Scenarios, got, len(sched))] = struct{}{}
			}
			k, detail := judge(x)
			if k == "" {
				return
			}
			violated = true
			choices := append([]int{}, e.LastChoices...)
			wit := map[string]any{"type": t.name, "initial": init.name, "program": p.String(t), "schedule_thread_ids": sched}
			rp := map[string]any{"engine": "conc", "check": "C02", "sub": "C02worker", "shard": arg, "type": t.name, "init": ii, "program": [][]int(p), "choices": choices}
			// believed only if the same choice sequence fails the same way five more times
			for i := 0; i < 5; i++ {
				reset()
				x2 := vrt.Run(choices, 20000, !thorough, body)
				// (a deadlocked execution has no complete outcome: the threads that never returned left whatever
				// an earlier execution wrote in their slots, so only the verdict is compared there)
				if k2, _ := judge(x2); k2 != k || (!strings.HasSuffix(k, "/deadlock") && rec.outcome(p) != got) || x2.Diverged != "" {
					st.Diverged = fmt.Sprintf("%s: violation %q not reproduced identically on re-execution %d (got %q %s)", p.String(t), k, i+1, k2, x2.Diverged)
					return
				}
			}
			out.finding(wFinding{k, detail, wit, rp})
		}
		reset()
		e.Explore(body)
		st.Execs += e.Execs
		st.Steps += e.Steps
		st.Outcomes += len(outcomes)
		if e.Diverged != "" {
			st.Diverged = p.String(t) + ": " + e.Diverged
			break
		}
		if violated {
			bad = append(bad, p.methodsKey(t))
		} else if !e.Complete {
			st.Incomplete++
			if st.MinBound < 0 || e.BoundDone < st.MinBound {
				st.MinBound = e.BoundDone
			}
		}
		if len(outcomes) <= 1 && len(p) > 1 && !violated {
			st.NoCollision++
		}
		if os.Getenv("VERIF_C02_ONLY") != "" {
			for o := range outcomes {
				fmt.Fprintln(os.Stderr, "outcome:", o)
			}
			fmt.Fprintln(os.Stderr, "sequential:", seqOut, "schedules:", e.Execs, "complete:", e.Complete)
		}
		if st.Scenarios%400 == 1 && len(st.Samples) < 3 {
			st.Samples = append(st.Samples, fmt.Sprintf("%s init=%s program: %s  (%d schedules, %d distinct outcomes, %d sequential orders)", t.name, init.name, p.String(t), e.Execs, len(outcomes), len(ords)))
		}
	}
	st.States = len(states)
	out.stats(st)
}
