package main

import (
	"fmt"

	"github.com/esimov/gogu/stack"
	"verif/seqmc"
)

// C06 — LIFO stacks. Reference model: a Go slice (top = last element).

func init() {
	registry["C06"] = func() []*seqmc.Spec {
		cap := 4
		pairCap := 2
		if thorough {
			cap = 9
			pairCap = 3
		}
		return []*seqmc.Spec{
			{Property: "C06", Component: "Stack", Inits: []string{"empty"}, New: func(string) seqmc.Sys {
				return &stackSys{name: "Stack", s: stack.New[int](), cap: cap}
			}},
			{Property: "C06", Component: "LStack", Inits: []string{"1", "2", "3"}, New: func(in string) seqmc.Sys {
				v := int(in[0] - '0')
				return &stackSys{name: "LStack", s: stack.NewLinked[int](v), model: []int{v}, cap: cap}
			}},
			// two instances side by side (whatever the implementation keeps at package level)
			{Property: "C06", Component: "Stack x Stack", KeyName: "Stack", Inits: []string{"empty"}, New: func(string) seqmc.Sys {
				return seqmc.Pair(&stackSys{name: "Stack", s: stack.New[int](), cap: pairCap}, &stackSys{name: "Stack", s: stack.New[int](), cap: pairCap})
			}},
			{Property: "C06", Component: "LStack x LStack", KeyName: "LStack", Inits: []string{"1"}, New: func(string) seqmc.Sys {
				return seqmc.Pair(&stackSys{name: "LStack", s: stack.NewLinked[int](1), model: []int{1}, cap: pairCap}, &stackSys{name: "LStack", s: stack.NewLinked[int](2), model: []int{2}, cap: pairCap})
			}},
		}
	}
}

type lifo interface {
	Push(int)
	Pop() int
	Peek() int
	Search(int) bool
	Size() int
}

type stackSys struct {
	name  string
	s     lifo
	model []int
	cap   int
}

func (s *stackSys) Ops() []seqmc.Op {
	ops := []seqmc.Op{}
	if len(s.model) < s.cap {
		ops = append(ops, op("Push", 1), op("Push", 2), op("Push", 3))
	}
	return append(ops, op("Pop"))
}

func (s *stackSys) Apply(o seqmc.Op, c *seqmc.Ctx) {
	switch o.N {
	case "Push":
		s.s.Push(o.I[0])
		s.model = append(s.model, o.I[0])
	case "Pop":
		if len(s.model) == 0 {
			before := seqmc.DumpShallow(s.s, "prev")
			if got := s.s.Pop(); got != 0 {
				c.Soft(s.name+".Pop/empty-returns-nonzero/"+classify(got, nil), "Pop on an empty stack returned %d, want the zero value", got)
			}
			if after := seqmc.DumpShallow(s.s, "prev"); after != before {
				c.Fail(s.name+".Pop/empty-changes-state", "Pop on an empty stack changed it (Size now %d)", s.s.Size())
			}
			return
		}
		want := s.model[len(s.model)-1]
		got := s.s.Pop()
		if got != want {
			cls := classify(got, s.model)
			if len(s.model) >= 2 && got == s.model[len(s.model)-2] && got != want {
				cls = "got=element-below-top"
			}
			sz := "size>=2"
			if len(s.model) == 1 {
				sz = "size=1"
			}
			c.Soft(s.name+".Pop/wrong-element/"+sz+"/"+cls, "Pop returned %d, want %d (held bottom..top %v)", got, want, s.model)
		}
		s.model = s.model[:len(s.model)-1]
	default:
		panic("unknown op " + o.N)
	}
}

func (s *stackSys) Observe(c *seqmc.Ctx) {
	if n := s.s.Size(); n != len(s.model) {
		cls := "wrong"
		if n < 0 {
			cls = "negative"
		}
		c.Fail(s.name+".Size/"+cls, "Size = %d, want %d (held %v)", n, len(s.model), s.model)
	}
	want := 0
	if len(s.model) > 0 {
		want = s.model[len(s.model)-1]
	}
	if got := s.s.Peek(); got != want {
		k := "Peek/not-the-top/"
		if len(s.model) == 0 {
			k = "Peek/nonzero-on-empty/"
		}
		c.Fail(s.name+"."+k+classify(got, s.model), "Peek = %d, want %d (held %v)", got, want, s.model)
	}
	for v := 0; v <= 4; v++ {
		held := false
		for _, m := range s.model {
			held = held || m == v
		}
		if got := s.s.Search(v); got != held {
			c.Fail(fmt.Sprintf("%s.Search/reports-%t-for-%s", s.name, got, map[bool]string{true: "held", false: "absent"}[held]+zeroTag(v)), "Search(%d) = %t with %v held", v, got, s.model)
		}
	}
}

func (s *stackSys) Key() string { return seqmc.DumpShallow(s.s, "prev") + "|" + fmt.Sprint(s.model) }
