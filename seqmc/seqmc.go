// Package seqmc is an explicit-state breadth-first model checker whose
// transition function is the real method call: a state is reached by
// replaying an operation path on a fresh instance (real objects cannot be
// cloned), the state key is a canonical dump of the object's private heap
// graph paired with the reference model, and an oracle compares
// implementation and model after every step.
package seqmc

import (
	"fmt"
	"os"
	"runtime"
	"runtime/debug"
	"sort"
	"strings"
	"sync"
	"sync/atomic"
	"time"

	"verif/core"
)

// Op is one operation of the alphabet; it round-trips through JSON exactly.
type Op struct {
	N string   `json:"n"`
	I []int    `json:"i,omitempty"`
	S []string `json:"s,omitempty"`
}

func (o Op) String() string {
	var p []string
	for _, i := range o.I {
		p = append(p, fmt.Sprint(i))
	}
	for _, s := range o.S {
		p = append(p, fmt.Sprintf("%q", s))
	}
	return o.N + "(" + strings.Join(p, ",") + ")"
}

type Fail struct {
	Key, Detail string
	// Soft marks a deviation of a returned value only: implementation state and
	// model still agree (the observer suite re-checks that), so when the finding
	// is a listed known finding the search continues behind it.
	Soft bool
}

// Ctx collects oracle failures of one transition.
type Ctx struct {
	// Prune asks the engine not to expand this state (and not to report it).
	Prune bool
	Fails []Fail
	// Copy re-creates the current state on a fresh instance (replay), for
	// observers that must consume it (drains).
	Copy func() Sys
}

func (c *Ctx) Fail(key, format string, a ...any) {
	c.Fails = append(c.Fails, Fail{key, fmt.Sprintf(format, a...), false})
}

// Soft reports a wrong return value that leaves implementation and model in agreement.
func (c *Ctx) Soft(key, format string, a ...any) {
	c.Fails = append(c.Fails, Fail{key, fmt.Sprintf(format, a...), true})
}

func (c *Ctx) hard() bool {
	for _, f := range c.Fails {
		if !f.Soft {
			return true
		}
	}
	return false
}

// Sys is one real object paired with its reference model.
type Sys interface {
	Ops() []Op           // operations enabled in this state (caps applied)
	Apply(op Op, c *Ctx) // run op on implementation and model, report deviations
	Observe(c *Ctx)      // observer suite; must not change the state
	Key() string         // canonical key: Dump(impl) + model
}

type Spec struct {
	Property  string
	Component string
	KeyName   string // prefix of engine-generated finding keys; defaults to Component
	Inits     []string
	New       func(init string) Sys
	MaxDepth  int // 0 = until fixpoint
	MaxStates int // safety cap; 0 = none
	Deadline  time.Duration
	Workers   int // goroutines expanding the frontier; 0 = all cores (1 for systems that use process-global seams)
	// PureObservers: the property itself says that the observers leave the object unchanged (trie, lists),
	// so a change of the private state by the observer suite is a finding. Otherwise such a change is
	// legitimate (a lookup cache, lazy clean-up) and the engine reacts by making the observer suite an
	// operation of the alphabet ("<observe>"), so that histories with and without queries in between are
	// both explored and judged by what the calls return.
	PureObservers bool
	observeOp     bool // set by Run after the observers were seen to change the state
}

var traceComp = os.Getenv("VERIF_SEQ_TRACE") // debugging aid: print every transition of one component

type Path struct {
	Init string `json:"init"`
	Ops  []Op   `json:"ops"`
}

func (sp *Spec) keyName() string {
	if sp.KeyName != "" {
		return sp.KeyName
	}
	return sp.Component
}

func (p Path) String() string {
	var s []string
	for _, o := range p.Ops {
		s = append(s, o.String())
	}
	return p.Init + ": " + strings.Join(s, "; ")
}

type Stats struct {
	ObserversStateful                       bool // the observer suite changed the private state somewhere
	States, Transitions, Cut, Depth, Pruned int
	Exhaustive                              bool
	Closure                                 string
}

// Build replays path on a fresh instance without checking.
func (sp *Spec) Build(p Path) (s Sys, err error) {
	defer func() {
		if r := recover(); r != nil {
			err = fmt.Errorf("panic during replay: %v", r)
		}
	}()
	s = sp.New(p.Init)
	var c Ctx
	for i, o := range p.Ops {
		if o.N == ObserveOp {
			i := i
			oc := &Ctx{Copy: func() Sys { x, _ := sp.Build(Path{p.Init, p.Ops[:i]}); return x }}
			s.Observe(oc)
			continue
		}
		s.Apply(o, &c)
	}
	return s, nil
}

type result struct {
	op         Op
	fails      []Fail
	key        string
	prune      bool
	obsChanged bool
}

// ObserveOp is the engine-provided operation "run the observer suite" (see Spec.PureObservers).
const ObserveOp = "<observe>"

// step builds path, applies op with checks and observers.
func (sp *Spec) step(p Path, op Op) (res result) {
	res.op = op
	np := Path{p.Init, append(append([]Op{}, p.Ops...), op)}
	s, err := sp.Build(p)
	if err != nil {
		res.fails = append(res.fails, Fail{sp.Component + "/replay-panic", err.Error(), false})
		return
	}
	c := &Ctx{}
	c.Copy = func() Sys { x, _ := sp.Build(np); return x }
	obsKey := ""
	opClass := op.N
	if oc, ok := s.(interface{ OpClass(Op) string }); ok && op.N != ObserveOp {
		opClass = oc.OpClass(op) // evaluated on the pre-state
	}
	func() {
		defer func() {
			if r := recover(); r != nil {
				c.Fail(fmt.Sprintf("%s.%s/panic", sp.keyName(), opClass), "panic: %v\n%s", r, trimStack(debug.Stack()))
			}
		}()
		if op.N == ObserveOp {
			s.Observe(c)
			for i := range c.Fails {
				c.Fails[i].Key = attribute(sp.Component, "observers", c.Fails[i].Key)
			}
			return
		}
		s.Apply(op, c)
	}()
	if !c.hard() {
		func() {
			defer func() {
				if r := recover(); r != nil {
					c.Fail(fmt.Sprintf("%s.observers/after-%s/panic", sp.keyName(), opClass), "panic in observer suite: %v\n%s", r, trimStack(debug.Stack()))
				}
			}()
			before := s.Key()
			n0 := len(c.Fails)
			s.Observe(c)
			for i := n0; i < len(c.Fails); i++ {
				c.Fails[i].Key = attribute(sp.Component, opClass, c.Fails[i].Key)
			}
			if after := s.Key(); after != before && !c.hard() {
				if sp.PureObservers {
					c.Fail(sp.keyName()+".observers/changed-state", "observers changed the state:\n before %s\n after  %s", before, after)
				} else {
					res.obsChanged = true
					obsKey = before // successors are built without the observer calls
				}
			}
		}()
	}
	res.fails = c.Fails
	res.prune = c.Prune
	if !c.hard() {
		res.key = s.Key()
		if obsKey != "" {
			res.key = obsKey
		}
	}
	return
}

// attribute rewrites an observer failure key "Comp.Query/clause" to
// "Comp.Query/after-<op>/clause": the operation that produced the state is
// part of what identifies a finding.
func attribute(comp, opName, key string) string {
	i := strings.Index(key, "/")
	if i < 0 {
		return key + "/after-" + opName
	}
	return key[:i] + "/after-" + opName + key[i:]
}

// Hung counts steps abandoned by the watchdog (their goroutines keep spinning).
var Hung atomic.Int64

// guardedStep runs step under a watchdog: an operation that loops forever on
// a corrupted structure (e.g. a cyclic list) must become a finding, not a hung
// check. The limit is generous (the operations take microseconds) and a
// timeout is confirmed by a second, longer attempt before it is believed.
func (sp *Spec) guardedStep(p Path, op Op) result {
	try := func(limit time.Duration) (result, bool) {
		ch := make(chan result, 1)
		go func() { ch <- sp.step(p, op) }()
		select {
		case r := <-ch:
			return r, true
		case <-time.After(limit):
			Hung.Add(1)
			return result{}, false
		}
	}
	if r, ok := try(10 * time.Second); ok {
		return r
	}
	if r, ok := try(60 * time.Second); ok {
		return r
	}
	s, _ := sp.Build(p)
	cls := op.N
	if oc, ok := s.(interface{ OpClass(Op) string }); ok && op.N != ObserveOp {
		cls = oc.OpClass(op)
	}
	return result{op: op, fails: []Fail{{Key: fmt.Sprintf("%s.%s/does-not-terminate", sp.keyName(), cls), Detail: "the operation (or the observer suite after it) did not return within 60 s"}}}
}

func trimStack(b []byte) string {
	lines := strings.Split(string(b), "\n")
	var out []string
	for _, l := range lines {
		if strings.Contains(l, "/repo/") || strings.Contains(l, "gogu") {
			out = append(out, strings.TrimSpace(l))
		}
		if len(out) >= 6 {
			break
		}
	}
	return strings.Join(out, " | ")
}

// Run explores sp breadth-first and records findings in rep. If the observer suite turns out to
// change the private state of the object (and the property does not forbid that), the search is
// repeated with the observer suite as an additional operation of the alphabet.
func (sp *Spec) Run(rep *core.Report) Stats {
	st := sp.runOnce(rep)
	if st.ObserversStateful && !sp.observeOp {
		sp.observeOp = true
		st2 := sp.runOnce(rep)
		st2.Transitions += st.Transitions
		st2.ObserversStateful = true
		return st2
	}
	return st
}

func (sp *Spec) runOnce(rep *core.Report) Stats {
	start := time.Now()
	seen := map[string]struct{}{}
	var frontier []Path
	st := Stats{Exhaustive: true}
	for _, in := range sp.Inits {
		p := Path{Init: in}
		s, err := sp.Build(p)
		if err != nil {
			rep.Add(sp.Component+"/init-panic", err.Error(), p, sp.replay(p))
			continue
		}
		c := &Ctx{Copy: func() Sys { x, _ := sp.Build(p); return x }}
		func() {
			defer func() {
				if r := recover(); r != nil {
					c.Fail(sp.Component+".observe/panic", "panic in observer suite on init: %v", r)
				}
			}()
			s.Observe(c)
		}()
		for i := range c.Fails {
			c.Fails[i].Key = attribute(sp.Component, "init", c.Fails[i].Key)
		}
		if len(c.Fails) > 0 {
			cut := false
			for _, f := range c.Fails {
				rep.Add(f.Key, f.Detail, p.String(), sp.replay(p))
				if !f.Soft || !rep.IsKnown(f.Key) {
					cut = true
				}
			}
			if cut {
				st.Cut++
				continue
			}
		}
		k := s.Key()
		if _, ok := seen[k]; !ok {
			seen[k] = struct{}{}
			frontier = append(frontier, p)
		}
	}
	workers := runtime.NumCPU()
	if sp.Workers > 0 {
		workers = sp.Workers
	}
	depth := 0
	for len(frontier) > 0 {
		if sp.MaxDepth > 0 && depth >= sp.MaxDepth {
			st.Exhaustive = false
			st.Closure = fmt.Sprintf("depth %d", depth)
			break
		}
		if sp.Deadline > 0 && time.Since(start) > sp.Deadline {
			st.Exhaustive = false
			st.Closure = fmt.Sprintf("deadline at depth %d", depth)
			break
		}
		maxStates := sp.MaxStates
		if maxStates == 0 {
			maxStates = 1500000 // safety net: a (changed) implementation whose private state grows without bound must end in a capped run, not in an out-of-memory kill
		}
		if len(seen) > maxStates {
			st.Exhaustive = false
			st.Closure = fmt.Sprintf("state cap at depth %d", depth)
			break
		}
		var next []Path
		capped := false
		const chunk = 4096
		for lo := 0; lo < len(frontier) && !capped; lo += chunk {
			hi := lo + chunk
			if hi > len(frontier) {
				hi = len(frontier)
			}
			part := frontier[lo:hi]
			results := make([][]result, len(part))
			var wg sync.WaitGroup
			ch := make(chan int, len(part))
			for i := range part {
				ch <- i
			}
			close(ch)
			for w := 0; w < workers; w++ {
				wg.Add(1)
				go func() {
					defer wg.Done()
					for i := range ch {
						p := part[i]
						s, err := sp.Build(p)
						if err != nil {
							results[i] = []result{{fails: []Fail{{sp.Component + "/replay-panic", err.Error(), false}}}}
							continue
						}
						var ops []Op
						func() {
							defer func() { recover() }()
							ops = s.Ops()
						}()
						if sp.observeOp {
							ops = append(append([]Op{}, ops...), Op{N: ObserveOp})
							// ... and, if the system offers them, the individual queries as operations of
							// their own (which query came last may matter to a stateful implementation)
							if qo, ok := s.(interface{ QueryOps() []Op }); ok {
								ops = append(ops, qo.QueryOps()...)
							}
						}
						rs := make([]result, 0, len(ops))
						for _, op := range ops {
							rs = append(rs, sp.guardedStep(p, op))
						}
						results[i] = rs
					}
				}()
			}
			wg.Wait()
			for i, rs := range results {
				p := part[i]
				for _, r := range rs {
					st.Transitions++
					if r.obsChanged {
						st.ObserversStateful = true
					}
					np := Path{p.Init, append(append([]Op{}, p.Ops...), r.op)}
					if traceComp != "" && traceComp == sp.Component {
						fmt.Fprintf(os.Stderr, "trace %s: %s -> fails=%d key=%.60q\n", sp.Component, np.String(), len(r.fails), r.key)
					}
					if len(r.fails) > 0 {
						cut := false
						for _, f := range r.fails {
							rep.Add(f.Key, f.Detail, np.String(), sp.replay(np))
							if !f.Soft || !rep.IsKnown(f.Key) {
								cut = true
							}
						}
						if cut || r.key == "" {
							st.Cut++
							continue
						}
					}
					if r.prune {
						st.Pruned++
						continue
					}
					if _, ok := seen[r.key]; !ok {
						seen[r.key] = struct{}{}
						next = append(next, np)
						if n := len(seen); n == 2 || n == 12 || n == 60 || n%997 == 1 {
							rep.Sample(sp.Component + " " + np.String())
						}
					}
				}
			}
			if len(seen) > maxStates || (sp.Deadline > 0 && time.Since(start) > sp.Deadline) {
				capped = true
			}
		}
		if capped {
			st.Exhaustive = false
			st.Closure = fmt.Sprintf("state/time cap inside depth %d (states %d)", depth+1, len(seen))
			break
		}
		frontier = next
		depth++
	}
	if st.Exhaustive {
		st.Closure = "fixpoint"
	}
	st.States = len(seen)
	st.Depth = depth
	return st
}

type ReplayInfo struct {
	Engine    string `json:"engine"`
	Component string `json:"component"`
	Path      Path   `json:"path"`
}

func (sp *Spec) replay(p Path) ReplayInfo { return ReplayInfo{"seqmc", sp.Component, p} }

// Replay re-executes a path with all checks and returns the failures of its last step.
func (sp *Spec) Replay(p Path) []Fail {
	if len(p.Ops) == 0 {
		return nil
	}
	r := sp.step(Path{p.Init, p.Ops[:len(p.Ops)-1]}, p.Ops[len(p.Ops)-1])
	return r.fails
}

// Merge folds per-spec stats into the report's coverage.
func Merge(rep *core.Report, comp string, st Stats) {
	rep.Inc("states", st.States)
	rep.Inc("transitions", st.Transitions)
	rep.Inc("traces_validated_against_impl", st.Transitions)
	rep.Inc("transitions_cut_by_findings", st.Cut)
	per, _ := rep.Coverage["per_component"].(map[string]any)
	if per == nil {
		per = map[string]any{}
	}
	per[comp] = map[string]any{"observer_suite_added_to_alphabet": st.ObserversStateful, "states": st.States, "transitions": st.Transitions, "cut": st.Cut, "pruned_latent": st.Pruned, "depth": st.Depth, "exhaustive": st.Exhaustive, "closure": st.Closure}
	rep.Set("per_component", per)
	ex, ok := rep.Coverage["exhaustive"].(bool)
	if !ok {
		ex = true
	}
	rep.Set("exhaustive", ex && st.Exhaustive)
	_ = sort.Strings
}
