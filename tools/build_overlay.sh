#!/bin/bash
# tools/build_overlay.sh <engine>   engine: pure | conc | conc_race
# Regenerates the instrumented copy of /repo's current tree (vinstr) and builds the harness with `go build -overlay`.
cd "$(dirname "$0")/.." || exit 2
export GOFLAGS=-mod=mod GOPROXY=off GOSUMDB=off GOTOOLCHAIN=local
eng=$1
scratch="$(pwd)/.scratch/$eng"
mkdir -p bin .scratch
exec 9>".scratch/$eng.lock"
flock 9
go build -o bin/vinstr ./cmd/vinstr || exit 2
rm -rf "$scratch"
mode=full
pkg=./props/conc
flags=""
case $eng in
  pure) mode=seams; pkg=./props/pure ;;
  conc) ;;
  conc_race) flags="-race" ;;
  *) echo "unknown engine $eng" >&2; exit 2 ;;
esac
bin/vinstr -repo /repo -out "$scratch" -verif "$(pwd)" -mode $mode || { echo "vinstr failed" >&2; exit 2; }
go build $flags -overlay "$scratch/overlay.json" -tags verif -o "bin/$eng" $pkg || exit 2
