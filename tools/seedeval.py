#!/usr/bin/env python3
"""tools/seedeval.py <src-dir> <property> <name> [--checks C01,C02] [--race] [--tier quick]

Confirms a seeded property-breaking change and runs the checks against it.
  <src-dir> holds patch.diff, demo_test.go (first line "// place: <dir>") and notes.md.
Steps (scratch worktree of /repo's HEAD under /tmp, removed afterwards):
  1. patch applies; library builds; the pinned suite (174 stable tests) passes with the change
  2. the demonstration FAILS with the change and PASSES without it
  3. apply the patch to /repo itself, run the named checks (default: the property's own), undo
Writes /verif/seeded/<name>/{patch.diff,demo_test.go,notes.md,meta.json}.
"""
import json, os, re, shutil, subprocess, sys, time

ENV = dict(os.environ, GOFLAGS="-mod=mod", GOPROXY="off", GOSUMDB="off", GOTOOLCHAIN="local")
VERIF = os.path.dirname(os.path.dirname(os.path.abspath(__file__)))


def sh(cmd, cwd=None, timeout=3600):
    p = subprocess.run(cmd, shell=True, cwd=cwd, env=ENV, stdout=subprocess.PIPE, stderr=subprocess.STDOUT, text=True, timeout=timeout)
    return p.returncode, p.stdout


def main():
    args = [a for a in sys.argv[1:] if not a.startswith("--")]
    src, prop, name = args[0], args[1], args[2]
    opts = {a.split("=")[0]: (a.split("=") + [""])[1] for a in sys.argv[1:] if a.startswith("--")}
    checks = opts.get("--checks", prop).split(",")
    tier = opts.get("--tier", "quick")
    patch = os.path.join(src, "patch.diff")
    demo = os.path.join(src, "demo_test.go")
    notes = open(os.path.join(src, "notes.md")).read() if os.path.exists(os.path.join(src, "notes.md")) else ""
    race = "--race" in opts
    place = re.match(r"//\s*place:\s*(\S+)", open(demo).readline()).group(1).strip("/")
    if place in (".", "root", "<root>"):
        place = ""
    tests = re.findall(r"^func (Test\w+)\(", open(demo).read(), re.M)
    meta = {"property": prop, "name": name, "repo_head": sh("git -C /repo rev-parse --short HEAD")[1].strip(), "ran": [], "demo_tests": tests, "demo_place": place or ".", "demo_uses_race_detector": race}
    recheck = "--recheck" in opts and os.path.exists(os.path.join(VERIF, "seeded", name, "meta.json"))
    if recheck:
        old = json.load(open(os.path.join(VERIF, "seeded", name, "meta.json")))
        if not old.get("confirmed"):
            print("not a confirmed seed")
            return 3
        for k in ("suite_passes_with_change", "demo_fails_with_change", "demo_passes_without_change", "ran", "needs_to_manifest"):
            if k in old:
                meta[k] = old[k]
        opts.setdefault("--needs", old.get("needs_to_manifest", "see notes.md"))
        patch = os.path.join(VERIF, "seeded", name, "patch.diff")
    wt = f"/tmp/sv_{name}"
    sh(f"git -C /repo worktree remove --force {wt}")
    rc, out = sh(f"git -C /repo worktree add --detach {wt} HEAD")
    if rc:
        print(out)
        return 2
    ok = True
    try:
        if recheck:
            rc, out = sh(f"git apply {patch}", cwd=wt)
            if rc:
                print("STORED PATCH NO LONGER APPLIES\n" + out)
                return 2
            newpatch = sh("git add -A -N . && git diff", cwd=wt)[1]  # -N: new files are part of the diff
            raise StopIteration
        rc, out = sh(f"git apply --3way {patch} 2>&1 || git apply {patch}", cwd=wt)
        meta["ran"].append({"cmd": "git apply patch.diff (scratch worktree)", "rc": rc})
        if rc:
            print("PATCH DOES NOT APPLY\n" + out)
            return 2
        sh("git reset -q", cwd=wt)
        # refresh the stored patch against the current HEAD (-N: files the change adds are part of the diff)
        newpatch = sh("git add -A -N . && git diff", cwd=wt)[1]
        rc, out = sh("go build ./... && go vet ./... >/dev/null 2>&1; go build ./...", cwd=wt)
        meta["ran"].append({"cmd": "go build ./...", "rc": rc})
        if rc:
            print("BUILD FAILS\n" + out)
            return 2
        rc, out = sh(f"{VERIF}/tools/baseline.sh {wt}")
        meta["ran"].append({"cmd": "pinned suite with the change (tools/baseline.sh)", "rc": rc, "out": out.strip().splitlines()[-1:]})
        meta["suite_passes_with_change"] = rc == 0
        if rc:
            print("SUITE FAILS WITH CHANGE\n" + out)
            ok = False
        dst = os.path.join(wt, place, "zz_seeded_demo_test.go")
        shutil.copy(demo, dst)
        run = "|".join(tests) if tests else "."
        flag = "-race" if race else ""
        cmd = f"go test {flag} -vet=off -count=1 -timeout 10m -run '^({run})$' ./{place}"
        fails = 0
        for i in range(3):
            rc, out = sh(cmd, cwd=wt)
            if rc:
                fails += 1
        meta["ran"].append({"cmd": cmd + "  (with the change, 3 runs)", "failed_runs": fails, "tail": out.strip().splitlines()[-6:]})
        meta["demo_fails_with_change"] = fails
        if fails == 0:
            print("DEMO DOES NOT FAIL WITH CHANGE")
            ok = False
        # removes the patch (also the files it added), keeps the untracked demo (no git stash: the stash is shared by all worktrees)
        sh("git diff --name-only --diff-filter=A | xargs -r rm -f; git reset -q; git checkout -q -- .", cwd=wt)
        passes = 0
        for i in range(3):
            rc, out = sh(cmd, cwd=wt)
            if rc == 0:
                passes += 1
        meta["ran"].append({"cmd": cmd + "  (without the change, 3 runs)", "passed_runs": passes, "tail": out.strip().splitlines()[-3:]})
        meta["demo_passes_without_change"] = passes
        if passes < 3:
            print("DEMO DOES NOT PASS ON THE UNCHANGED TREE\n" + out)
            ok = False
    except StopIteration:
        pass
    finally:
        sh(f"git -C /repo worktree remove --force {wt}")
        sh("git -C /repo worktree prune")
    meta["confirmed"] = ok
    det = {}
    if ok and "--inplace" not in opts:
        # parallel-safe mode: a scratch worktree with the change + VERIF_REPO/VERIF_OUT (nothing in /repo or /verif is touched)
        wt2, out2 = f"/tmp/svr_{name}", f"/tmp/svo_{name}"
        sh(f"git -C /repo worktree remove --force {wt2}; rm -rf {out2}; mkdir -p {out2}")
        tmp = f"/tmp/sv_{name}.diff"
        open(tmp, "w").write(newpatch)
        rc, out = sh(f"git -C /repo worktree add --detach {wt2} HEAD && git -C {wt2} apply {tmp}")
        try:
            if rc:
                print("cannot prepare scratch tree", out)
                return 2
            for c in checks:
                t0 = time.time()
                rc, out = sh(f"VERIF_REPO={wt2} VERIF_OUT={out2} ./run.sh {c} {tier}", cwd=VERIF, timeout=7200)
                det[c] = {"rc": rc, "mode": "scratch worktree via VERIF_REPO", "wall_s": round(time.time() - t0, 1), "violation_keys": [l.strip()[4:] for l in out.splitlines() if l.startswith("  key=")][:12]}
                print(f"check {c} {tier}: rc={rc}", *det[c]["violation_keys"][:6], sep="\n   ")
                if rc not in (0, 1):
                    print(out[-3000:])
        finally:
            sh(f"git -C /repo worktree remove --force {wt2}; git -C /repo worktree prune; rm -rf {out2} {tmp}")
    elif ok:
        # the procedure of the brief: apply to /repo itself, run the checks, undo straight afterwards
        tmp = f"/tmp/sv_{name}.diff"
        open(tmp, "w").write(newpatch)
        st = sh("git -C /repo status --porcelain")[1].strip()
        if st:
            print("/repo is not clean:", st)
            return 2
        rc, out = sh(f"git -C /repo apply {tmp}")
        if rc:
            print("cannot apply to /repo", out)
            return 2
        out2 = f"/tmp/svo_{name}"
        sh(f"rm -rf {out2}; mkdir -p {out2}")
        try:
            for c in checks:
                t0 = time.time()
                rc, out = sh(f"VERIF_OUT={out2} ./run.sh {c} {tier}", cwd=VERIF, timeout=7200)
                det[c] = {"rc": rc, "mode": "applied to /repo (git apply), undone afterwards", "wall_s": round(time.time() - t0, 1), "violation_keys": [l.strip()[4:] for l in out.splitlines() if l.startswith("  key=")][:12]}
                print(f"check {c} {tier}: rc={rc}", *det[c]["violation_keys"][:6], sep="\n   ")
                if rc not in (0, 1):
                    print(out[-3000:])
        finally:
            sh("git -C /repo checkout -- . && git -C /repo clean -fdq")
            sh(f"rm -rf {out2} {tmp}")
    meta["checks"] = det
    meta["detected_by"] = [c for c, d in det.items() if d["rc"] == 1]
    out = os.path.join(VERIF, "seeded", name)
    os.makedirs(out, exist_ok=True)
    open(os.path.join(out, "patch.diff"), "w").write(newpatch if ok else open(patch).read())
    if os.path.abspath(demo) != os.path.abspath(os.path.join(out, "demo_test.go")):
        shutil.copy(demo, os.path.join(out, "demo_test.go"))
    open(os.path.join(out, "notes.md"), "w").write(notes)
    meta["needs_to_manifest"] = opts.get("--needs", "see notes.md")
    json.dump(meta, open(os.path.join(out, "meta.json"), "w"), indent=1)
    print("confirmed" if ok else "NOT CONFIRMED", "detected_by", meta["detected_by"])
    return 0 if ok else 3


sys.exit(main())
