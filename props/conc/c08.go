//go:build verif

package main

import (
	"encoding/json"
	"fmt"
	"math"
	"os"
	"sort"
	"strconv"
	"strings"
	"time"

	"github.com/esimov/gogu/cache"
	"github.com/esimov/gogu/vrtshim/vrt"
	"verif/core"
	"verif/seqmc"
)

// C08 — expiring cache.
//
// Part A (shards "seq:..."): explicit-state BFS (seqmc) over the real Cache with the cleanup goroutine
// off. Time is an operation of the alphabet: the harness owns the clock (vrt.FakeClock), Advance moves
// it by 2 units and every positive duration is odd, so an observation never coincides with a deadline
// and "before / after the deadline" is decided exactly. State key = canonical form of the private item
// map (value, deadline relative to now; all past deadlines merged) x the reference model; the space is
// finite without any clock horizon, so the search runs to a fixpoint: histories of ANY length and any
// number of clock steps. A separate run ("coincident") moves the clock by 1 unit, reaches now ==
// deadline and accepts either answer there (the statement leaves that instant open).
//
// Part B (shards "jan:..."): the cleanup goroutine is on. Stateless exploration under the controlled
// scheduler of {script thread, the library's own janitor goroutine, a clock thread}, the ticker being
// a virtual timer.

const (
	c08never = int64(math.MaxInt64)
)

var c08durs = []time.Duration{cache.DefaultExpiration, cache.NoExpiration, 3 * unit, 7 * unit}
var c08durNames = []string{"Default", "NoExpiration", "3", "7"}

func init() {
	registry["C08"] = func(rep *core.Report) {
		var shards []string
		for _, d := range []int{-1, 0, 5} {
			shards = append(shards, fmt.Sprintf("seq:%d:string:2", d), fmt.Sprintf("seq:%d:int:2", d))
		}
		shards = append(shards, "seq:5:string:1", "seq:0:string:1", "seq:5:any:2", "seq:0:named:2")
		for _, d := range []int{-1, 0, 5} {
			for g := 0; g < 4; g++ {
				shards = append(shards, fmt.Sprintf("jan:%d:%d", d, g))
			}
		}
		shards = append(shards, "jan-finalizer", "bulk", "jan-graph:-1", "jan-graph:0", "jan-graph:5")
		rep.Set("engine", "seqmc BFS over the real Cache with time as an operation (fixpoint over relative deadlines) + vrt/explore with the janitor goroutine, a clock thread and a script thread (virtual ticker)")
		if !runWorkers(rep, "C08worker", shards, nil) {
			fmt.Fprintln(os.Stderr, "C08: worker failure")
			os.Exit(2)
		}
	}
	subcommands["C08worker"] = c08worker
}

func c08worker(arg string) {
	parts := strings.Split(arg, ":")
	switch parts[0] {
	case "seq":
		def, _ := strconv.Atoi(parts[1])
		step, _ := strconv.Atoi(parts[3])
		c08seqWorker(arg, def, parts[2], step)
	case "jan":
		def, _ := strconv.Atoi(parts[1])
		g, _ := strconv.Atoi(parts[2])
		c08janWorker(arg, def, g)
	case "jan-finalizer":
		c08finalizerWorker(arg)
	case "bulk":
		c08bulkWorker(arg)
	case "jan-graph":
		def, _ := strconv.Atoi(parts[1])
		c08janGraph(arg, def)
	}
}

// ------------------------------------------------------------------ part A: BFS

type c08ent[V comparable] struct {
	val V
	dl  int64 // absolute deadline in units; c08never
}

type c08sys[V comparable] struct {
	ca      *cache.Cache[string, V]
	def     int   // default expiry in units (<=0: never)
	clock   int64 // ns; vrt.FakeClock points here while this system runs
	step    int
	keys    []string
	vals    []V
	rejects func(V) bool
	maps    []map[string]V
	model   map[string]c08ent[V]
}

func c08spec[V comparable](comp string, def, step int, keys []string, vals []V, rejects func(V) bool) *seqmc.Spec {
	// every map over the first two keys (incl. the empty map and rejected values)
	var maps []map[string]V
	mk := keys
	if len(mk) > 2 {
		mk = mk[:2]
	}
	var gen func(i int, cur map[string]V)
	gen = func(i int, cur map[string]V) {
		if i == len(mk) {
			m := map[string]V{}
			for k, v := range cur {
				m[k] = v
			}
			maps = append(maps, m)
			return
		}
		gen(i+1, cur)
		for _, v := range vals {
			cur[mk[i]] = v
			gen(i+1, cur)
			delete(cur, mk[i])
		}
	}
	gen(0, map[string]V{})
	return &seqmc.Spec{Property: "C08", Component: comp, KeyName: "Cache", Inits: []string{"empty"}, Workers: 1,
		New: func(string) seqmc.Sys {
			s := &c08sys[V]{def: def, step: step, keys: keys, vals: vals, rejects: rejects, maps: maps, model: map[string]c08ent[V]{}}
			vrt.FakeClock = &s.clock
			vrt.ResetObjIDs()
			s.ca = cache.New[string, V](time.Duration(def)*unit, 0)
			return s
		}}
}

func (s *c08sys[V]) now() int64 { return s.clock / int64(unit) }

func (s *c08sys[V]) Ops() []seqmc.Op {
	var ops []seqmc.Op
	for ki := range s.keys {
		for vi := range s.vals {
			for di := range c08durs {
				ops = append(ops, seqmc.Op{N: "Set", I: []int{ki, vi, di}})
			}
		}
	}
	for ki := range s.keys {
		for vi := range s.vals {
			ops = append(ops, seqmc.Op{N: "SetDefault", I: []int{ki, vi}})
		}
	}
	for ki := range s.keys {
		for vi := range s.vals {
			for di := range c08durs {
				ops = append(ops, seqmc.Op{N: "Update", I: []int{ki, vi, di}})
			}
		}
	}
	for ki := range s.keys {
		ops = append(ops, seqmc.Op{N: "Delete", I: []int{ki}})
	}
	ops = append(ops, seqmc.Op{N: "Flush"}, seqmc.Op{N: "DeleteExpired"})
	for mi, m := range s.maps {
		open := false // coincident run: a bulk insert over an entry whose liveness is open is left out
		for k := range m {
			if e, ok := s.model[k]; ok && s.liveness(e) == -1 {
				open = true
			}
		}
		if open {
			continue
		}
		for _, di := range []int{0, 2} {
			ops = append(ops, seqmc.Op{N: "MapToCache", I: []int{mi, di}})
		}
	}
	return append(ops, seqmc.Op{N: "Advance"})
}

// OpClass names the operation with the part of its arguments that selects the clause.
func (s *c08sys[V]) OpClass(o seqmc.Op) string { return o.N }

// liveness: 1 live, 0 expired, -1 undetermined (now == deadline; only in the coincident run).
func (s *c08sys[V]) liveness(e c08ent[V]) int {
	switch {
	case e.dl == c08never || s.now() < e.dl:
		return 1
	case s.now() > e.dl:
		return 0
	}
	return -1
}

func (s *c08sys[V]) deadline(d time.Duration) int64 {
	if d == cache.DefaultExpiration {
		d = time.Duration(s.def) * unit
	}
	if d > 0 {
		return s.now() + int64(d/unit)
	}
	return c08never
}

func (s *c08sys[V]) cfg() string { return fmt.Sprintf("[default=%d, t=%d]", s.def, s.now()) }

func (s *c08sys[V]) implHas(k string) bool {
	_, ok := s.ca.List()[k]
	return ok
}

// modelSet is the reference meaning of Set; it returns whether an error is required (1), forbidden (0)
// or open (-1, coincident instant) and applies the effect given the implementation's answer where open.
func (s *c08sys[V]) modelSet(k string, v V, d time.Duration, gotErr bool) (wantErr int, why string) {
	e, stored := s.model[k]
	lv := 0
	if stored {
		lv = s.liveness(e)
	}
	switch {
	case stored && lv == 1:
		return 1, "the key has a live entry"
	case s.rejects(v):
		return 1, "the value is rejected"
	case stored && lv == -1:
		if !gotErr {
			s.model[k] = c08ent[V]{v, s.deadline(d)}
		}
		return -1, ""
	}
	s.model[k] = c08ent[V]{v, s.deadline(d)}
	return 0, "the key has no live entry and the value is acceptable"
}

func (s *c08sys[V]) Apply(o seqmc.Op, c *seqmc.Ctx) {
	vrt.FakeClock = &s.clock
	switch o.N {
	case "Set", "SetDefault":
		k, v := s.keys[o.I[0]], s.vals[o.I[1]]
		d := cache.DefaultExpiration
		call := fmt.Sprintf("SetDefault(%s,%v)", k, v)
		var err error
		if o.N == "Set" {
			d = c08durs[o.I[2]]
			call = fmt.Sprintf("Set(%s,%v,%s)", k, v, c08durNames[o.I[2]])
			err = s.ca.Set(k, v, d)
		} else {
			err = s.ca.SetDefault(k, v)
		}
		rejected := s.rejects(v)
		want, why := s.modelSet(k, v, d, err != nil)
		if want == 1 && err == nil {
			cls := "live-key"
			if rejected {
				cls = "rejected-value"
			}
			c.Soft("Cache."+o.N+"/"+cls+"/no-error", "%s %s returned nil although %s", s.cfg(), call, why)
		} else if want == 0 && err != nil {
			c.Fail("Cache."+o.N+"/spurious-error", "%s %s returned %v although %s", s.cfg(), call, err, why)
		}
	case "Update":
		k, v, d := s.keys[o.I[0]], s.vals[o.I[1]], c08durs[o.I[2]]
		err := s.ca.Update(k, v, d)
		call := fmt.Sprintf("Update(%s,%v,%s)", k, v, c08durNames[o.I[2]])
		if s.rejects(v) {
			if err == nil {
				c.Soft("Cache.Update/rejected-value/no-error", "%s %s returned nil for a rejected value", s.cfg(), call)
			}
			return
		}
		s.model[k] = c08ent[V]{v, s.deadline(d)}
		if err != nil {
			c.Fail("Cache.Update/spurious-error", "%s %s returned %v; Update always stores an acceptable value", s.cfg(), call, err)
		}
	case "Delete":
		k := s.keys[o.I[0]]
		err := s.ca.Delete(k)
		_, stored := s.model[k]
		delete(s.model, k)
		if stored && err != nil {
			c.Fail("Cache.Delete/stored-key/error", "%s Delete(%s) returned %v for a stored key", s.cfg(), k, err)
		} else if !stored && err == nil {
			c.Soft("Cache.Delete/absent-key/no-error", "%s Delete(%s) returned nil for a key that is not stored", s.cfg(), k)
		}
	case "Flush":
		s.ca.Flush()
		s.model = map[string]c08ent[V]{}
	case "DeleteExpired":
		s.ca.DeleteExpired()
		for k, e := range s.model {
			switch s.liveness(e) {
			case 0:
				delete(s.model, k)
			case -1:
				if !s.implHas(k) {
					delete(s.model, k)
				}
			}
		}
	case "MapToCache":
		m, d := s.maps[o.I[0]], c08durs[o.I[1]]
		err := s.ca.MapToCache(m, d)
		needErr := false
		ks := make([]string, 0, len(m))
		for k := range m {
			ks = append(ks, k)
		}
		sort.Strings(ks)
		var whys []string
		for _, k := range ks {
			// the keys of a map are distinct, so the order of the individual Sets does not matter
			if w, why := s.modelSet(k, m[k], d, false); w == 1 {
				needErr = true
				whys = append(whys, k+": "+why)
			}
		}
		call := fmt.Sprintf("MapToCache(%v,%s)", m, c08durNames[o.I[1]])
		if needErr && err == nil {
			c.Soft("Cache.MapToCache/refused-entry/no-error", "%s %s returned nil although %s", s.cfg(), call, strings.Join(whys, "; "))
		} else if !needErr && err != nil {
			c.Fail("Cache.MapToCache/spurious-error", "%s %s returned %v although every entry is storable", s.cfg(), call, err)
		}
	case "Advance":
		s.clock += int64(s.step) * int64(unit)
	}
}

func (s *c08sys[V]) Observe(c *seqmc.Ctx) {
	vrt.FakeClock = &s.clock
	stored, live := 0, 0
	for _, k := range s.keys {
		e, ok := s.model[k]
		lv := 0
		if ok {
			stored++
			lv = s.liveness(e)
			if lv == 1 {
				live++
			}
		}
		it, err := s.ca.Get(k)
		switch {
		case ok && lv == 1:
			if err != nil || it == nil {
				c.Fail("Cache.Get/live-entry-not-returned", "%s Get(%s) = (%v, %v), want the live entry %v (deadline %s)", s.cfg(), k, it, err, e.val, dlStr(e.dl))
			} else if it.Val() != e.val {
				c.Fail("Cache.Get/wrong-value", "%s Get(%s) returned value %v, want the latest stored value %v", s.cfg(), k, it.Val(), e.val)
			}
		case lv == 0:
			if err == nil {
				what := "is not stored"
				if ok {
					what = "expired at " + dlStr(e.dl)
				}
				c.Fail("Cache.Get/missing-or-expired-entry-returned", "%s Get(%s) = (%v, nil) although the key %s", s.cfg(), k, it.Val(), what)
			} else if it != nil {
				c.Fail("Cache.Get/error-with-item", "%s Get(%s) returned both an item and the error %v", s.cfg(), k, err)
			}
		}
		var zero V
		if (*cache.Item[V])(nil).Val() != zero {
			c.Fail("Cache.Item.Val/nil-item", "Val() of a nil item is not the zero value")
		}
		ex := s.ca.IsExpired(k)
		if want := ok && lv == 0; lv != -1 && ex != want {
			cls := "false-for-expired-stored-entry"
			if ex {
				cls = "true-for-live-or-missing-entry"
			}
			c.Fail("Cache.IsExpired/"+cls, "%s IsExpired(%s) = %t, want %t (stored=%t, deadline %s)", s.cfg(), k, ex, want, ok, dlStr(e.dl))
		}
	}
	// Count and List "agree with that map". The code documents List as "items which are not expired"
	// and Count as "existing items": the oracle accepts both readings (all stored entries, or the live
	// ones only) and is exact whenever they coincide.
	if n := s.ca.Count(); n < live || n > stored {
		c.Fail("Cache.Count/disagrees-with-entries", "%s Count() = %d with %d stored entries of which %d are live", s.cfg(), n, stored, live)
	}
	l := s.ca.List()
	for k, it := range l {
		e, ok := s.model[k]
		if !ok {
			c.Fail("Cache.List/lists-entry-that-is-not-stored", "%s List() contains %s", s.cfg(), k)
		} else if it.Val() != e.val {
			c.Fail("Cache.List/wrong-value", "%s List()[%s] = %v, want %v", s.cfg(), k, it.Val(), e.val)
		}
	}
	for k, e := range s.model {
		if _, ok := l[k]; !ok && s.liveness(e) == 1 {
			c.Fail("Cache.List/live-entry-missing", "%s List() lacks the live entry %s", s.cfg(), k)
		}
	}
	// the caller may do what it likes with the listing
	for k := range l {
		delete(l, k)
	}
}

func dlStr(d int64) string {
	if d == c08never {
		return "never"
	}
	return fmt.Sprint(d)
}

func (s *c08sys[V]) rel(abs int64) string {
	if abs == c08never {
		return "N"
	}
	if abs < s.now() {
		return "P"
	}
	return fmt.Sprintf("+%d", abs-s.now())
}

func (s *c08sys[V]) Key() string {
	// The complete private state of the cache (every field, by reflection), with every integer that is
	// an absolute time (>= the virtual epoch) rendered relative to now and all past instants merged:
	// so a field a change might add (a cached "earliest deadline", say) is part of the state, while
	// the space stays finite without a clock horizon.
	nowNs := s.clock + vrt.Epoch.UnixNano()
	floor := vrt.Epoch.UnixNano() - int64(24*time.Hour)
	impl := seqmc.DumpRenamed(s.ca, func(i int64) string {
		switch {
		case i < floor:
			return fmt.Sprint(i)
		case i < nowNs:
			return "P"
		case (i-nowNs)%int64(unit) == 0:
			return fmt.Sprintf("+%d", (i-nowNs)/int64(unit))
		}
		return fmt.Sprintf("+%dns", i-nowNs)
	})
	var sb strings.Builder
	sb.WriteString(impl)
	sb.WriteString("|")
	var ks []string
	for k := range s.model {
		ks = append(ks, k)
	}
	sort.Strings(ks)
	for _, k := range ks {
		fmt.Fprintf(&sb, "%s=%v@%s;", k, s.model[k].val, s.rel(s.model[k].dl))
	}
	return sb.String()
}

type c08shout string

func c08specsFor(def int, vt string, step int) *seqmc.Spec {
	keys := []string{"x", "y", "z"}
	if step == 1 || (vt == "int" && !thorough) {
		keys = keys[:2]
	}
	if thorough && vt == "string" && step == 2 {
		keys = append(keys, "w")
	}
	comp := fmt.Sprintf("Cache(default=%d,V=%s,clock-step=%d,cleanup=off)", def, vt, step)
	switch vt {
	case "any":
		// V = any (the instantiation Memoize uses): what is rejected depends on the dynamic type of each value
		return c08spec[any](comp, def, step, keys[:2], []any{"", "p", 0}, func(v any) bool { return v == "" })
	case "named":
		// a named string type: its empty value is not "an empty string" and is stored like any other value
		return c08spec[c08shout](comp, def, step, keys[:2], []c08shout{"", "P"}, func(c08shout) bool { return false })
	}
	if vt == "int" {
		return c08spec[int](comp, def, step, keys, []int{0, 1}, func(int) bool { return false })
	}
	return c08spec[string](comp, def, step, keys, []string{"", "p", "q"}, func(v string) bool { return v == "" })
}

func c08seqWorker(arg string, def int, vt string, step int) {
	out := newWorkerOut()
	sp := c08specsFor(def, vt, step)
	sp.Deadline = 4 * time.Minute
	if thorough {
		sp.Deadline = 25 * time.Minute
	}
	rep := core.NewReport("C08")
	st := sp.Run(rep)
	vrt.FakeClock = nil
	for _, f := range rep.Findings() {
		out.finding(wFinding{f.Key, f.Detail, map[string]any{"component": sp.Component, "history": f.Witness}, map[string]any{"engine": "conc", "check": "C08", "shard": arg, "path": f.Replay}})
	}
	ws := wStats{Shard: arg, Scenarios: 1, Execs: st.Transitions, Steps: st.Transitions, States: st.States, MinBound: -1, Extra: map[string]int{}}
	if !st.Exhaustive {
		ws.Incomplete = 1
	}
	ws.Extra["bfs_transitions_cut_by_findings"] = st.Cut
	ws.Extra["bfs_depth_"+arg] = st.Depth
	ws.Samples = []string{fmt.Sprintf("%s: states=%d transitions=%d depth=%d closure=%s", sp.Component, st.States, st.Transitions, st.Depth, st.Closure)}
	out.stats(ws)
}

// c08replaySeq re-executes a BFS path of part A with all checks.
func c08replaySeq(a *replayArtefact, file string) int {
	var ri seqmc.ReplayInfo
	if err := json.Unmarshal(a.Replay.Path, &ri); err != nil {
		fmt.Fprintln(os.Stderr, "replay:", err)
		return 2
	}
	parts := strings.Split(a.Replay.Shard, ":")
	if len(parts) != 4 {
		return 2
	}
	def, _ := strconv.Atoi(parts[1])
	step, _ := strconv.Atoi(parts[3])
	sp := c08specsFor(def, parts[2], step)
	fails := sp.Replay(ri.Path)
	vrt.FakeClock = nil
	fmt.Printf("replay %s %s\n", sp.Component, ri.Path)
	hit := false
	for _, fl := range fails {
		fmt.Printf("  FAIL %s: %s\n", fl.Key, fl.Detail)
		hit = hit || fl.Key == a.Key
	}
	if hit {
		fmt.Printf("VIOLATION property=%s replay=%s\n", a.Property, file)
		return 1
	}
	fmt.Println("  not reproduced")
	return 0
}

// c08bulkWorker: sweeps over many entries. Every combination of n short-lived entries (n up to 160 / 420),
// p entries without expiry, q long-lived entries and the default expiry in {-1,0,5}: store, let the short
// ones expire, sweep once with DeleteExpired, and compare Count, List, Get and IsExpired of every entry
// with the map-with-deadlines model. The BFS covers every history over 3-4 keys; this family covers what
// depends on how MANY entries a sweep meets (thresholds, rebuilt maps, batch deletions).
func c08bulkWorker(arg string) {
	out := newWorkerOut()
	N := 160
	if thorough {
		N = 420
	}
	st := wStats{Shard: arg, MinBound: -1, Extra: map[string]int{}}
	reported := map[string]bool{}
	fail := func(key, wit, format string, a ...any) {
		if !reported[key] {
			reported[key] = true
			out.finding(wFinding{key, fmt.Sprintf(format, a...), wit, map[string]any{"engine": "conc", "check": "C08", "sub": "C08worker", "shard": arg}})
		}
	}
	var clock int64
	vrt.FakeClock = &clock
	defer func() { vrt.FakeClock = nil }()
	for _, def := range []int{-1, 0, 5} {
		for n := 0; n <= N; n += 1 + n/64 {
			for p := 0; p <= 2; p++ {
				for q := 0; q <= 2; q += 2 {
					clock = 0
					st.Scenarios++
					wit := fmt.Sprintf("default=%d: %d entries without expiry, %d entries with duration 3, Advance 4, %d entries with duration 7, DeleteExpired", def, p, n, q)
					ca := cache.New[string, int](time.Duration(def)*unit, 0)
					for i := 0; i < p; i++ {
						d := cache.NoExpiration
						if def <= 0 && i == 1 {
							d = cache.DefaultExpiration // a default of zero or less never expires either
						}
						ca.Set(fmt.Sprintf("perm%d", i), 1000+i, d)
					}
					for i := 0; i < n; i++ {
						ca.Set(fmt.Sprintf("s%d", i), i, 3*unit)
					}
					clock += int64(4 * unit)
					for i := 0; i < q; i++ {
						ca.Set(fmt.Sprintf("long%d", i), 2000+i, 7*unit)
					}
					st.Execs += p + n + q + 1
					if c := ca.Count(); c != p+n+q {
						fail("Cache.Count/bulk/before-sweep", wit, "Count = %d before the sweep, want %d stored entries", c, p+n+q)
					}
					for i := 0; i < n; i += 1 + n/8 {
						if !ca.IsExpired(fmt.Sprintf("s%d", i)) {
							fail("Cache.IsExpired/bulk/false-for-expired-stored-entry", wit, "IsExpired(s%d) = false before the sweep", i)
						}
					}
					ca.DeleteExpired()
					if c := ca.Count(); c != p+q {
						fail("Cache.DeleteExpired/bulk/does-not-remove-exactly-the-expired-entries", wit, "Count = %d after the sweep, want %d (the %d entries without expiry and the %d live ones)", c, p+q, p, q)
					}
					l := ca.List()
					for i := 0; i < p; i++ {
						k := fmt.Sprintf("perm%d", i)
						if it, err := ca.Get(k); err != nil || it.Val() != 1000+i {
							fail("Cache.DeleteExpired/bulk/removes-entry-without-expiry", wit, "Get(%s) = (%v, %v) after the sweep", k, it.Val(), err)
						}
						if _, ok := l[k]; !ok {
							fail("Cache.DeleteExpired/bulk/removes-entry-without-expiry", wit, "List() lacks %s after the sweep", k)
						}
					}
					for i := 0; i < q; i++ {
						k := fmt.Sprintf("long%d", i)
						if it, err := ca.Get(k); err != nil || it.Val() != 2000+i {
							fail("Cache.DeleteExpired/bulk/removes-live-entry", wit, "Get(%s) = (%v, %v) after the sweep", k, it.Val(), err)
						}
					}
					for i := 0; i < n; i += 1 + n/8 {
						k := fmt.Sprintf("s%d", i)
						if _, err := ca.Get(k); err == nil {
							fail("Cache.Get/bulk/expired-entry-returned", wit, "Get(%s) succeeds after expiry and sweep", k)
						}
						if _, ok := l[k]; ok {
							fail("Cache.DeleteExpired/bulk/expired-entry-survives", wit, "List() still holds %s after the sweep", k)
						}
					}
					// the survivors keep working: past the long-lived entries' deadline (stored at 4, duration 7)
					clock += int64(8 * unit)
					ca.DeleteExpired()
					if c := ca.Count(); c != p {
						fail("Cache.DeleteExpired/bulk/second-sweep", wit, "Count = %d after the long-lived entries expired and a second sweep, want %d", c, p)
					}
				}
			}
		}
	}
	st.Steps, st.States = st.Execs, st.Scenarios
	// very long durations (decades, centuries, the largest Duration): the deadline is further away than any
	// instant the check reaches, so the entry is live throughout, is not swept, refuses a second Set and is
	// never "expired" -- whatever the arithmetic on such a deadline does internally
	for _, d := range []time.Duration{50 * 365 * 24 * time.Hour, 200 * 365 * 24 * time.Hour, 250 * 365 * 24 * time.Hour, math.MaxInt64 / 2, math.MaxInt64 - 1, math.MaxInt64} {
		for _, viaDefault := range []bool{false, true} {
			clock = 0
			st.Scenarios++
			wit := fmt.Sprintf("entry stored with duration %v (as the cache default: %t), observed now and 8 units later", d, viaDefault)
			var ca *cache.Cache[string, int]
			var err error
			if viaDefault {
				ca = cache.New[string, int](d, 0)
				err = ca.Set("k", 1, cache.DefaultExpiration)
			} else {
				ca = cache.New[string, int](cache.NoExpiration, 0)
				err = ca.Set("k", 1, d)
			}
			if err != nil {
				fail("Cache.Set/very-long-duration/error", wit, "Set returned %v", err)
				continue
			}
			for round := 0; round < 2; round++ {
				if it, err := ca.Get("k"); err != nil || it.Val() != 1 {
					fail("Cache.Get/very-long-duration/live-entry-not-returned", wit, "Get = (%v, %v) at time %d", it, err, clock/int64(unit))
				}
				if ca.IsExpired("k") {
					fail("Cache.IsExpired/very-long-duration/true-for-live-entry", wit, "IsExpired = true at time %d", clock/int64(unit))
				}
				if err := ca.Set("k", 2, 3*unit); err == nil {
					fail("Cache.Set/very-long-duration/live-key-overwritten", wit, "a second Set was granted at time %d", clock/int64(unit))
				}
				ca.DeleteExpired()
				if c := ca.Count(); c != 1 {
					fail("Cache.DeleteExpired/very-long-duration/removes-live-entry", wit, "Count = %d after DeleteExpired at time %d", c, clock/int64(unit))
				}
				clock += int64(8 * unit)
			}
			st.Execs += 10
		}
	}
	st.Samples = []string{fmt.Sprintf("bulk sweeps: %d configurations, up to %d short-lived entries", st.Scenarios, N)}
	out.stats(st)
}
