#!/bin/bash
cd "$(dirname "$0")/.." && python3-vt -c "
import json,jsonschema,glob
jsonschema.validate(json.load(open('MANIFEST.json')),json.load(open('/root/.vp/MANIFEST.schema.json')))
sch=json.load(open('/root/.vp/EVIDENCE.schema.json'))
m=json.load(open('MANIFEST.json'))
for c in m['checks']:
    f=c['evidence_file']
    e=json.load(open(f)); jsonschema.validate(e,sch)
    cov=e['coverage']
    assert e['level']!='model_checking' or all(k in cov for k in ('states','transitions','traces_validated_against_impl','samples')), f
    print(f,'valid', 'states=%s transitions=%s viol=%s wall=%.1f'%(cov.get('states'),cov.get('transitions'),e.get('violations'),e['wall_s']))
print('manifest valid')
"
