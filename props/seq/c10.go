package main

import (
	"fmt"
	"math/bits"
	"sort"

	"github.com/esimov/gogu/btree"
	"verif/core"
	"verif/seqmc"
)

// C10 — B-tree as an ordered map. Reference model: Go map + set of keys ever inserted.

func init() {
	registry["C10"] = func() []*seqmc.Spec {
		keys := 5
		if thorough {
			keys = 6
		}
		return []*seqmc.Spec{{Property: "C10", Component: "BTree", Inits: []string{"empty"}, New: func(string) seqmc.Sys {
			return &btSys{t: btree.New[int, string](), model: map[int]string{}, ever: map[int]bool{}, keys: keys}
		}}}
	}
	extras["C10"] = btreeOrders
}

type btSys struct {
	t     *btree.BTree[int, string]
	model map[int]string
	ever  map[int]bool
	keys  int
}

func (s *btSys) Ops() []seqmc.Op {
	var ops []seqmc.Op
	for k := 0; k < s.keys; k++ {
		ops = append(ops, op("Put", k, 0), op("Put", k, 1), op("Remove", k))
	}
	return ops
}

func (s *btSys) OpClass(o seqmc.Op) string {
	k := o.I[0]
	_, present := s.model[k]
	st := "absent-never-inserted"
	if present {
		st = "present"
	} else if s.ever[k] {
		st = "removed"
	}
	return fmt.Sprintf("%s(%s)", o.N, st)
}

func (s *btSys) Apply(o seqmc.Op, c *seqmc.Ctx) {
	k := o.I[0]
	switch o.N {
	case "Put":
		s.t.Put(k, bstVals[o.I[1]])
		s.model[k] = bstVals[o.I[1]]
		s.ever[k] = true
	case "Remove":
		s.t.Remove(k)
		delete(s.model, k)
	}
}

func btreeObserve(name string, t *btree.BTree[int, string], model map[int]string, ever int, lo, hi int, c func(key, format string, a ...any)) {
	if n := t.Size(); n != len(model) {
		c(name+".Size/"+fmt.Sprintf("off-by-%+d", n-len(model)), "Size = %d, want %d (present %v)", n, len(model), model)
	}
	if e := t.IsEmpty(); e != (len(model) == 0) {
		c(name+".IsEmpty/wrong", "IsEmpty = %t with %d keys present", e, len(model))
	}
	for k := lo; k <= hi; k++ {
		v, ok := t.Get(k)
		want, present := model[k]
		switch {
		case present && !ok:
			c(name+".Get/present-key-not-found", "Get(%d) = (%q,false), want %q", k, v, want)
		case present && v != want:
			c(name+".Get/stale-or-wrong-value", "Get(%d) = %q, want %q", k, v, want)
		case !present && ok:
			c(name+".Get/absent-key-found", "Get(%d) = (%q,true) for a key that is not present (present %v)", k, v, model)
		}
	}
	var got []string
	t.Traverse(func(k int, v string) { got = append(got, fmt.Sprintf("%d=%s", k, v)) })
	ks := make([]int, 0, len(model))
	for k := range model {
		ks = append(ks, k)
	}
	sort.Ints(ks)
	var want []string
	for _, k := range ks {
		want = append(want, fmt.Sprintf("%d=%s", k, model[k]))
	}
	if fmt.Sprint(got) != fmt.Sprint(want) {
		c(name+".Traverse/differs-from-ordered-map", "Traverse visited %v, want %v", got, want)
	}
	n := ever
	if n < 1 {
		n = 1
	}
	if bound := bits.Len(uint(n)) - 1; t.Height() > bound {
		c(name+".Height/exceeds-log2", "Height = %d > floor(log2(max(1,%d))) = %d", t.Height(), ever, bound)
	}
}

func (s *btSys) Observe(c *seqmc.Ctx) {
	btreeObserve("BTree", s.t, s.model, len(s.ever), -1, s.keys, c.Fail)
}

func (s *btSys) Key() string {
	ks := make([]int, 0)
	for k := range s.ever {
		ks = append(ks, k)
	}
	sort.Ints(ks)
	return seqmc.DumpLimited(s.t, map[string]string{"children": "m"}) + "|" + fmt.Sprint(s.model, ks)
}

// btreeOrders: every insertion order of N distinct keys (all N! permutations),
// observer suite after every Put (i.e. on every prefix), so multi-level splits
// are covered whatever the order; plus sorted and reversed runs of 200 keys.
func btreeOrders(rep *core.Report) {
	N := 8
	if thorough {
		N = 9
	}
	perm := make([]int, N)
	for i := range perm {
		perm[i] = i
	}
	count, trans := 0, 0
	maxH := 0
	seenPrefix := map[string]bool{}
	check := func(order []int, full bool) {
		t := btree.New[int, string]()
		model := map[int]string{}
		for i, k := range order {
			t.Put(k, "a")
			model[k] = "a"
			trans++
			if full {
				pk := fmt.Sprint(order[:i+1])
				if seenPrefix[pk] {
					continue
				}
				seenPrefix[pk] = true
			}
			btreeObserve("BTree", t, model, len(model), -1, len(order), func(key, format string, a ...any) {
				rep.Add(key+"/insertion-orders", fmt.Sprintf(format, a...), fmt.Sprintf("Put in order %v", order[:i+1]), map[string]any{"engine": "btree-orders", "order": order[:i+1]})
			})
			if t.Height() > maxH {
				maxH = t.Height()
			}
		}
	}
	var rec func(i int)
	rec = func(i int) {
		if i == N {
			count++
			check(perm, true)
			if count%5000 == 1 {
				rep.Sample(fmt.Sprintf("BTree Put order %v", perm))
			}
			rep.Nontrivial(fmt.Sprint(perm))
			return
		}
		for j := i; j < N; j++ {
			perm[i], perm[j] = perm[j], perm[i]
			rec(i + 1)
			perm[i], perm[j] = perm[j], perm[i]
		}
	}
	rec(0)
	for _, rev := range []bool{false, true} {
		order := make([]int, 200)
		for i := range order {
			order[i] = i
			if rev {
				order[i] = 199 - i
			}
		}
		check(order, false)
	}
	rep.Inc("transitions", trans)
	rep.Inc("traces_validated_against_impl", trans)
	rep.Set("insertion_orders", count)
	rep.Set("max_height_seen", maxH)
}
