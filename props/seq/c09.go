package main

import (
	"fmt"
	"reflect"
	"sort"
	"strings"

	"github.com/esimov/gogu/queue"
	"github.com/esimov/gogu/trie"
	"verif/seqmc"
)

// C09 — ternary search trie as a string-keyed map. Reference model: Go map.

func allStrings(alpha []byte, minLen, maxLen int) []string {
	var out []string
	var rec func(cur []byte)
	rec = func(cur []byte) {
		if len(cur) >= minLen {
			out = append(out, string(cur))
		}
		if len(cur) == maxLen {
			return
		}
		for _, b := range alpha {
			rec(append(append([]byte{}, cur...), b))
		}
	}
	rec(nil)
	return out
}

func init() {
	registry["C09"] = func() []*seqmc.Spec {
		maxKeys, keyLen := 3, 3
		if thorough {
			maxKeys, keyLen = 4, 3
		}
		mk := func(name string, alpha []byte, keyLen, maxKeys int) *seqmc.Spec {
			keys := allStrings(alpha, 1, keyLen)
			queries := allStrings(alpha, 0, keyLen+1)
			return &seqmc.Spec{Property: "C09", Component: name, KeyName: "Trie", Inits: []string{"empty"}, New: func(string) seqmc.Sys {
				return &trieSys{t: trie.New[string, int](queue.New[string]()), model: map[string]int{}, keys: keys, queries: queries, maxKeys: maxKeys}
			}}
		}
		specs := []*seqmc.Spec{
			mk("Trie{a,b}", []byte{'a', 'b'}, keyLen, maxKeys),
			mk("Trie{a,0xE9}", []byte{'a', 0xE9}, 2, maxKeys),
		}
		if thorough {
			specs = append(specs, mk("Trie{a,b,c}", []byte{'a', 'b', 'c'}, 3, 3), mk("Trie{0xC3,0xA9,a}", []byte{0xC3, 0xA9, 'a'}, 2, 4))
		}
		return specs
	}
}

type trieSys struct {
	t       *trie.Trie[string, int]
	model   map[string]int
	keys    []string
	queries []string
	maxKeys int
}

func (s *trieSys) Ops() []seqmc.Op {
	var ops []seqmc.Op
	for _, k := range s.keys {
		if _, ok := s.model[k]; ok || len(s.model) < s.maxKeys {
			ops = append(ops, seqmc.Op{N: "Put", S: []string{k}, I: []int{1}}, seqmc.Op{N: "Put", S: []string{k}, I: []int{2}})
		}
	}
	return ops
}

func (s *trieSys) OpClass(o seqmc.Op) string {
	if o.N != "Put" {
		return o.N
	}
	k := o.S[0]
	if _, ok := s.model[k]; ok {
		return "Put(existing-key)"
	}
	for m := range s.model {
		if strings.HasPrefix(m, k) {
			return "Put(new-key-that-is-a-prefix-of-a-stored-key)"
		}
	}
	return "Put(new-key)"
}

func (s *trieSys) Apply(o seqmc.Op, c *seqmc.Ctx) {
	switch o.N {
	case "LongestPrefix":
		q := o.S[0]
		got, err := s.t.LongestPrefix(q)
		want := ""
		for m := range s.model {
			if strings.HasPrefix(q, m) && len(m) > len(want) {
				want = m
			}
		}
		if err != nil || got != want {
			c.Fail("Trie.LongestPrefix/wrong", "LongestPrefix(%q) = (%q,%v), want %q (stored %q)", q, got, err, want, s.sortedKeys(""))
		}
		return
	case "Get", "Contains": // query operations (only in the alphabet when queries turned out to be stateful)
		q := o.S[0]
		want, present := s.model[q]
		if o.N == "Contains" {
			if has := s.t.Contains(q); has != present {
				c.Fail("Trie.Contains/wrong", "Contains(%q) = %t, stored keys %q", q, has, s.sortedKeys(""))
			}
			return
		}
		if v, ok := s.t.Get(q); ok != present || (ok && v != want) {
			c.Fail("Trie.Get/wrong", "Get(%q) = (%d,%t), want (%d,%t)", q, v, ok, want, present)
		}
		return
	}
	s.t.Put(o.S[0], o.I[0])
	s.model[o.S[0]] = o.I[0]
}

// QueryOps: single lookups as operations, for implementations whose lookups keep private state.
func (s *trieSys) QueryOps() []seqmc.Op {
	var ops []seqmc.Op
	for _, q := range s.queries {
		if len(q) >= 1 && len(q) <= 2 {
			ops = append(ops, seqmc.Op{N: "Get", S: []string{q}}, seqmc.Op{N: "Contains", S: []string{q}})
		}
		if len(q) >= 1 && len(q) <= 3 {
			// a lookup that remembers its last question answers the SAME question again later: asked
			// alone, with Puts in between (the observer suite asks many questions in a row)
			ops = append(ops, seqmc.Op{N: "LongestPrefix", S: []string{q}})
		}
	}
	return ops
}

func (s *trieSys) sortedKeys(prefix string) []string {
	var ks []string
	for k := range s.model {
		if strings.HasPrefix(k, prefix) {
			ks = append(ks, k)
		}
	}
	sort.Strings(ks) // byte-lexicographic
	return ks
}

func drainQ(q trie.Queuer[string]) []string {
	var out []string
	for q.Size() > 0 {
		k, err := q.Dequeue()
		if err != nil {
			break
		}
		out = append(out, k)
	}
	return out
}

func relation(q string, model map[string]int) string {
	for m := range model {
		if m != q && strings.HasPrefix(m, q) {
			return "proper-prefix-of-stored-key"
		}
	}
	for m := range model {
		if m != q && strings.HasPrefix(q, m) {
			return "extension-of-stored-key"
		}
	}
	return "unrelated-key"
}

func nonASCII(ss []string) string {
	for _, s := range ss {
		for i := 0; i < len(s); i++ {
			if s[i] >= 0x80 {
				return "non-ascii-bytes"
			}
		}
	}
	return "ascii"
}

func (s *trieSys) Observe(c *seqmc.Ctx) {
	const n = "Trie."
	if got := s.t.Size(); got != len(s.model) {
		c.Fail(n+"Size/"+fmt.Sprintf("off-by-%+d", got-len(s.model)), "Size = %d, want %d (stored %q)", got, len(s.model), s.sortedKeys(""))
	}
	for _, q := range s.queries {
		want, present := s.model[q]
		v, ok := s.t.Get(q)
		has := s.t.Contains(q)
		if ok != has {
			c.Fail(n+"Contains/disagrees-with-Get", "Contains(%q) = %t but Get reports %t", q, has, ok)
		}
		switch {
		case present && (!ok || v != want):
			c.Fail(n+"Get/stored-key-wrong", "Get(%q) = (%d,%t), want (%d,true)", q, v, ok, want)
		case !present && ok:
			cls := "empty-key"
			if q != "" {
				cls = relation(q, s.model)
			}
			c.Fail(n+"Get/reports-key-never-put/"+cls, "Get(%q) = (%d,true) but the stored keys are %q", q, v, s.sortedKeys(""))
		}
	}
	qk, err := s.t.Keys()
	got := drainQ(qk)
	if want := s.sortedKeys(""); err != nil || fmt.Sprintf("%q", got) != fmt.Sprintf("%q", want) {
		c.Fail(n+"Keys/differs/"+nonASCII(want), "Keys = %q (err %v), want %q", got, err, want)
	}
	for _, p := range s.queries {
		if len(p) > 3 {
			continue
		}
		before := trieDump(s.t)
		qk, err := s.t.StartsWith(p)
		got := drainQ(qk)
		if p == "" {
			if err == nil {
				c.Fail(n+"StartsWith/empty-prefix-not-rejected", "StartsWith(\"\") returned %q and no error", got)
			}
			if trieDump(s.t) != before {
				c.Fail(n+"StartsWith/empty-prefix-changes-trie", "StartsWith(\"\") changed the trie")
			}
			continue
		}
		if want := s.sortedKeys(p); err != nil || fmt.Sprintf("%q", got) != fmt.Sprintf("%q", want) {
			c.Fail(n+"StartsWith/differs/"+nonASCII(want), "StartsWith(%q) = %q (err %v), want %q", p, got, err, want)
		}
	}
	// A result that the caller abandons (not drained, or drained in part) must not leak into the
	// answer of the next query: the trie hands out a queue, and nothing says it has to be emptied.
	if all := s.sortedKeys(""); len(all) > 0 {
		firsts := []func() trie.Queuer[string]{
			func() trie.Queuer[string] { q, _ := s.t.Keys(); return q },
			func() trie.Queuer[string] { q, _ := s.t.StartsWith(all[0][:1]); return q },
		}
		for fi, first := range firsts {
			for take := 0; take < 2; take++ {
				for _, p := range s.queries {
					if len(p) == 0 || len(p) > 3 {
						continue
					}
					r1 := first()
					if take == 1 && r1 != nil {
						r1.Dequeue()
					}
					qk, err := s.t.StartsWith(p)
					got := drainQ(qk)
					if want := s.sortedKeys(p); err != nil || fmt.Sprintf("%q", got) != fmt.Sprintf("%q", want) {
						c.Fail(n+"StartsWith/differs-after-an-abandoned-result", "after %s whose result had %d element(s) taken, StartsWith(%q) = %q (err %v), want %q", []string{"Keys()", "StartsWith(" + all[0][:1] + ")"}[fi], take, p, got, err, want)
					}
				}
			}
		}
	}
	for _, q := range s.queries {
		got, err := s.t.LongestPrefix(q)
		if q == "" {
			if err == nil {
				c.Fail(n+"LongestPrefix/empty-query-not-rejected", "LongestPrefix(\"\") = %q, nil", got)
			}
			continue
		}
		want := ""
		for k := range s.model {
			if strings.HasPrefix(q, k) && len(k) > len(want) {
				want = k
			}
		}
		if err != nil || got != want {
			c.Fail(n+"LongestPrefix/wrong", "LongestPrefix(%q) = (%q,%v), want %q (stored %q)", q, got, err, want, s.sortedKeys(""))
		}
	}
}

// trieDump renders the trie proper (node graph and counter); the attached
// result queue is scratch space that every query clears and refills.
func trieDump(t *trie.Trie[string, int]) string {
	return seqmc.DumpValue(seqmc.Get(t, "root")) + "#" + seqmc.DumpValue(seqmc.Get(t, "n"))
}

func (s *trieSys) Key() string {
	// the complete private state, field by field (the node graph, the counter and whatever else a
	// change may add, e.g. a lookup hint): queries are allowed to change it -- the engine then makes
	// the query suite an operation of the alphabet -- but they must keep answering correctly. Of the
	// attached result queue only the number of leftover elements is part of the key: whether its
	// drained backing slice is nil or empty differs between a fresh and a used trie and changes nothing.
	var sb strings.Builder
	tv := reflect.ValueOf(s.t).Elem()
	for i := 0; i < tv.NumField(); i++ {
		name := tv.Type().Field(i).Name
		if name == "q" {
			if q, ok := seqmc.Get(s.t, "q").Interface().(trie.Queuer[string]); ok && q != nil {
				fmt.Fprintf(&sb, "q:%d;", q.Size())
			}
			continue
		}
		fmt.Fprintf(&sb, "%s:%s;", name, seqmc.DumpValue(seqmc.Get(s.t, name)))
	}
	return sb.String() + "|" + fmt.Sprint(s.model)
}
