#!/usr/bin/env python3
"""Generates /verif/MANIFEST.json from the table below (single source of truth)."""
import json, os
ROOT = os.path.dirname(os.path.dirname(os.path.abspath(__file__)))

SEQ_NOTE = ("Trusted: Go compiler/runtime, reflection dump (seqmc/dump.go), the reference model in props/seq. "
            "Scope: the alphabet and size caps stated in the evidence file; histories of any length below the cap when closure=fixpoint.")
checks = {}
def seq(pid, text, technique, ref, note=SEQ_NOTE):
    checks[pid] = dict(engine="seqmc", text=text, technique=technique, ref=ref, note=note)

seq("C05", "Explicit-state model checking of the real Queue and LQueue objects: breadth-first search over every Enqueue/Dequeue/Clear history over a 3-value alphabet under a size cap, run to a fixpoint of the state space (state = reflection dump of the private heap graph x reference slice), with Size/Peek/Search(0..4) compared against the slice model in every reachable state. Exhaustive below the cap, so drain-and-refill histories of any length are covered.",
    "explicit-state BFS over real method calls vs reference model, to fixpoint", "DESIGN.md §3 C05/C06")
seq("C06", "Explicit-state model checking of the real Stack and LStack objects: breadth-first search over every Push/Pop history over a 3-value alphabet under a size cap, run to a fixpoint, with Size/Peek/Search compared against a slice model in every reachable state and every Pop result compared with the model's top.",
    "explicit-state BFS over real method calls vs reference model, to fixpoint", "DESIGN.md §3 C05/C06")

seq("C03", "Explicit-state model checking of the real Heap: BFS to a fixpoint over Push/Pop/Clear/Delete(held and absent)/Convert(<,>)/Merge/Meld (result adopted as the current heap so chains continue from merged states) from NewHeap and from every FromSlice start over a small alphabet with duplicates, both comparators and a by-key comparator with ties; model = multiset + comparator; every reachable state is drained on a replayed copy and must come out in comparator order with the multiset conserved; arrays that violate heap order are searched for a concrete out-of-order Pop witness over all extensions by <=2 pushes. Plus every input slice up to length 7/8 x 3 comparators for FromSlice and Sort.",
    "explicit-state BFS over real method calls vs multiset model, to fixpoint; exhaustive input enumeration for Sort/FromSlice", "DESIGN.md §3 C03")
seq("C04", "Explicit-state model checking of the real BsTree: BFS to a fixpoint over every Upsert/Delete history on keys 0..4 (0..5 thorough) x 2 values for ascending and descending comparators; in every reachable state Get of every key (incl. absent), Size and the Traverse sequence are compared with a sorted-map model.",
    "explicit-state BFS over real method calls vs sorted-map model, to fixpoint", "DESIGN.md §3 C04")
seq("C07", "Explicit-state model checking of the real LRUCache for every capacity 1..4 (1..5 thorough): BFS to a fixpoint over Add/Get/GetOldest/Remove/RemoveOldest/RemoveYoungest/Flush on keys 0..4 x 2 values; every return value is compared with a recency-list model, and every reachable state is checked through Count<=capacity, GetYoungest, a lookup of every key on one replayed copy and a full RemoveOldest drain on another (exposes map/list disagreement), plus items-map size == list length read by reflection. NewLRU(n<=0) must error.",
    "explicit-state BFS over real method calls vs recency-list model, to fixpoint", "DESIGN.md §3 C07")
seq("C09", "Explicit-state model checking of the real Trie: BFS to a fixpoint over every Put history (all insertion orders, overwrites) of up to 3 (4 thorough) distinct keys of length 1..3 over {a,b}, and over byte alphabets containing 0xE9 / 0xC3 0xA9 (non-ASCII, invalid UTF-8); in every reachable state Get and Contains of every string of length 0..4, Size, Keys, StartsWith(p) for every p of length 0..3 and LongestPrefix(q) for every q are compared byte for byte with a map model; empty key/prefix/query must be rejected without changing the trie.",
    "explicit-state BFS over real method calls vs map model, to fixpoint", "DESIGN.md §3 C09")
seq("C10", "Explicit-state model checking of the real BTree: BFS to a fixpoint over every Put/Remove history on keys 0..4 (0..5 thorough) x 2 values (tombstones make the space finite); in every reachable state Get of every key, Size, IsEmpty, Traverse and Height <= log2(max(1,N)) are compared with a sorted-map model + set of keys ever inserted. Multi-level splits: every insertion order of 8 (9 thorough) keys, all prefixes checked, plus sorted/reversed runs of 200 keys.",
    "explicit-state BFS over real method calls vs sorted-map model, to fixpoint; exhaustive insertion orders", "DESIGN.md §3 C10")
seq("C19", "Explicit-state model checking of the real SList and DList: BFS to a fixpoint over Unshift/Append/Shift/Pop/InsertAfter/InsertBefore/Delete/Replace addressed by position (handle from Find immediately before use) with fresh values; the state key renames values by first occurrence (data independence: the lists only apply == to values), which makes the capped space finite; Each/First/Last/Find are compared with a slice model in every state, observers must leave the heap graph unchanged, a cyclic next chain is detected by reflection and a watchdog turns non-termination into a finding. A second family with repeated values checks first-occurrence semantics of Replace/Find.",
    "explicit-state BFS over real method calls vs slice model, to fixpoint under value renaming", "DESIGN.md §3 C19")

ENUM_NOTE = ("Trusted: Go compiler/runtime; the quadratic reference implementations in props/pure written from the property statement. "
             "Scope: the argument shapes, lengths and alphabets stated in the evidence file; values outside them are not covered.")
def enum(pid, text, ref):
    checks[pid] = dict(engine="enum", text=text, technique="exhaustive small-scope input enumeration on the real helpers vs reference definitions (plus every map iteration order / rand answer via source-level seams)", ref=ref, note=ENUM_NOTE)
enum("C11", "Exhaustive bounded enumeration: every slice up to length 5 (6 thorough) over a 3-4 value alphabet (ints, strings, floats), every pair and every triple of short slices, every key function from a finite family and every nesting of the Union grammar up to depth 2-3 including malformed variants, each run on the real helper and compared with a quadratic reference written from the statement; Duplicate/DuplicateWithIndex under every map iteration order.", "DESIGN.md §3 C11")
enum("C12", "Exhaustive bounded enumeration: every slice up to length 7 (8) over 3 values x every chunk size 1..8, drop count -9..9, predicate and key function of a finite family; every matrix up to 3x3 over 2 values incl. ragged ones for Zip/Unzip; every nesting for Flatten; every tuple of <=3 short slices for Merge; every rune string up to length 4 for ReverseStr; Shuffle under every math/rand answer (all n! draw sequences). Oracles are the identities of the statement as executable predicates.", "DESIGN.md §3 C12")
enum("C13", "Exhaustive bounded enumeration: every slice up to length 6 over 3 values with every probe value and every index in -(len+3)..len+3; all 2^24 int8 triples for Clamp/InRange and all int8 for Abs; every (start,step,end) in [-10,10]^3 plus the 0/1/2/4-argument forms for Range/RangeRight; every collection of <=2 (3) small maps for the ByKey variants incl. the empty slice; floats and strings for the aggregates. Every call runs under recover.", "DESIGN.md §3 C13")
enum("C14", "Exhaustive bounded enumeration: every map with <=3 (4) entries over 4 keys x 3 values, every key list up to length 3 and every predicate/transformation of a finite family, every collection of <=2 (3) maps of a sub-family; every helper that ranges over a map is executed under every iteration order of that map (source-level seam), and results whose order/choice is unspecified are compared as sets or by their defining property.", "DESIGN.md §3 C14")
enum("C15", "Exhaustive bounded enumeration: every string of <=4 (5) runes over an alphabet mixing ASCII, a 2-byte rune and token characters x every byte offset/length/index/size in a window of +-3 around the length x every pad/wrap token of length <=2; Unicode case mapping on runes with non-trivial mappings; case styles on every 1-3 word string over 7 words x separator runs. Oracles: PHP byte rules for Substr, concatenation/length/position identities, Unwrap(Wrap)=id, rune-wise unicode mapping, letter conservation/idempotence for the case styles.", "DESIGN.md §3 C15")
enum("C16", "Exhaustive bounded enumeration of aliasing: each of ~60 slice helpers x every slice up to length 4 (5) over 3 values placed in a backing array with sentinels before it and spare capacity {0,1,4} with sentinels after it — the whole backing array is compared before/after; every ORDERED PAIR of helpers on one shared argument (earlier result snapshot vs after the later call, with the principled exemption for results that are views by contract); the same for ~24 map helpers over every map with <=3 entries.", "DESIGN.md §3 C16")

CONC_NOTE = ("Trusted: Go compiler/runtime and race detector; vinstr's rewriting preserves sequential semantics (same tree in pass-through mode runs the sequential checks); "
             "vsync/vtime/Chan model the blocking semantics of their originals (RWMutex with writer preference, FIFO Cond, Go channel/select/timer rules). "
             "Scope: the closed programs listed in the evidence, at synchronisation-operation granularity (complete for race-free code, which C01 establishes); real-time behaviour of the Go timer heap and weak-memory effects of racy code are outside.")
def conc(pid, text, technique, ref):
    checks[pid] = dict(engine="vrt+explore", text=text, technique=technique, ref=ref, note=CONC_NOTE)
conc("C01", "Stateless model checking of the real containers recompiled (go build -overlay, no edits in /repo) against a controlled cooperative scheduler, in a -race build: for every unordered pair of public methods of Heap, BsTree, Trie, Queue, LQueue, Stack, LStack and Cache (incl. data handed back: GetValues, List, Keys...), 3 initial contents and colliding arguments, EVERY interleaving at synchronisation-operation granularity is executed; each execution is judged by ThreadSanitizer's vector clocks (the scheduler's hand-offs are hidden with runtime.RaceDisable and the real sync primitive runs behind every shim, so exactly the program's own happens-before is seen), by recovered panics, by deadlock detection (no enabled thread) and by a usability probe after a visible join. Cache pairs are also run with the janitor goroutine and a clock thread at preemption bound 2 (3 thorough).",
     "stateless DFS over all interleavings under a controlled scheduler + TSan happens-before on each explored execution", "DESIGN.md §3 C01, §2.2-2.4")
conc("C02", "Stateless model checking for linearizability: every program of 2 threads x 1 call, 3 threads x 1 call and 2 threads x (2,1) calls (thorough: also 2 x 2) over each type's single-element alphabet and 3 initial contents, EVERY interleaving of their lock/unlock/clock operations under the controlled scheduler (unbounded; iterative preemption bounding only if a budget is hit, reported); each execution's outcome (every return value + final Size/contents) must equal the outcome of some one-at-a-time run of the same calls on the same implementation that respects program order and the observed real-time order (brute force over <=24 orders).",
     "stateless DFS over all interleavings under a controlled scheduler + brute-force linearizability against sequential runs", "DESIGN.md §3 C02, §2.2-2.3")

conc("C08", "Two exhaustive explorations of the real expiring Cache recompiled against the virtual clock. (A) cleanup off: explicit-state BFS (seqmc) to a FIXPOINT for every default expiry in {-1,0,5} over 3 (4) keys, values {\"\" (rejected),p,q} (and an int-valued cache where nothing is rejected), durations {Default, NoExpiration, 3, 7} and the operations Set, SetDefault, Update, Delete, Flush, DeleteExpired, MapToCache (every map over two keys incl. rejected values) and Advance(2) - time is an operation; durations are odd and the clock even, so no observation coincides with a deadline; the state key holds deadlines relative to now, which makes the space finite without a clock horizon (histories and waits of any length); in every reachable state Get, IsExpired, Count and List of every key are compared with a map-with-deadlines model; a second run moves the clock by 1 and accepts either answer at now == deadline. (B) cleanup on (interval 4): stateless exploration under the controlled scheduler of {script of <=3 operations, the library's own janitor goroutine with a virtual ticker, clock thread 4 x Advance(2)} at preemption bound 2 (3), for every default in {-1,0,5}; observations carry virtual-time brackets and only what the brackets decide is asserted; at the quiescent end (janitor parked after two more intervals) entries expired before the last processed tick must be gone, live and never-expiring ones present. Plus: the finaliser fired as an explicit event stops the janitor in every interleaving.",
     "explicit-state BFS over real method calls with time as an operation (fixpoint) + stateless DFS over interleavings with the janitor goroutine on virtual time", "DESIGN.md §3 C08")
conc("C17", "Stateless model checking of Memoize with x/sync/singleflight itself recompiled against the controlled runtime: programs of 2 threads x <=2 calls, 3 threads x 1 call and every sequential pattern up to length 4 (5) over keys {p,q}; the user function logs its executions, has latency 0/1/2 scheduling points and succeeds or fails by an explorer choice; every interleaving (unbounded for two threads, preemption bound 2-3 otherwise) incl. a clock thread for the expiring configuration and a program in which key q's computation parks forever. Oracle: per-key in-flight counter <= 1, every result traced to an execution that overlapped or preceded the call (an execution stays in flight until the Memoize call that started it returns, singleflight's documented joining window), errors never served to calls that start after the failed flight ended, no recomputation once a value was returned and not expired, keys never mixed or blocked.",
     "stateless DFS over all interleavings under a controlled scheduler incl. singleflight internals; invariants over execution/call logs", "DESIGN.md §3 C17")
conc("C18", "Exhaustive bounded enumeration under the controlled runtime: After/Before for every n in -2..8 x every number of calls 0..12 (int and int8 counters), Once for 1..5 calls with a non-expiring and an expiring cache entry (clock advance between calls is an explorer choice), Retry/RetryWithDelay for every n in -2..8 x EVERY success/failure pattern of the callback (Choose inside the callback), RetryWithDelay on the virtual clock (blocks on time.After; discrete-event rule). Oracle: per-call invocation counters, returned values, attempt count, last error, consecutive attempts >= delay apart.",
     "exhaustive enumeration of n x call counts x callback outcome patterns (explorer choice points) on virtual time", "DESIGN.md §3 C18")
conc("C20", "Stateless model checking on a virtual clock (wait = 5 units, clock moved in steps of 2 by a clock thread, so every call lands at every position relative to every deadline as an interleaving): Delay with Stop at every position; debounce bursts of 1..3 (5) calls with pauses and cancel at any position from one caller (every interleaving) and two callers; throttle with every script of <=4 (6) operations over {Call, Advance 2, Advance 6} + Cancel against a consumer calling Next x3 (every interleaving, permission stamps read exactly), and the concurrent family Call x c ‖ Next x n ‖ Next ‖ clock ‖ Cancel at preemption bound 2 (3); trailing on/off. Oracles are exact integer inequalities: never early, at most once per burst, not after cancel, last call does run, permissions >= one period apart, no Next true after Cancel, no deadlock.",
     "stateless DFS over all interleavings of calls, clock steps and timer callbacks on virtual time; exact timing invariants", "DESIGN.md §3 C20")

not_built = {}  # property -> reason (kept current while the framework is being built)
props = [json.loads(l)["id"] for l in open(os.path.join(ROOT, "properties.jsonl"))]
for p in props:
    if p not in checks:
        not_built[p] = "check not built yet in this round; planned with the engine named in DESIGN.md §3 (no technique switch)"

m = {
    "version": 1,
    "setup_cmd": "./setup.sh",
    "hooks": {
        "guard": "verif",
        "enable": "no hook commits in /repo: instrumentation is generated at check time into a scratch directory and applied with `go build -overlay` (tools/build_overlay.sh); virtual packages carry the build tag `verif`",
        "baseline_off_cmd": "cd /repo && go test -vet=off -count=1 -timeout 25m ./...",
        "source_commits": [],
        "add_only": True,
    },
    "engines": [
        {"name": "seqmc", "path": "seqmc/ props/seq/", "serves_properties": [p for p in props if p in checks and checks[p]["engine"] == "seqmc"],
         "kind_free_text": "explicit-state breadth-first model checker; transition function is the real method call (successor = replay on a fresh instance + 1 op); state key = canonical reflection dump of the object's private heap graph paired with the reference model"},
        {"name": "enum", "path": "enum/ props/pure/", "serves_properties": [p for p in props if p in checks and checks[p]["engine"] == "enum"],
         "kind_free_text": "exhaustive small-scope enumeration of argument tuples against reference definitions; internal nondeterminism of the helpers (map iteration order, math/rand) is turned into enumerated choice points by source rewriting (vinstr overlay)"},
        {"name": "vrt+explore", "path": "vrt/ cmd/vinstr/ props/conc/", "serves_properties": [p for p in props if p in checks and checks[p]["engine"] == "vrt+explore"],
         "kind_free_text": "controlled runtime (cooperative scheduler, model sync/channel/timer primitives, virtual clock) into which gogu is recompiled by a type-aware source rewriter through go build -overlay; stateless depth-first explorer over choice sequences with iterative preemption bounding; -race flavour for C01"},
    ],
    "checks": [],
    "notes": "All checks: ./run.sh <ID> <tier>; exit 0 held / 1 VIOLATION / 2 machinery failure. Known findings: known-findings.jsonl. Replays: ./run.sh replay <file>.",
    "not_applicable": [{"property_id": p, "reason": r} for p, r in sorted(not_built.items())],
}
for p in props:
    if p not in checks:
        continue
    c = checks[p]
    m["checks"].append({
        "property_id": p,
        "quick_cmd": f"./run.sh {p} quick",
        "thorough_cmd": f"./run.sh {p} thorough",
        "evidence_file": f"evidence/{p}.json",
        "replay_cmd_template": "./run.sh replay {path}",
        "engine": c["engine"],
        "level_claimed": {"category": "model_checking", "text": c["text"], "design_ref": c["ref"]},
        "level_note": c["note"],
        "technique": c["technique"],
    })
json.dump(m, open(os.path.join(ROOT, "MANIFEST.json"), "w"), indent=1)
print("checks:", [c["property_id"] for c in m["checks"]], "not claimed:", sorted(not_built))
