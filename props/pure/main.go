// Command pure runs the exhaustive small-scope input checks: C11..C16.
package main

import (
	"encoding/json"
	"fmt"
	"os"
	"sync"

	"verif/core"
)

var thorough = core.Tier() == "thorough"

var registry = map[string]func(rep *R){}

// R wraps the report with the counters every enumeration check feeds.
type R struct {
	*core.Report
	mu    sync.Mutex
	evals int
	perFn map[string]int
}

// Eval counts one call of helper fn on the implementation.
func (r *R) Eval(fn string) {
	r.mu.Lock()
	r.evals++
	r.perFn[fn]++
	r.mu.Unlock()
}

// Bad records a finding. witness is a printable Go-ish call.
func (r *R) Bad(key, witness, format string, a ...any) {
	r.Add(key, fmt.Sprintf(format, a...), witness, map[string]any{"engine": "enum", "call": witness})
}

func main() {
	if len(os.Args) < 2 {
		fmt.Fprintln(os.Stderr, "usage: pure <property> | pure replay <file>")
		os.Exit(2)
	}
	if os.Args[1] == "replay" {
		os.Exit(replay(os.Args[2]))
	}
	os.Exit(run(os.Args[1], nil))
}

func run(prop string, only *string) int {
	f, ok := registry[prop]
	if !ok {
		fmt.Fprintln(os.Stderr, "unknown property", prop)
		return 2
	}
	r := &R{Report: core.NewReport(prop), perFn: map[string]int{}}
	r.Set("engine", "enum: exhaustive small-scope enumeration of argument tuples on the real helpers; "+seamNote)
	f(r)
	return r.conclude(only)
}

// conclude writes coverage and evidence; also used to leave early when a helper call does not return.
func (r *R) conclude(only *string) int {
	r.Set("evaluations", r.evals)
	r.Set("transitions", r.evals)
	r.Set("traces_validated_against_impl", r.evals)
	r.Set("states", r.NontrivialCount())
	r.Set("calls_per_helper", r.perFn)
	r.Set("exhaustive", true)
	if only != nil {
		// replay mode: do not rewrite evidence; report whether the key re-appeared
		if r.HasFinding(*only) {
			return 1
		}
		return 0
	}
	return r.Finish()
}

// replay re-runs the property's enumeration and reports whether the recorded key fails again
// (inputs are enumerated deterministically, so the same witness is regenerated).
func replay(file string) int {
	b, err := os.ReadFile(file)
	if err != nil {
		fmt.Fprintln(os.Stderr, err)
		return 2
	}
	var f struct {
		Property, Key string
		Witness       any
	}
	if err := json.Unmarshal(b, &f); err != nil {
		return 2
	}
	os.Setenv("VERIF_ROOT", os.TempDir()+"/verif-replay-scratch")
	os.MkdirAll(os.TempDir()+"/verif-replay-scratch", 0o755)
	defer os.RemoveAll(os.TempDir() + "/verif-replay-scratch")
	rc := run(f.Property, &f.Key)
	if rc == 1 {
		fmt.Printf("replay: %s fails again, e.g. %v\nVIOLATION property=%s replay=%s\n", f.Key, f.Witness, f.Property, file)
	} else {
		fmt.Printf("replay: %s not reproduced\n", f.Key)
	}
	return rc
}

func eqSlice[T comparable](a, b []T) bool {
	if len(a) != len(b) {
		return false
	}
	for i := range a {
		if a[i] != b[i] {
			return false
		}
	}
	return true
}

func contains[T comparable](s []T, v T) bool {
	for _, x := range s {
		if x == v {
			return true
		}
	}
	return false
}

func sameSet[T comparable](a, b []T) bool {
	for _, x := range a {
		if !contains(b, x) {
			return false
		}
	}
	for _, x := range b {
		if !contains(a, x) {
			return false
		}
	}
	return true
}

func hasRepeat[T comparable](a []T) bool {
	for i := range a {
		for j := 0; j < i; j++ {
			if a[i] == a[j] {
				return true
			}
		}
	}
	return false
}

func cp[T any](s []T) []T { return append([]T{}, s...) }
