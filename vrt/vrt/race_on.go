//go:build verif && race

package vrt

import (
	"os"
	"runtime"
	"unsafe"
)

var noPool = os.Getenv("VERIF_NOPOOL") != "" // debugging aid: one goroutine per thread, as in non-race builds

// RaceBuild reports whether this binary carries the race detector.
const RaceBuild = true

//go:norace
func raceDisable() { runtime.RaceDisable() }

//go:norace
func raceEnable() { runtime.RaceEnable() }

// raceAcquire / raceRelease: explicit happens-before edges on a token address (the channel model).
//
//go:norace
func raceAcquire(p unsafe.Pointer) {
	if hbTrace && X != nil {
		println("hb: thread", X.cur, "acquire", p)
	}
	runtime.RaceAcquire(p)
}

//go:norace
func raceRelease(p unsafe.Pointer) {
	if hbTrace && X != nil {
		println("hb: thread", X.cur, "release", p)
	}
	runtime.RaceRelease(p)
}

var hbTrace = os.Getenv("VERIF_HB_TRACE") != "" // debugging aid

// Goroutines are pooled in race builds: the race detector never gives back what it allocates per
// goroutine created (about 300 bytes; measured 150 MB per 500 000 goroutines), and a thorough run creates
// hundreds of millions of them. A pooled goroutine runs at most ONE thread per execution (it returns to
// the idle list only when the execution is over), so no happens-before edge is added between two threads
// of one execution; the hand-over of the task through a real channel is the edge of the go statement
// (parent happens-before child), exactly as before. The lists need no lock: one thread runs at a time.
var (
	poolIdle []chan func()
	poolUsed []chan func()
)

//go:norace
func spawn(fn func()) {
	if noPool {
		go fn()
		return
	}
	var c chan func()
	if n := len(poolIdle); n > 0 {
		c = poolIdle[n-1]
		poolIdle = poolIdle[:n-1]
	} else {
		c = make(chan func())
		go poolWorker(c)
	}
	poolUsed = append(poolUsed, c)
	c <- fn
}

func poolWorker(c chan func()) {
	for f := range c {
		f()
	}
}

//go:norace
func releasePool() {
	poolIdle = append(poolIdle, poolUsed...)
	poolUsed = poolUsed[:0]
}
