//go:build verif

package main

import (
	"fmt"
	"os"
	"regexp"
	"sort"
	"strings"
	"time"

	"github.com/esimov/gogu/cache"
	"github.com/esimov/gogu/vrtshim/vrt"
	sync "github.com/esimov/gogu/vrtshim/vsync"
	"verif/core"
)

// C01 — race-, panic- and deadlock-freedom of the lock-guarded containers.
// Every unordered pair of public methods x initial contents x colliding
// arguments x every interleaving at synchronisation-operation granularity.
// Oracles per execution: (1) ThreadSanitizer reports nothing new (the
// scheduler's hand-offs are hidden from it, so it sees exactly the program's
// own synchronisation), (2) no panic, (3) no deadlock / horizon, (4) after a
// visible join a usability probe on the same instance completes.

func init() {
	registry["C01"] = func(rep *core.Report) {
		if !vrt.RaceBuild {
			fmt.Fprintln(os.Stderr, "C01 must run from the -race build (bin/conc_race)")
			os.Exit(2)
		}
		var shards []string
		for _, t := range conTypes() {
			ms := methodList(t)
			for i := range ms {
				shards = append(shards, fmt.Sprintf("%s:%d", t.name, i))
			}
			if t.name == "Cache" {
				for i := range ms {
					shards = append(shards, fmt.Sprintf("%s:%d:janitor", t.name, i))
				}
			}
			if !t.c01only {
				for i := range ms {
					shards = append(shards, fmt.Sprintf("%s:%d:then", t.name, i))
				}
			}
		}
		scratch, err := os.MkdirTemp("", "verif-c01-")
		if err != nil {
			os.Exit(2)
		}
		defer os.RemoveAll(scratch)
		rep.Set("engine", "vrt+explore in a -race build: stateless DFS over every interleaving of each method pair; data races decided by ThreadSanitizer's vector clocks on each explored execution with the scheduler's hand-offs hidden (runtime.RaceDisable) and the real sync primitive executed behind every shim")
		if !runWorkers(rep, "C01worker", shards, []string{"VERIF_TSAN_DIR=" + scratch}) {
			fmt.Fprintln(os.Stderr, "C01: worker failure")
			os.Exit(2)
		}
	}
	subcommands["C01worker"] = c01worker
}

// methodList: the distinct public methods of a type, each with its argument variants.
type methodVariants struct {
	method string
	ops    []opSpec
}

func methodList(t *conType) []methodVariants {
	var out []methodVariants
	idx := map[string]int{}
	for _, o := range append(append([]opSpec{}, t.ops...), t.extra...) {
		i, ok := idx[o.method]
		if !ok {
			i = len(out)
			idx[o.method] = i
			out = append(out, methodVariants{method: o.method})
		}
		out[i].ops = append(out[i].ops, o)
	}
	// at most two variants per method (first and last): the first ones share the key / value
	for i := range out {
		if n := len(out[i].ops); n > 2 {
			out[i].ops = []opSpec{out[i].ops[0], out[i].ops[n-1]}
		}
	}
	return out
}

var reFrame = regexp.MustCompile(`^  (\S+)\(`)

// parseRaces extracts (signature, text) of each report in a TSan log fragment.
func parseRaces(txt string) [][2]string {
	var out [][2]string
	for _, rep := range strings.Split(txt, "WARNING: DATA RACE")[1:] {
		if i := strings.Index(rep, "=================="); i >= 0 {
			rep = rep[:i]
		}
		blocks := strings.Split(strings.TrimSpace(rep), "\n\n")
		var sides []string
		for _, b := range blocks {
			lines := strings.Split(b, "\n")
			head := strings.TrimSpace(lines[0])
			kind := ""
			switch {
			case strings.HasPrefix(head, "Write"), strings.HasPrefix(head, "Previous write"):
				kind = "write"
			case strings.HasPrefix(head, "Read"), strings.HasPrefix(head, "Previous read"):
				kind = "read"
			case strings.HasPrefix(head, "Atomic"), strings.HasPrefix(head, "Previous atomic"):
				kind = "atomic"
			default:
				continue
			}
			fn := "?"
			for _, l := range lines[1:] {
				m := reFrame.FindStringSubmatch(l)
				if m == nil {
					continue
				}
				f := m[1]
				if strings.Contains(f, "vrtshim") || strings.HasPrefix(f, "runtime.") || strings.HasPrefix(f, "sync.") {
					continue
				}
				fn = cleanFunc(f)
				break
			}
			_ = kind
			sides = append(sides, fn)
		}
		if len(sides) >= 2 {
			s := sides[:2]
			sort.Strings(s)
			lines := strings.Split(strings.TrimSpace(rep), "\n")
			if len(lines) > 40 {
				lines = lines[:40]
			}
			out = append(out, [2]string{strings.Join(s, " vs "), strings.Join(lines, "\n")})
		}
	}
	return out
}

var reInst = regexp.MustCompile(`\[[^\]]*\]`)
var reClosure = regexp.MustCompile(`\.func\d+(\.\d+)*$`)

func cleanFunc(f string) string {
	f = reInst.ReplaceAllString(f, "")
	f = strings.TrimPrefix(f, "github.com/esimov/gogu/")
	if strings.HasPrefix(f, "main.") {
		return "caller's use of returned data"
	}
	f = reClosure.ReplaceAllString(f, "(closure)")
	return f
}

func c01worker(arg string) {
	out := newWorkerOut()
	parts := strings.Split(arg, ":")
	janitor := len(parts) == 3 && parts[2] == "janitor"
	// "then": triples. One thread makes call a, the other makes b and then c (every ordered pair of
	// methods): a is in flight while the instance goes through two changes -- what a pair cannot show
	// (a reader scanning a snapshot while the storage is emptied AND refilled)
	then := len(parts) == 3 && parts[2] == "then"
	var t *conType
	for _, ct := range conTypes() {
		if ct.name == parts[0] {
			t = ct
		}
	}
	var ai int
	fmt.Sscan(parts[1], &ai)
	ms := methodList(t)
	st := wStats{Shard: arg, MinBound: -1, Extra: map[string]int{}}
	deadline := time.Now().Add(4 * time.Minute)
	budget := 20000
	if thorough {
		deadline = time.Now().Add(25 * time.Minute)
		budget = 300000
	}
	// TSan log of this process
	logPath := ""
	if dir := os.Getenv("VERIF_TSAN_DIR"); dir != "" {
		logPath = fmt.Sprintf("%s/tsan.%d", dir, os.Getpid())
	}
	var logOff int64
	newRaces := func() [][2]string {
		if logPath == "" {
			return nil
		}
		fi, err := os.Stat(logPath)
		if err != nil || fi.Size() <= logOff {
			return nil
		}
		f, err := os.Open(logPath)
		if err != nil {
			return nil
		}
		defer f.Close()
		buf := make([]byte, fi.Size()-logOff)
		f.ReadAt(buf, logOff)
		logOff = fi.Size()
		return parseRaces(string(buf))
	}
	a := ms[ai]
	states := map[string]struct{}{}
	partners := ms[ai:]
	if then {
		partners = nil
		for _, b := range ms {
			for _, c := range ms {
				ob, oc := b.ops[0], c.ops[0]
				partners = append(partners, methodVariants{method: b.method + ";" + c.method, ops: []opSpec{{b.method + ";" + c.method, ob.label + " ; " + oc.label, func(i any) string { return ob.run(i) + ";" + oc.run(i) }}}})
			}
		}
	}
	for bi0, b := range partners {
		bi := ai + bi0
		pairKey := fmt.Sprintf("%s.%s‖%s", t.name, a.method, b.method)
		reported := map[string]bool{}
		for ii, init := range t.inits {
			if then && (ii == 0 || ii > 2) {
				continue // triples: the two small non-empty start states
			}
			if janitor && (ii == 1 || ii > 2) {
				continue // the janitor family builds its own contents: empty and {x,y} with a 3 ms lifetime
			}
			if strings.HasSuffix(init.name, "-expired-unpurged") && !thorough && init.name != "[x]-expired-unpurged" {
				continue // quick tier: one start state with an expired, unpurged entry
			}
			if strings.HasPrefix(init.name, "large-") || strings.HasPrefix(init.name, "huge-") {
				continue // the very large start states are for C02's two-call programs (a Merge over 1100 elements has thousands of scheduling points)
			}
			if strings.HasPrefix(init.name, "long-") && !thorough {
				continue
			}
			if strings.HasPrefix(init.name, "grown-") {
				// the capacity-threshold start states matter for atomicity (C02 runs them all); for the
				// race/panic/deadlock oracle one (thorough: four) of them per type is enough
				keep := strings.HasSuffix(init.name, "-to-16")
				if thorough {
					keep = keep || strings.HasSuffix(init.name, "-to-8") || strings.HasSuffix(init.name, "-to-17") || strings.HasSuffix(init.name, "-to-32")
				}
				if !keep {
					continue
				}
			}
			for vi, oa := range a.ops {
				for vj, ob := range b.ops {
					if (janitor || then) && (vi > 0 || vj > 0) {
						continue
					}
					if r := replayReq; r != nil && r.Scenario != fmt.Sprintf("%d|%s|%s", ii, oa.label, ob.label) {
						continue
					}
					st.Scenarios++
					outcomes := map[string]bool{}
					var res [2]string
					stop := false
					e := &vrt.Explorer{Horizon: 20000, Quick: !thorough, Budget: budget, Deadline: deadline, MaxBound: 3}
					if janitor {
						// five threads (two callers, janitor, clock, main): enumerate a preemption bound directly
						e.OnlyBound = 2
						if thorough {
							e.OnlyBound = 3
						}
						e.Budget = 10 * budget
					}
					e.StopEarly = func() bool { return stop }
					scen := fmt.Sprintf("%s ‖ %s", oa.label, ob.label)
					e.Check = func(x *vrt.Exec) {
						sched := append([]int16{}, x.Schedule()...)
						wit := map[string]any{"type": t.name, "initial": init.name, "calls": scen, "janitor": janitor, "schedule_thread_ids": sched}
						rp := map[string]any{"engine": "conc", "check": "C01", "shard": arg, "init": ii, "a": oa.label, "b": ob.label, "choices": append([]int{}, e.LastChoices...)}
						for _, r := range newRaces() {
							k := pairKey + "/data-race/" + r[0]
							if !reported[k] {
								reported[k] = true
								out.finding(wFinding{k, "ThreadSanitizer report in this schedule:\n" + r[1], wit, rp})
							}
						}
						for i := 0; i < x.NumThreads(); i++ {
							if pm := x.ThreadAt(i).Panic; pm != "" {
								k := pairKey + "/panic"
								if !reported[k] {
									reported[k] = true
									out.finding(wFinding{k, "thread " + x.ThreadAt(i).Name + " panicked: " + pm, wit, rp})
								}
								stop = true
							}
						}
						for _, r := range res {
							if strings.HasPrefix(r, "panic(") {
								k := pairKey + "/panic"
								if !reported[k] {
									reported[k] = true
									out.finding(wFinding{k, "a call panicked: " + r, wit, rp})
								}
							}
						}
						if x.Deadlock {
							k := pairKey + "/deadlock"
							if !reported[k] {
								reported[k] = true
								out.finding(wFinding{k, "no thread enabled: " + x.DeadlockInfo, wit, rp})
							}
							stop = true
						}
						if x.HorizonHit {
							k := pairKey + "/livelock-horizon"
							if !reported[k] {
								reported[k] = true
								out.finding(wFinding{k, "execution exceeded the step horizon", wit, rp})
							}
							stop = true
						}
						o := fmt.Sprint(res)
						outcomes[o] = true
						if len(states) < 1000000 {
							states[fmt.Sprint(bi, ii, oa.label, ob.label, o, len(sched))] = struct{}{}
						}
					}
					body := func() {
						var inst any
						if janitor {
							n0 := vrt.ThreadCount()
							ca := cache.New[string, string](5*time.Millisecond, 4*time.Millisecond)
							vrt.MarkSpawnedSinceDaemon(n0)
							for _, k := range []string{"x", "y"}[:ii] {
								ca.Set(k, "i", 3*time.Millisecond)
							}
							inst = ca
						} else {
							inst = init.mk()
						}
						var wg sync.WaitGroup
						n := 2
						if janitor {
							n = 3
						}
						wg.Add(n)
						vrt.Go(func() { defer wg.Done(); res[0] = safeCall(func() string { return oa.run(inst) }) })
						vrt.Go(func() { defer wg.Done(); res[1] = safeCall(func() string { return ob.run(inst) }) })
						if janitor {
							vrt.GoNamed("clock", false, func() {
								defer wg.Done()
								vrt.Advance(4 * time.Millisecond)
								vrt.Advance(4 * time.Millisecond)
							})
						}
						wg.Wait() // a visible join, as user code would
						safeCall(func() string { t.probe(inst); return "" })
					}
					if r := replayReq; r != nil {
						r.Seen = true
						x := vrt.Run(r.Choices, 20000, !thorough, body)
						e.LastChoices = r.Choices
						fmt.Printf("replay %s init=%s: %s\n  schedule (thread ids): %v\n  results: %v\n", t.name, init.name, scen, x.Schedule(), res)
						e.Check(x)
						vrt.Run(nil, 20000, true, func() {}) // let TSan flush reports of the torn-down execution
						for _, rr := range newRaces() {
							out.finding(wFinding{pairKey + "/data-race/" + rr[0], "ThreadSanitizer report:\n" + rr[1], nil, nil})
						}
						return
					}
					e.Explore(body)
					// races reported while tearing the last execution down
					for _, r := range newRaces() {
						k := pairKey + "/data-race/" + r[0]
						if !reported[k] {
							reported[k] = true
							out.finding(wFinding{k, "ThreadSanitizer report:\n" + r[1], map[string]any{"type": t.name, "initial": init.name, "calls": scen}, nil})
						}
					}
					st.Execs += e.Execs
					st.Steps += e.Steps
					st.Outcomes += len(outcomes)
					if e.Diverged != "" {
						st.Diverged = scen + ": " + e.Diverged
					}
					if !e.Complete && !stop {
						st.Incomplete++
						if st.MinBound < 0 || e.BoundDone < st.MinBound {
							st.MinBound = e.BoundDone
						}
						if e.BoundDone < 0 {
							st.Extra["scenarios_with_no_bound_completed"]++
						}
					}
					if len(st.Samples) < 2 && bi == ai+1 {
						st.Samples = append(st.Samples, fmt.Sprintf("%s init=%s janitor=%t: %s (%d schedules, %d outcomes)", t.name, init.name, janitor, scen, e.Execs, len(outcomes)))
					}
				}
			}
		}
		st.Extra["method_pairs"]++
	}
	st.States = len(states)
	out.stats(st)
}
