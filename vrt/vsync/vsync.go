//go:build verif

// Package vsync mirrors the API of package sync on top of the controlled
// runtime. Each primitive keeps a model of its blocking behaviour (which
// decides enabledness under the scheduler) and embeds the real primitive,
// whose operation is performed once the model has established that it cannot
// block — so the race detector receives exactly the acquire/release edges the
// production code would generate.
package vsync

import (
	"sync"

	"github.com/esimov/gogu/vrtshim/vrt"
)

type Locker = sync.Locker

// ---------------------------------------------------------------- Mutex

type Mutex struct {
	real sync.Mutex
	held bool
}

//go:norace
func (m *Mutex) Lock() {
	if !vrt.Active() {
		if vrt.Aborting() {
			return
		}
		m.real.Lock()
		return
	}
	vrt.Wait("Mutex.Lock", (*mutexFree)(m))
	m.held = true
	m.real.Lock()
}

type mutexFree Mutex

//go:norace
func (m *mutexFree) Ready() bool { return !m.held }

//go:norace
func (m *Mutex) TryLock() bool {
	if !vrt.Active() {
		if vrt.Aborting() {
			return false
		}
		return m.real.TryLock()
	}
	vrt.Sched("Mutex.TryLock")
	if m.held {
		return false
	}
	m.held = true
	m.real.Lock()
	return true
}

//go:norace
func (m *Mutex) Unlock() {
	if !vrt.Active() {
		if vrt.Aborting() {
			return
		}
		m.real.Unlock()
		return
	}
	vrt.Release("Mutex.Unlock")
	if !m.held {
		panic("sync: unlock of unlocked mutex")
	}
	m.held = false
	m.real.Unlock()
}

// ---------------------------------------------------------------- RWMutex
//
// Modelled after sync/rwmutex.go: Lock takes the writer slot, then announces
// itself (from then on new RLocks block), then waits for the readers that were
// active at the announcement; Unlock admits every reader blocked behind the
// writer at once.

type RWMutex struct {
	real       sync.RWMutex
	writerSlot bool // the internal writer mutex w is held (a writer is announced or active)
	writing    bool // a writer holds the lock
	readers    int  // active readers
	readerWait int  // readers the announced writer still waits for
}

//go:norace
func (m *RWMutex) Lock() {
	if !vrt.Active() {
		if vrt.Aborting() {
			return
		}
		m.real.Lock()
		return
	}
	// phase 1: writer slot
	vrt.Wait("RWMutex.Lock", (*rwSlotFree)(m))
	m.writerSlot = true
	m.readerWait = m.readers
	if m.readerWait > 0 {
		// phase 2: wait for the readers active at the announcement
		vrt.Wait("RWMutex.Lock(waiting for readers)", (*rwDrained)(m))
	}
	m.writing = true
	m.real.Lock()
}

type rwSlotFree RWMutex

//go:norace
func (m *rwSlotFree) Ready() bool { return !m.writerSlot }

type rwDrained RWMutex

//go:norace
func (m *rwDrained) Ready() bool { return m.readerWait == 0 }

//go:norace
func (m *RWMutex) TryLock() bool {
	if !vrt.Active() {
		if vrt.Aborting() {
			return false
		}
		return m.real.TryLock()
	}
	vrt.Sched("RWMutex.TryLock")
	if m.writerSlot || m.readers > 0 {
		return false
	}
	m.writerSlot, m.writing = true, true
	m.real.Lock()
	return true
}

//go:norace
func (m *RWMutex) Unlock() {
	if !vrt.Active() {
		if vrt.Aborting() {
			return
		}
		m.real.Unlock()
		return
	}
	vrt.Release("RWMutex.Unlock")
	if !m.writing {
		panic("sync: Unlock of unlocked RWMutex")
	}
	m.writing = false
	m.writerSlot = false
	m.real.Unlock()
}

//go:norace
func (m *RWMutex) RLock() {
	if !vrt.Active() {
		if vrt.Aborting() {
			return
		}
		m.real.RLock()
		return
	}
	vrt.Wait("RWMutex.RLock", (*rwSlotFree)(m))
	m.readers++
	m.real.RLock()
}

//go:norace
func (m *RWMutex) TryRLock() bool {
	if !vrt.Active() {
		if vrt.Aborting() {
			return false
		}
		return m.real.TryRLock()
	}
	vrt.Sched("RWMutex.TryRLock")
	if m.writerSlot {
		return false
	}
	m.readers++
	m.real.RLock()
	return true
}

//go:norace
func (m *RWMutex) RUnlock() {
	if !vrt.Active() {
		if vrt.Aborting() {
			return
		}
		m.real.RUnlock()
		return
	}
	vrt.Release("RWMutex.RUnlock")
	if m.readers == 0 {
		panic("sync: RUnlock of unlocked RWMutex")
	}
	m.readers--
	if m.writerSlot && !m.writing && m.readerWait > 0 {
		m.readerWait--
	}
	m.real.RUnlock()
}

func (m *RWMutex) RLocker() Locker { return (*rlocker)(m) }

type rlocker RWMutex

func (r *rlocker) Lock()   { (*RWMutex)(r).RLock() }
func (r *rlocker) Unlock() { (*RWMutex)(r).RUnlock() }

// ---------------------------------------------------------------- WaitGroup

type WaitGroup struct {
	real sync.WaitGroup
	n    int
}

//go:norace
func (w *WaitGroup) Add(delta int) {
	if !vrt.Active() {
		if vrt.Aborting() {
			return
		}
		w.real.Add(delta)
		return
	}
	if delta < 0 {
		vrt.Release("WaitGroup.Done")
	} else {
		vrt.Sched("WaitGroup.Add")
	}
	if w.n+delta < 0 {
		panic("sync: negative WaitGroup counter")
	}
	w.n += delta
	w.real.Add(delta)
}

//go:norace
func (w *WaitGroup) Done() { w.Add(-1) }

//go:norace
func (w *WaitGroup) Wait() {
	if !vrt.Active() {
		if vrt.Aborting() {
			return
		}
		w.real.Wait()
		return
	}
	vrt.Wait("WaitGroup.Wait", (*wgZero)(w))
	w.real.Wait()
}

type wgZero WaitGroup

//go:norace
func (w *wgZero) Ready() bool { return w.n == 0 }

// ---------------------------------------------------------------- Once

type Once struct {
	m    Mutex
	done bool
}

//go:norace
func (o *Once) Do(f func()) {
	// sync.Once: fast path on done, slow path under a mutex; the mutex is what orders callers.
	o.m.Lock()
	defer o.m.Unlock()
	if !o.done {
		defer o.markDone()
		f()
	}
}

//go:norace
func (o *Once) markDone() { o.done = true }

// ---------------------------------------------------------------- Cond
//
// sync.Cond's notify list is FIFO: Signal wakes the longest waiting goroutine,
// Broadcast all of them. Edges for the race detector go through an embedded
// real mutex used as a release/acquire token.

type Cond struct {
	L       Locker
	waiters [16]*condWaiter
	nw      int
	tok     sync.Mutex
}

type condWaiter struct{ woken bool }

//go:norace
func (w *condWaiter) Ready() bool { return w.woken }

func NewCond(l Locker) *Cond { return &Cond{L: l} }

//go:norace
func (c *Cond) Wait() {
	if !vrt.Active() {
		if vrt.Aborting() {
			return
		}
		panic("vsync.Cond.Wait outside a controlled execution is not supported")
	}
	w := &condWaiter{}
	if c.nw >= len(c.waiters) {
		panic("vsync.Cond: too many waiters")
	}
	c.waiters[c.nw] = w
	c.nw++
	c.L.Unlock()
	vrt.Wait("Cond.Wait", w)
	c.tok.Lock() // acquire edge from the notifier's release
	c.tok.Unlock()
	c.L.Lock()
}

//go:norace
func (c *Cond) Signal() {
	if !vrt.Active() {
		return
	}
	vrt.Release("Cond.Signal")
	if c.nw > 0 {
		c.tok.Lock()
		c.tok.Unlock()
		c.waiters[0].woken = true
		copy(c.waiters[:], c.waiters[1:c.nw])
		c.nw--
	}
}

//go:norace
func (c *Cond) Broadcast() {
	if !vrt.Active() {
		return
	}
	vrt.Release("Cond.Broadcast")
	if c.nw > 0 {
		c.tok.Lock()
		c.tok.Unlock()
	}
	for i := 0; i < c.nw; i++ {
		c.waiters[i].woken = true
		c.waiters[i] = nil
	}
	c.nw = 0
}

// ---------------------------------------------------------------- Map / Pool (not used by gogu; kept so that an edit introducing them still builds)

type Map = sync.Map

// Pool models sync.Pool as what it is allowed to be: a free list from which Get may return any object
// that was Put before (here: the most recent one, which is also what the real pool does on one P) or
// a new one. Get and Put are scheduling points, so "Put, keep using the object, somebody else Gets it"
// is an interleaving the explorer produces.
type Pool struct {
	New  func() any
	mu   sync.Mutex
	free []any
}

func (p *Pool) Get() any {
	vrt.Sched("Pool.Get")
	p.mu.Lock()
	if n := len(p.free); n > 0 {
		x := p.free[n-1]
		p.free = p.free[:n-1]
		p.mu.Unlock()
		return x
	}
	p.mu.Unlock()
	if p.New != nil {
		return p.New()
	}
	return nil
}

func (p *Pool) Put(x any) {
	vrt.Sched("Pool.Put")
	if x == nil {
		return
	}
	p.mu.Lock()
	p.free = append(p.free, x)
	p.mu.Unlock()
}

// OnceFunc, OnceValue and OnceValues (Go 1.21) on top of the Once above. As in the real package a panic
// of f is re-raised by every call.
func OnceFunc(f func()) func() {
	var once Once
	var valid bool
	var p any
	g := func() {
		defer func() {
			p = recover()
			if !valid {
				panic(p)
			}
		}()
		f()
		f = nil
		valid = true
	}
	return func() {
		once.Do(g)
		if !valid {
			panic(p)
		}
	}
}

func OnceValue[T any](f func() T) func() T {
	var result T
	do := OnceFunc(func() { result = f() })
	return func() T {
		do()
		return result
	}
}

func OnceValues[T1, T2 any](f func() (T1, T2)) func() (T1, T2) {
	var r1 T1
	var r2 T2
	do := OnceFunc(func() { r1, r2 = f() })
	return func() (T1, T2) {
		do()
		return r1, r2
	}
}
