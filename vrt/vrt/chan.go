//go:build verif

package vrt

import (
	"fmt"
	"reflect"
	"sort"
	"sync/atomic"
)

// Chan models a Go channel under the controlled runtime. In pass-through mode
// (no execution attached) it is a thin wrapper around a real channel.
type Chan[T any] struct {
	real  chan T
	core  chanCore // non-generic readiness state, read by the (non-generic, norace) predicates
	buf   []T
	sendq []*sendWait[T]
	recvq []*recvWait[T]
	// parked selects that have a receive / send case on this channel (a select that waits is a
	// waiting receiver or sender like any other: its partner may complete the communication)
	selRecv []selReg
	selSend []selSendReg[T]
	// hb carries the happens-before edges of completed operations to the race
	// detector (an atomic read-modify-write: acquire+release). This orders all
	// operations of one channel, slightly more than Go guarantees.
	hb uint32
}

// chanCore mirrors len(buf), len(sendq), len(recvq), cap and closed.
type chanCore struct {
	cap, nbuf, nsend, nrecv int
	nselRecv, nselSend      int
	closed                  bool
}

//go:norace
func (c *chanCore) sendReady() bool {
	return c.closed || c.nbuf < c.cap || c.nrecv > 0 || c.nselRecv > 0
}

//go:norace
func (c *chanCore) recvReady() bool {
	return c.nbuf > 0 || c.nsend > 0 || c.closed || c.nselSend > 0
}

// selReg / selSendReg: one case of a parked select, registered with its channel.
type selReg struct {
	w   *selWait
	idx int
}

type selSendReg[T any] struct {
	w   *selWait
	idx int
	v   T
}

// chanWait is the predicate of a parked send or receive.
type chanWait struct {
	core *chanCore
	done *bool
	send bool
}

//go:norace
func (w *chanWait) Ready() bool {
	if *w.done {
		return true
	}
	if w.send {
		return w.core.sendReady()
	}
	return w.core.recvReady()
}

type sendWait[T any] struct {
	v     T
	taken bool
}

type recvWait[T any] struct {
	v    T
	ok   bool
	done bool
}

//go:norace
func (c *Chan[T]) syncCore() {
	c.core.nbuf, c.core.nsend, c.core.nrecv = len(c.buf), len(c.sendq), len(c.recvq)
	c.core.nselRecv, c.core.nselSend = len(c.selRecv), len(c.selSend)
}

// deliver performs a send that is known to be ready (not closed): to a waiting receiver if nothing is
// buffered ahead of it, else into the buffer, else (buffer full or unbuffered) to a parked select.
//
//go:norace
func (c *Chan[T]) deliver(v T) {
	c.edge()
	if len(c.buf) == 0 && len(c.recvq) > 0 {
		r := c.recvq[0]
		c.recvq = c.recvq[1:]
		r.v, r.ok, r.done = v, true, true
		return
	}
	if len(c.buf) < c.core.cap {
		c.buf = append(c.buf, v)
		return
	}
	if len(c.selRecv) > 0 {
		g := c.selRecv[0]
		g.w.complete(g.idx, v, true)
		return
	}
	c.buf = append(c.buf, v) // not reached when the caller checked sendReady
}

func MakeChan[T any](n int) *Chan[T] {
	return &Chan[T]{real: make(chan T, n), core: chanCore{cap: n}}
}

//go:norace
func (c *Chan[T]) edge() { atomic.AddUint32(&c.hb, 1) }

//go:norace
func (c *Chan[T]) sendReady() bool { c.syncCore(); return c.core.sendReady() }

//go:norace
func (c *Chan[T]) recvReady() bool { c.syncCore(); return c.core.recvReady() }

//go:norace
func Send[T any](c *Chan[T], v T) {
	if !Active() {
		if Aborting() {
			return
		}
		if c == nil {
			var nc chan T
			nc <- v
		}
		c.real <- v
		return
	}
	if c == nil {
		Wait("send on nil channel", Never{})
		return
	}
	s := &sendWait[T]{v: v}
	c.sendq = append(c.sendq, s)
	c.syncCore()
	Wait("chan send", &chanWait{core: &c.core, done: &s.taken, send: true})
	if s.taken {
		c.edge()
		return
	}
	c.removeSend(s)
	defer c.syncCore()
	if c.core.closed {
		panic("send on closed channel")
	}
	c.deliver(v)
}

//go:norace
func (c *Chan[T]) removeSend(s *sendWait[T]) {
	for i, x := range c.sendq {
		if x == s {
			c.sendq = append(c.sendq[:i:i], c.sendq[i+1:]...)
			c.syncCore()
			return
		}
	}
}

//go:norace
func (c *Chan[T]) removeRecv(r *recvWait[T]) {
	for i, x := range c.recvq {
		if x == r {
			c.recvq = append(c.recvq[:i:i], c.recvq[i+1:]...)
			c.syncCore()
			return
		}
	}
}

//go:norace
func Recv2[T any](c *Chan[T]) (T, bool) {
	if !Active() {
		var z T
		if Aborting() {
			return z, false
		}
		if c == nil {
			var nc chan T
			v, ok := <-nc
			return v, ok
		}
		v, ok := <-c.real
		return v, ok
	}
	if c == nil {
		Wait("receive from nil channel", Never{})
		var z T
		return z, false
	}
	r := &recvWait[T]{}
	c.recvq = append(c.recvq, r)
	c.syncCore()
	Wait("chan receive", &chanWait{core: &c.core, done: &r.done})
	if r.done {
		c.edge()
		return r.v, r.ok
	}
	c.removeRecv(r)
	return c.takeNow()
}

// takeNow performs a receive that is known to be ready.
//
//go:norace
func (c *Chan[T]) takeNow() (T, bool) {
	c.edge()
	defer c.syncCore()
	var z T
	if len(c.buf) > 0 {
		v := c.buf[0]
		c.buf = c.buf[1:]
		if len(c.sendq) > 0 { // a blocked sender moves into the freed slot
			s := c.sendq[0]
			c.sendq = c.sendq[1:]
			c.buf = append(c.buf, s.v)
			s.taken = true
		} else if len(c.selSend) > 0 { // ... or the send case of a parked select
			g := c.selSend[0]
			c.buf = append(c.buf, g.v)
			g.w.complete(g.idx, nil, false)
		}
		return v, true
	}
	if len(c.sendq) > 0 {
		s := c.sendq[0]
		c.sendq = c.sendq[1:]
		s.taken = true
		return s.v, true
	}
	if len(c.selSend) > 0 {
		g := c.selSend[0]
		v := g.v
		g.w.complete(g.idx, nil, false)
		return v, true
	}
	return z, false // closed
}

//go:norace
func Recv[T any](c *Chan[T]) T {
	v, _ := Recv2(c)
	return v
}

//go:norace
func Close[T any](c *Chan[T]) {
	if !Active() {
		if Aborting() {
			return
		}
		close(c.real)
		return
	}
	Sched("chan close")
	if c.core.closed {
		panic("close of closed channel")
	}
	c.core.closed = true
	c.edge()
	// registered receivers are woken by their predicate (closed => ready) and then drain what is still
	// buffered before they see the zero value: nothing is completed on their behalf here
	c.syncCore()
}

// TrySend is the non-blocking send used by timers (Go drops a tick when the channel is full).
//
//go:norace
func TrySend[T any](c *Chan[T], v T) bool {
	c.syncCore()
	defer c.syncCore()
	if c.core.closed || !c.core.sendReady() {
		return false
	}
	c.deliver(v)
	return true
}

// ---------------------------------------------------------------- select

// selOps is one case of a select, bound to its (generic) channel. Implementations are structs with
// //go:norace methods, never closures: a case of a parked select is touched by whichever thread
// completes the communication.
type selOps interface {
	ready(self *selWait) bool
	fire() any // performs the communication (known to be ready); receive: [2]any{v, ok}
	register(w *selWait, idx int)
	unregister(w *selWait)
}

type recvSel[T any] struct{ c *Chan[T] }

//go:norace
func (s recvSel[T]) ready(self *selWait) bool {
	c := s.c
	if len(c.buf) > 0 || len(c.sendq) > 0 || c.core.closed {
		return true
	}
	for _, g := range c.selSend {
		if g.w != self { // a select does not communicate with itself
			return true
		}
	}
	return false
}

//go:norace
func (s recvSel[T]) fire() any { v, ok := s.c.takeNow(); return [2]any{v, ok} }

//go:norace
func (s recvSel[T]) register(w *selWait, idx int) {
	s.c.selRecv = append(s.c.selRecv, selReg{w, idx})
	s.c.syncCore()
}

//go:norace
func (s recvSel[T]) unregister(w *selWait) {
	out := s.c.selRecv[:0]
	for _, g := range s.c.selRecv {
		if g.w != w {
			out = append(out, g)
		}
	}
	s.c.selRecv = out
	s.c.syncCore()
}

type sendSel[T any] struct {
	c *Chan[T]
	v T
}

//go:norace
func (s sendSel[T]) ready(self *selWait) bool {
	c := s.c
	if c.core.closed || len(c.buf) < c.core.cap || len(c.recvq) > 0 {
		return true
	}
	for _, g := range c.selRecv {
		if g.w != self {
			return true
		}
	}
	return false
}

//go:norace
func (s sendSel[T]) fire() any {
	defer s.c.syncCore()
	if s.c.core.closed {
		panic("send on closed channel")
	}
	s.c.deliver(s.v)
	return nil
}

//go:norace
func (s sendSel[T]) register(w *selWait, idx int) {
	s.c.selSend = append(s.c.selSend, selSendReg[T]{w, idx, s.v})
	s.c.syncCore()
}

//go:norace
func (s sendSel[T]) unregister(w *selWait) {
	out := s.c.selSend[:0]
	for _, g := range s.c.selSend {
		if g.w != w {
			out = append(out, g)
		}
	}
	s.c.selSend = out
	s.c.syncCore()
}

// selWait is a parked select: its predicate (some case is ready, or a partner has completed one) and
// the result a partner left behind.
type selWait struct {
	cases [8]selOps // nil: case on a nil channel (never ready)
	n     int
	done  bool
	idx   int
	val   any
	ok    bool
}

//go:norace
func (w *selWait) Ready() bool {
	if w.done {
		return true
	}
	for i := 0; i < w.n; i++ {
		if w.cases[i] != nil && w.cases[i].ready(w) {
			return true
		}
	}
	return false
}

// complete is called by the partner of a parked select: case idx has communicated.
//
//go:norace
func (w *selWait) complete(idx int, v any, ok bool) {
	w.done, w.idx, w.val, w.ok = true, idx, v, ok
	for i := 0; i < w.n; i++ {
		if w.cases[i] != nil {
			w.cases[i].unregister(w)
		}
	}
}

// Sel is the result of a Select.
type Sel struct {
	Index int
	val   any
	ok    bool
}

// SelCase is one communication clause.
type SelCase struct {
	c selOps
	// pass-through
	dir  reflect.SelectDir
	ch   reflect.Value
	send reflect.Value
}

//go:norace
func RecvCase[T any](c *Chan[T]) SelCase {
	sc := SelCase{dir: reflect.SelectRecv}
	if c == nil {
		sc.ch = reflect.ValueOf((chan T)(nil))
		return sc
	}
	sc.ch = reflect.ValueOf(c.real)
	c.syncCore()
	sc.c = recvSel[T]{c}
	return sc
}

//go:norace
func SendCase[T any](c *Chan[T], v T) SelCase {
	sc := SelCase{dir: reflect.SelectSend, send: reflect.ValueOf(v)}
	if c == nil {
		sc.ch = reflect.ValueOf((chan T)(nil))
		return sc
	}
	sc.ch = reflect.ValueOf(c.real)
	c.syncCore()
	sc.c = sendSel[T]{c, v}
	return sc
}

// Select blocks until one case is ready (or takes default when hasDefault and none is);
// among several ready cases the explorer chooses (Go chooses pseudo-randomly).
//
//go:norace
func Select(hasDefault bool, cases ...SelCase) *Sel {
	if !Active() {
		if Aborting() {
			return &Sel{Index: -1}
		}
		rc := make([]reflect.SelectCase, 0, len(cases)+1)
		for _, c := range cases {
			rc = append(rc, reflect.SelectCase{Dir: c.dir, Chan: c.ch, Send: c.send})
		}
		if hasDefault {
			rc = append(rc, reflect.SelectCase{Dir: reflect.SelectDefault})
		}
		i, v, ok := reflect.Select(rc)
		if hasDefault && i == len(cases) {
			return &Sel{Index: -1}
		}
		var val any
		if v.IsValid() {
			val = v.Interface()
		}
		return &Sel{Index: i, val: val, ok: ok}
	}
	if len(cases) > 8 {
		panic("vrt.Select: more than 8 cases")
	}
	w := &selWait{n: len(cases)} // scheduler-owned copy: the caller's variadic slice was written by instrumented code
	for i := range cases {
		w.cases[i] = cases[i].c
	}
	if hasDefault {
		Sched("select")
	} else {
		for i := 0; i < w.n; i++ {
			if w.cases[i] != nil {
				w.cases[i].register(w, i)
			}
		}
		Wait("select", w)
		if w.done { // a partner completed one of the cases while this select was parked
			return &Sel{Index: w.idx, val: w.val, ok: w.ok}
		}
		for i := 0; i < w.n; i++ {
			if w.cases[i] != nil {
				w.cases[i].unregister(w)
			}
		}
	}
	var ready [8]int
	nr := 0
	for i := 0; i < w.n; i++ {
		if w.cases[i] != nil && w.cases[i].ready(w) {
			ready[nr] = i
			nr++
		}
	}
	if nr == 0 {
		return &Sel{Index: -1}
	}
	k := ready[X.choose(nr, true, false, nil)]
	r := w.cases[k].fire()
	s := &Sel{Index: k}
	if p, ok := r.([2]any); ok {
		s.val, s.ok = p[0], p[1].(bool)
	}
	return s
}

// SelVal / SelOK extract the value received by the chosen case (the channel argument fixes the type).
//
//go:norace
func SelVal[T any](c *Chan[T], s *Sel) T {
	v, _ := s.val.(T)
	return v
}

//go:norace
func SelOK(s *Sel) bool { return s.ok }

// BlockForever is `select {}`.
//
//go:norace
func BlockForever() {
	if !Active() {
		if Aborting() {
			return
		}
		select {}
	}
	SetDaemon() // a goroutine that parks itself for good is not a deadlock victim
	Wait("select {}", Never{})
}

// ---------------------------------------------------------------- map iteration order

// MapOrder returns the keys of m in the order a `for range m` loop visits
// them: the runtime's own (random) order when nobody drives choices, otherwise
// every permutation is reachable through Choose (keys are first sorted into a
// canonical order so that a choice sequence determines the permutation).
//
//go:norace
func MapOrder[K comparable, V any](m map[K]V) []K {
	keys := make([]K, 0, len(m))
	for k := range m {
		keys = append(keys, k)
	}
	if len(keys) < 2 || (!Active() && ChooseHook == nil) {
		return keys
	}
	sort.Slice(keys, func(i, j int) bool { return keyLess(keys[i], keys[j]) })
	out := make([]K, 0, len(keys))
	for len(keys) > 0 {
		i := Choose(len(keys))
		out = append(out, keys[i])
		keys = append(keys[:i:i], keys[i+1:]...)
	}
	return out
}

func keyLess(a, b any) bool {
	switch x := a.(type) {
	case int:
		return x < b.(int)
	case string:
		return x < b.(string)
	case float64:
		return x < b.(float64)
	}
	va, vb := reflect.ValueOf(a), reflect.ValueOf(b)
	switch va.Kind() {
	case reflect.Int, reflect.Int8, reflect.Int16, reflect.Int32, reflect.Int64:
		return va.Int() < vb.Int()
	case reflect.Uint, reflect.Uint8, reflect.Uint16, reflect.Uint32, reflect.Uint64:
		return va.Uint() < vb.Uint()
	case reflect.String:
		return va.String() < vb.String()
	case reflect.Float32, reflect.Float64:
		return va.Float() < vb.Float()
	}
	return fmt.Sprintf("%#v", a) < fmt.Sprintf("%#v", b)
}
