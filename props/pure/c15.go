package main

import (
	"fmt"
	"math"
	"strings"
	"unicode"
	"unicode/utf8"

	"github.com/esimov/gogu"
	"verif/enum"
)

// C15 — string helpers.

func init() { registry["C15"] = c15 }

func refSubstr(s string, offset, length int) string {
	n := len(s)
	start := offset
	if offset < 0 {
		start = n + offset
	}
	if start < 0 || start > n {
		return ""
	}
	var end int
	if length < 0 {
		end = n + length
		if end < 0 || end < start {
			return ""
		}
	} else {
		end = n // positive length is clipped at the end (also when start+length would overflow)
		if length < n-start {
			end = start + length
		}
	}
	return s[start:end]
}

func isPrefixOfRepeat(p, token string) bool {
	if token == "" {
		return p == ""
	}
	rep := strings.Repeat(token, len(p)/len(token)+1)
	return strings.HasPrefix(rep, p)
}

// shout is a named string type with methods that formatting verbs would pick up: every helper is
// generic over ~string and must treat such a value as its text, exactly as it treats a plain string.
type shout string

func (s shout) String() string { return "STRING(" + string(s) + ")" }
func (s shout) Error() string  { return "ERROR(" + string(s) + ")" }

// c15NamedType: differential check -- the result for the named type equals the result for string.
func c15NamedType(r *R) {
	for _, s := range enum.Strings([]string{"a", "B", "é", "-", "*"}, 3) {
		t := shout(s)
		cmp := func(fn string, got shout, want string) {
			r.Eval(fn)
			if string(got) != want {
				r.Bad(fn+"/named-string-type-differs-from-string", fmt.Sprintf("%s[shout](%q,...)", fn, s), "got %q, the same call on a plain string gives %q", string(got), want)
			}
		}
		for _, tok := range []string{"*", "-é", ""} {
			cmp("Wrap", gogu.Wrap(t, tok), gogu.Wrap(s, tok))
			cmp("WrapAllRune", gogu.WrapAllRune(t, tok), gogu.WrapAllRune(s, tok))
			if p, _ := enum.Try(func() { cmp("Unwrap", gogu.Unwrap(t, tok), gogu.Unwrap(s, tok)) }); p {
				continue
			}
			if tok != "" {
				for _, size := range []int{0, len(s) + 1, len(s) + 4} {
					cmp("Pad", gogu.Pad(t, size, tok), gogu.Pad(s, size, tok))
					cmp("PadLeft", gogu.PadLeft(t, size, tok), gogu.PadLeft(s, size, tok))
					cmp("PadRight", gogu.PadRight(t, size, tok), gogu.PadRight(s, size, tok))
				}
			}
		}
		cmp("ToLower", gogu.ToLower(t), gogu.ToLower(s))
		cmp("ToUpper", gogu.ToUpper(t), gogu.ToUpper(s))
		cmp("Capitalize", gogu.Capitalize(t), gogu.Capitalize(s))
		cmp("CamelCase", gogu.CamelCase(t), gogu.CamelCase(s))
		cmp("SnakeCase", gogu.SnakeCase(t), gogu.SnakeCase(s))
		cmp("KebabCase", gogu.KebabCase(t), gogu.KebabCase(s))
		cmp("ReverseStr", gogu.ReverseStr(t), gogu.ReverseStr(s))
		for off := -2; off <= len(s)+1; off++ {
			cmp("Substr", gogu.Substr(t, off, 2), gogu.Substr(s, off, 2))
		}
		for idx := 0; idx <= len(s); idx++ {
			a, b := gogu.SplitAtIndex(t, idx), gogu.SplitAtIndex(s, idx)
			r.Eval("SplitAtIndex")
			if len(a) != len(b) || (len(a) == 2 && (string(a[0]) != b[0] || string(a[1]) != b[1])) {
				r.Bad("SplitAtIndex/named-string-type-differs-from-string", fmt.Sprintf("SplitAtIndex[shout](%q,%d)", s, idx), "got %q, plain string gives %q", a, b)
			}
		}
	}
}

func c15(r *R) {
	c12ReverseStr(r) // "ReverseStr reverses runes" is part of this property's statement too
	c15NamedType(r)
	c15PadLarge(r)
	c15LongWords(r)
	maxRunes := 4
	alpha := []string{"a", "B", "é", "-", "*"}
	if thorough {
		maxRunes = 5
		alpha = append(alpha, "1", " ")
	}
	strs := enum.Strings(alpha, maxRunes)
	r.Sample(fmt.Sprintf("every string of <= %d runes over %q: %d strings", maxRunes, alpha, len(strs)))
	tokens := []string{"*", "-", "é", "**", "*-", "-*", "é*", "*é", "--", "a", "a*", "aa", "*a"}
	for _, s := range strs {
		n := len(s)
		// Substr
		for off := -(n + 3); off <= n+3; off++ {
			for ln := -(n + 3); ln <= n+3; ln++ {
				var got string
				p, msg := enum.Try(func() { got = gogu.Substr(s, off, ln) })
				r.Eval("Substr")
				wit := fmt.Sprintf("Substr(%q,%d,%d)", s, off, ln)
				if p {
					r.Bad("Substr/panic", wit, "panicked: %s", msg)
				} else if want := refSubstr(s, off, ln); got != want {
					cls := "positive-offset"
					if off < 0 {
						cls = "negative-offset"
					}
					if ln < 0 {
						cls += "-negative-length"
					}
					r.Bad("Substr/wrong/"+cls, wit, "got %q, want %q", got, want)
				}
			}
		}
		// the extremes of the int type (sentinel arguments such as math.MaxInt for "to the end" /
		// "do not split"; index arithmetic must not wrap around)
		if utf8.RuneCountInString(s) <= 3 {
			near := []int{-1, 0, 1, n}
			for _, off := range append(append([]int{}, extremeInts...), near...) {
				for _, ln := range append(append([]int{}, extremeInts...), near...) {
					if !isExtreme(off) && !isExtreme(ln) {
						continue
					}
					var got string
					p, msg := enum.Try(func() { got = gogu.Substr(s, off, ln) })
					r.Eval("Substr")
					wit := fmt.Sprintf("Substr(%q,%d,%d)", s, off, ln)
					if p {
						r.Bad("Substr/panic/extreme-argument", wit, "panicked: %s", msg)
					} else if want := refSubstr(s, off, ln); got != want {
						r.Bad("Substr/wrong/extreme-argument", wit, "got %q, want %q", got, want)
					}
				}
			}
			for _, idx := range extremeInts {
				var got []string
				p, msg := enum.Try(func() { got = gogu.SplitAtIndex(s, idx) })
				r.Eval("SplitAtIndex")
				wit := fmt.Sprintf("SplitAtIndex(%q,%d)", s, idx)
				switch {
				case p:
					r.Bad("SplitAtIndex/panic/extreme-index", wit, "panicked: %s", msg)
				case len(got) != 2:
					r.Bad("SplitAtIndex/not-two-parts/extreme-index", wit, "got %d parts %q", len(got), got)
				case got[0]+got[1] != s:
					r.Bad("SplitAtIndex/concatenation-differs", wit, "got %q", got)
				}
			}
		}
		if n >= 2 {
			r.Nontrivial("s" + s)
		}
		// SplitAtIndex
		for idx := -3; idx <= n+3; idx++ {
			var got []string
			p, msg := enum.Try(func() { got = gogu.SplitAtIndex(s, idx) })
			r.Eval("SplitAtIndex")
			wit := fmt.Sprintf("SplitAtIndex(%q,%d)", s, idx)
			switch {
			case p:
				r.Bad("SplitAtIndex/panic", wit, "panicked: %s", msg)
			case len(got) != 2:
				cls := "index-in-range"
				if idx >= 0 && idx < n && !isRuneStart(s, idx) {
					cls = "index-inside-multibyte-rune"
				}
				r.Bad("SplitAtIndex/not-two-parts/"+cls, wit, "got %d parts %q", len(got), got)
			case got[0]+got[1] != s:
				r.Bad("SplitAtIndex/concatenation-differs", wit, "got %q", got)
			}
		}
		// padding
		for size := 0; size <= n+6; size++ {
			for _, tok := range tokens[:9] {
				for _, fn := range []string{"PadLeft", "PadRight", "Pad"} {
					var got string
					p, msg := enum.Try(func() {
						switch fn {
						case "PadLeft":
							got = gogu.PadLeft(s, size, tok)
						case "PadRight":
							got = gogu.PadRight(s, size, tok)
						default:
							got = gogu.Pad(s, size, tok)
						}
					})
					r.Eval(fn)
					wit := fmt.Sprintf("%s(%q,%d,%q)", fn, s, size, tok)
					if p {
						r.Bad(fn+"/panic", wit, "panicked: %s", msg)
						continue
					}
					if n >= size {
						if got != s {
							r.Bad(fn+"/long-enough-input-changed", wit, "got %q", got)
						}
						continue
					}
					if len(got) != size {
						r.Bad(fn+"/wrong-length", wit, "got %q of length %d, want length %d", got, len(got), size)
						continue
					}
					var l, rt string
					ok := true
					switch fn {
					case "PadLeft":
						ok = strings.HasSuffix(got, s)
						l = got[:size-n]
					case "PadRight":
						ok = strings.HasPrefix(got, s)
						rt = got[n:]
					default:
						lw := (size - n) / 2
						ok = got[lw:lw+n] == s
						l, rt = got[:lw], got[lw+n:]
					}
					if !ok || !isPrefixOfRepeat(l, tok) || !isPrefixOfRepeat(rt, tok) {
						r.Bad(fn+"/input-misplaced-or-padding-not-from-token", wit, "got %q", got)
					}
				}
			}
		}
		// Wrap / Unwrap / WrapAllRune
		for _, tok := range append([]string{""}, tokens...) {
			w := gogu.Wrap(s, tok)
			r.Eval("Wrap")
			if w != tok+s+tok {
				r.Bad("Wrap/wrong", fmt.Sprintf("Wrap(%q,%q)", s, tok), "got %q", w)
			}
			var u string
			p, msg := enum.Try(func() { u = gogu.Unwrap(w, tok) })
			r.Eval("Unwrap")
			if p {
				r.Bad("Unwrap/round-trip-panic", fmt.Sprintf("Unwrap(Wrap(%q,%q),%q)", s, tok, tok), "panicked: %s", msg)
			} else if u != s {
				r.Bad("Unwrap/round-trip", fmt.Sprintf("Unwrap(Wrap(%q,%q),%q)", s, tok, tok), "got %q, want %q", u, s)
			}
			// not wrapped => unchanged
			wrapped := tok != "" && len(s) >= 2*len(tok) && strings.HasPrefix(s, tok) && strings.HasSuffix(s, tok)
			if !wrapped {
				var u2 string
				p, msg := enum.Try(func() { u2 = gogu.Unwrap(s, tok) })
				r.Eval("Unwrap")
				wit := fmt.Sprintf("Unwrap(%q,%q)", s, tok)
				cls := "token-absent"
				if tok != "" && strings.HasPrefix(s, tok) {
					cls = "token-only-at-start"
				} else if tok != "" && strings.Contains(s, tok) {
					cls = "token-elsewhere"
				}
				if p {
					r.Bad("Unwrap/panic-on-unwrapped-string/"+cls, wit, "panicked: %s", msg)
				} else if u2 != s {
					r.Bad("Unwrap/changes-unwrapped-string/"+cls, wit, "got %q, want the input unchanged", u2)
				}
			}
			war := gogu.WrapAllRune(s, tok)
			r.Eval("WrapAllRune")
			want := ""
			for _, ru := range s {
				want += tok + string(ru) + tok
			}
			if war != want {
				r.Bad("WrapAllRune/wrong", fmt.Sprintf("WrapAllRune(%q,%q)", s, tok), "got %q, want %q", war, want)
			}
		}
	}
	c15Case(r)
	c15Styles(r)
}

func isRuneStart(s string, i int) bool {
	for idx := range s {
		if idx == i {
			return true
		}
	}
	return false
}

func c15Case(r *R) {
	alpha := []string{"a", "B", "é", "É", "ß", "ǅ", "İ", "1", "-"}
	L := 3
	if thorough {
		L = 4
	}
	for _, s := range enum.Strings(alpha, L) {
		var lo, up, capd []rune
		for i, ru := range []rune(s) {
			lo = append(lo, unicode.ToLower(ru))
			up = append(up, unicode.ToUpper(ru))
			if i == 0 {
				capd = append(capd, unicode.ToUpper(ru))
			} else {
				capd = append(capd, unicode.ToLower(ru))
			}
		}
		r.Eval("ToLower")
		r.Eval("ToUpper")
		r.Eval("Capitalize")
		if g := gogu.ToLower(s); g != string(lo) {
			r.Bad("ToLower/differs-from-unicode-mapping", fmt.Sprintf("ToLower(%q)", s), "got %q, want %q", g, string(lo))
		}
		if g := gogu.ToUpper(s); g != string(up) {
			r.Bad("ToUpper/differs-from-unicode-mapping", fmt.Sprintf("ToUpper(%q)", s), "got %q, want %q", g, string(up))
		}
		if g := gogu.Capitalize(s); g != string(capd) {
			r.Bad("Capitalize/differs-from-unicode-mapping", fmt.Sprintf("Capitalize(%q)", s), "got %q, want %q", g, string(capd))
		}
		if string(lo) != string(up) {
			r.Nontrivial("case" + s)
		}
	}
	// every Unicode scalar value, alone and between two ASCII letters: a table or arithmetic shortcut for a
	// block of code points (Latin-1, Greek, Cyrillic ...) is wrong for the non-letters inside that block
	// (round 7: C15-12, U+00D7 and U+00F7)
	for ru := rune(0); ru <= unicode.MaxRune; ru++ {
		if ru >= 0xD800 && ru <= 0xDFFF {
			continue
		}
		lo, up := unicode.ToLower(ru), unicode.ToUpper(ru)
		for _, c := range [...]struct{ s, lo, up, capd string }{
			{string(ru), string(lo), string(up), string(up)},
			{"a" + string(ru) + "B", "a" + string(lo) + "b", "A" + string(up) + "B", "A" + string(lo) + "b"},
		} {
			r.Eval("ToLower")
			r.Eval("ToUpper")
			r.Eval("Capitalize")
			if g := gogu.ToLower(c.s); g != c.lo {
				r.Bad("ToLower/differs-from-unicode-mapping/every-rune", fmt.Sprintf("ToLower(%q)", c.s), "got %q, want %q (U+%04X)", g, c.lo, ru)
			}
			if g := gogu.ToUpper(c.s); g != c.up {
				r.Bad("ToUpper/differs-from-unicode-mapping/every-rune", fmt.Sprintf("ToUpper(%q)", c.s), "got %q, want %q (U+%04X)", g, c.up, ru)
			}
			if g := gogu.Capitalize(c.s); g != c.capd {
				r.Bad("Capitalize/differs-from-unicode-mapping/every-rune", fmt.Sprintf("Capitalize(%q)", c.s), "got %q, want %q (U+%04X)", g, c.capd, ru)
			}
		}
		if lo != up {
			r.Nontrivial("caserune")
		}
	}
}

func alnum(s string) string {
	var b strings.Builder
	for _, c := range s {
		if (c >= 'a' && c <= 'z') || (c >= 'A' && c <= 'Z') || (c >= '0' && c <= '9') {
			b.WriteRune(unicode.ToLower(c))
		}
	}
	return b.String()
}

func c15Styles(r *R) {
	words := []string{"a", "ab", "Ab", "aB", "AB", "a1", "1a"}
	sepChars := []string{" ", "-", "_", "&"}
	seps := enum.Strings(sepChars, 2)[1:] // runs of length 1..2
	if !thorough {
		seps = append(enum.Strings(sepChars, 1)[1:], "  ", "- ", " -", "__", "&-", "_ ")
	}
	var inputs []struct {
		text  string
		words []string
	}
	edges := []string{"", " ", "-", "_"}
	for _, lead := range edges {
		for _, trail := range edges {
			for _, w1 := range words {
				inputs = append(inputs, struct {
					text  string
					words []string
				}{lead + w1 + trail, []string{w1}})
				for _, s1 := range seps {
					for _, w2 := range words {
						inputs = append(inputs, struct {
							text  string
							words []string
						}{lead + w1 + s1 + w2 + trail, []string{w1, w2}})
						if lead == "" && trail == "" {
							for _, s2 := range seps[:4] {
								for _, w3 := range words[:5] {
									inputs = append(inputs, struct {
										text  string
										words []string
									}{w1 + s1 + w2 + s2 + w3, []string{w1, w2, w3}})
								}
							}
						}
					}
				}
			}
		}
	}
	r.Sample(fmt.Sprintf("case styles: %d word strings, e.g. %q", len(inputs), inputs[len(inputs)/2].text))
	for _, in := range inputs {
		x := in.text
		var camel, snake, kebab string
		p, msg := enum.Try(func() {
			camel, snake, kebab = gogu.CamelCase(x), gogu.SnakeCase(x), gogu.KebabCase(x)
		})
		r.Eval("CamelCase")
		r.Eval("SnakeCase")
		r.Eval("KebabCase")
		if p {
			r.Bad("case-styles/panic", fmt.Sprintf("Camel/Snake/KebabCase(%q)", x), "panicked: %s", msg)
			continue
		}
		wantCamel := strings.ToLower(in.words[0])
		for _, w := range in.words[1:] {
			wantCamel += strings.ToUpper(w[:1]) + strings.ToLower(w[1:])
		}
		if camel != wantCamel {
			cls := "wrong-case-or-separator"
			if alnum(camel) != alnum(x) {
				cls = "loses-or-invents-characters"
			}
			r.Bad("CamelCase/"+cls, fmt.Sprintf("CamelCase(%q)", x), "got %q, want %q", camel, wantCamel)
		}
		for _, st := range []struct {
			fn, out, delim string
			f              func(string) string
		}{{"SnakeCase", snake, "_", gogu.SnakeCase[string]}, {"KebabCase", kebab, "-", gogu.KebabCase[string]}} {
			wit := fmt.Sprintf("%s(%q)", st.fn, x)
			if alnum(st.out) != alnum(x) {
				r.Bad(st.fn+"/loses-or-invents-characters", wit, "got %q", st.out)
				continue
			}
			bad := false
			for _, c := range st.out {
				if !((c >= 'a' && c <= 'z') || (c >= '0' && c <= '9') || string(c) == st.delim) {
					bad = true
				}
			}
			if bad {
				r.Bad(st.fn+"/foreign-separator-or-upper-case", wit, "got %q", st.out)
			}
			if again := st.f(st.out); again != st.out {
				r.Bad(st.fn+"/not-idempotent", wit, "got %q, applying it again gives %q", st.out, again)
			}
		}
		if strings.ReplaceAll(snake, "_", "-") != kebab {
			r.Bad("SnakeCase-KebabCase/differ-in-more-than-delimiter", fmt.Sprintf("SnakeCase/KebabCase(%q)", x), "got %q and %q", snake, kebab)
		}
		if len(in.words) >= 2 {
			r.Nontrivial("style" + x)
		}
	}
}

var extremeInts = []int{math.MinInt, math.MinInt + 1, math.MinInt32, math.MaxInt32, math.MaxInt - 1, math.MaxInt}

func isExtreme(v int) bool { return v <= math.MinInt32 || v >= math.MaxInt32 }

// c15PadLarge: the padding contracts at sizes where an implementation that builds the padding in blocks
// (doubling, a bounded copy buffer) changes regime: around powers of two from 1 KiB to 64 KiB and a few
// sizes in between, with tokens whose length divides none of them.
func c15PadLarge(r *R) {
	sizes := []int{1000, 1023, 1024, 1025, 4095, 4096, 4097, 8191, 8192, 8193, 8200, 16383, 16384, 16387, 20480, 24579, 32771, 65537}
	if thorough {
		for n := 100000; n <= 300000; n += 33333 {
			sizes = append(sizes, n)
		}
	}
	for _, s := range []string{"", "abc", "a|_-"} {
		n := len(s)
		for _, size := range sizes {
			for _, tok := range []string{"_", "ab", "_-|", "12345", "abcdef", "1234567", "é"} {
				for _, fn := range []string{"PadLeft", "PadRight", "Pad"} {
					var got string
					p, msg := enum.Try(func() {
						switch fn {
						case "PadLeft":
							got = gogu.PadLeft(s, size, tok)
						case "PadRight":
							got = gogu.PadRight(s, size, tok)
						default:
							got = gogu.Pad(s, size, tok)
						}
					})
					r.Eval(fn + "/large")
					wit := fmt.Sprintf("%s(%q,%d,%q)", fn, s, size, tok)
					if p {
						r.Bad(fn+"/panic", wit, "panicked: %s", msg)
						continue
					}
					if len(got) != size {
						r.Bad(fn+"/wrong-length", wit, "got a string of length %d, want %d", len(got), size)
						continue
					}
					var l, rt string
					ok := true
					switch fn {
					case "PadLeft":
						ok = strings.HasSuffix(got, s)
						l = got[:size-n]
					case "PadRight":
						ok = strings.HasPrefix(got, s)
						rt = got[n:]
					default:
						lw := (size - n) / 2
						ok = got[lw:lw+n] == s
						l, rt = got[:lw], got[lw+n:]
					}
					if !ok || !isPrefixOfRepeat(l, tok) || !isPrefixOfRepeat(rt, tok) {
						at := 0
						rep := strings.Repeat(tok, size/len(tok)+2)
						for _, part := range []string{l, rt} {
							for i := 0; i < len(part); i++ {
								if part[i] != rep[i] {
									at = i
									break
								}
							}
						}
						r.Bad(fn+"/input-misplaced-or-padding-not-from-token/large", wit, "the padding stops repeating the token around byte %d", at)
					}
				}
			}
		}
	}
	r.Nontrivial("pad-large-a")
	r.Nontrivial("pad-large-b")
}


// c15LongWords: the case styles on texts with one very long word (around 4 KiB, 64 KiB -- the token limit
// of a bufio.Scanner -- and beyond) between ordinary ones, and on long texts of short words.
func c15LongWords(r *R) {
	for _, n := range []int{4095, 4096, 4097, 65535, 65536, 65537, 70000, 200000} {
		long := strings.Repeat("abcdefghij", n/10+1)[:n]
		for _, sep := range []string{" ", "_", "-"} {
			x := "foo" + sep + "bar" + sep + long + sep + "baz"
			var camel, snake, kebab string
			p, msg := enum.Try(func() { camel, snake, kebab = gogu.CamelCase(x), gogu.SnakeCase(x), gogu.KebabCase(x) })
			r.Eval("case-styles/long-word")
			wit := fmt.Sprintf("a word of %d letters between foo%sbar and baz", n, sep)
			if p {
				r.Bad("case-styles/panic/long-word", wit, "panicked: %s", msg)
				continue
			}
			if want := "fooBar" + strings.ToUpper(long[:1]) + long[1:] + "Baz"; camel != want {
				r.Bad("CamelCase/loses-or-invents-characters/long-word", wit, "CamelCase returned %d bytes (%q...%q), want %d bytes ending in \"Baz\"", len(camel), head(camel), tail(camel), len(want))
			}
			if want := "foo_bar_" + long + "_baz"; snake != want {
				r.Bad("SnakeCase/wrong/long-word", wit, "SnakeCase returned %d bytes (%q...%q), want %d bytes", len(snake), head(snake), tail(snake), len(want))
			}
			if want := "foo-bar-" + long + "-baz"; kebab != want {
				r.Bad("KebabCase/wrong/long-word", wit, "KebabCase returned %d bytes (%q...%q), want %d bytes", len(kebab), head(kebab), tail(kebab), len(want))
			}
		}
	}
	// many short words
	for _, k := range []int{1000, 20000} {
		ws := make([]string, k)
		for i := range ws {
			ws[i] = "ab"
		}
		x := strings.Join(ws, " ")
		r.Eval("case-styles/many-words")
		if got, want := gogu.SnakeCase(x), strings.Join(ws, "_"); got != want {
			r.Bad("SnakeCase/wrong/many-words", fmt.Sprintf("%d words \"ab\"", k), "SnakeCase returned %d bytes, want %d", len(got), len(want))
		}
		if got := gogu.CamelCase(x); len(got) != 2*k || !strings.HasPrefix(got, "abAbAb") {
			r.Bad("CamelCase/wrong/many-words", fmt.Sprintf("%d words \"ab\"", k), "CamelCase returned %d bytes starting %q, want %d bytes abAbAb...", len(got), head(got), 2*k)
		}
	}
	r.Nontrivial("long-words-a")
	r.Nontrivial("long-words-b")
}

func head(s string) string {
	if len(s) > 12 {
		return s[:12]
	}
	return s
}

func tail(s string) string {
	if len(s) > 8 {
		return s[len(s)-8:]
	}
	return s
}
