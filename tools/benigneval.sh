#!/bin/bash
# tools/benigneval.sh <patch.diff> <name> [checks...]
# Runs the quick checks against a BEHAVIOUR-PRESERVING change in a scratch worktree of /repo
# (never touching /repo itself): every check must exit 0 and print no VIOLATION line.
export GOFLAGS=-mod=mod GOPROXY=off GOSUMDB=off GOTOOLCHAIN=local
patch=$1; name=$2; shift 2
checks=${@:-C01 C02 C03 C04 C05 C06 C07 C08 C09 C10 C11 C12 C13 C14 C15 C16 C17 C18 C19 C20}
wt=/tmp/bv_$name; out=/tmp/bvo_$name
git -C /repo worktree remove --force $wt >/dev/null 2>&1; rm -rf $wt $out
git -C /repo worktree add --detach $wt HEAD >/dev/null 2>&1 || { echo "worktree failed"; exit 2; }
( cd $wt && git apply "$patch" ) || { echo "$name: patch does not apply"; git -C /repo worktree remove --force $wt; exit 2; }
( cd $wt && go build ./... ) || { echo "$name: does not build"; git -C /repo worktree remove --force $wt; exit 2; }
mkdir -p $out
bad=0
for c in $checks; do
  VERIF_REPO=$wt VERIF_OUT=$out /verif/run.sh $c quick > $out/$c.log 2>&1; rc=$?
  if [ $rc -ne 0 ] || grep -q "^VIOLATION" $out/$c.log; then
    bad=1; echo "$name $c rc=$rc: $(grep -E '^VIOLATION|failure|error|cannot|undefined' $out/$c.log | head -3 | cut -c1-300)"
  fi
done
[ $bad = 0 ] && echo "$name: all quiet ($(echo $checks | wc -w) checks)"
git -C /repo worktree remove --force $wt >/dev/null 2>&1
[ $bad = 0 ] && rm -rf $out
exit $bad
