package main

import (
	"encoding/json"
	"fmt"
	"go/ast"
	"go/parser"
	"go/token"
	"os"
	"os/exec"
	"path/filepath"
	"runtime/debug"
	"sort"
	"strings"
	"syscall"
	"unsafe"

	"github.com/esimov/gogu"
	"github.com/esimov/gogu/heap"
	"verif/core"
	"verif/enum"
)

// C16 — helpers do not disturb their arguments or each other's results.

func init() { registry["C16"] = c16 }

const (
	sentL = -101 // sentinels before the window
	sentR = -202 // sentinels in the spare capacity and beyond
)

// window places s as backing[2:2+len(s):2+len(s)+spare] inside an array with sentinels around it.
func window(s []int, spare int) (backing, win []int) {
	backing = make([]int, 2+len(s)+spare+2)
	for i := range backing {
		if i < 2 {
			backing[i] = sentL
		} else {
			backing[i] = sentR
		}
	}
	copy(backing[2:], s)
	return backing, backing[2 : 2+len(s) : 2+len(s)+spare]
}

type sliceCall struct {
	name    string
	inPlace bool // contract: modifies its slice argument
	view    bool // contract: result is a view of the argument (or the argument itself)
	f       func(x []int) any
}

// c16probe, when set, is called from inside every callback the helpers are given: a helper must leave
// its arguments unchanged also WHILE it runs, as far as its own callbacks can observe.
var c16probe func()

func probe() {
	if c16probe != nil {
		c16probe()
	}
}

var isZero = func(v int) bool { probe(); return v == 0 }
var ident = func(v int) int { probe(); return v }
var ltInt = func(a, b int) bool { probe(); return a < b }

func sliceCalls() []sliceCall {
	other := func() []int { return []int{1, 2, 7} }
	return []sliceCall{
		{"Sum", false, false, func(x []int) any { return gogu.Sum(x) }},
		{"SumBy", false, false, func(x []int) any { return gogu.SumBy(x, ident) }},
		{"Mean", false, false, func(x []int) any {
			if len(x) == 0 {
				return 0
			}
			return gogu.Mean(x)
		}},
		{"IndexOf", false, false, func(x []int) any { return gogu.IndexOf(x, 1) }},
		{"LastIndexOf", false, false, func(x []int) any { return gogu.LastIndexOf(x, 1) }},
		{"Map", false, false, func(x []int) any { return gogu.Map(x, ident) }},
		{"ForEach", false, false, func(x []int) any { gogu.ForEach(x, func(int) { probe() }); return nil }},
		{"ForEachRight", false, false, func(x []int) any { gogu.ForEachRight(x, func(int) { probe() }); return nil }},
		{"Reduce", false, false, func(x []int) any { return gogu.Reduce(x, func(v, a int) int { probe(); return a + v }, 0) }},
		{"Reverse", true, true, func(x []int) any { return gogu.Reverse(x) }},
		{"Unique", false, false, func(x []int) any { return gogu.Unique(x) }},
		{"UniqueBy", false, false, func(x []int) any { return gogu.UniqueBy(x, ident) }},
		{"Every", false, false, func(x []int) any { return gogu.Every(x, isZero) }},
		{"Some", false, false, func(x []int) any { return gogu.Some(x, isZero) }},
		{"Partition", false, false, func(x []int) any { return gogu.Partition(x, isZero) }},
		{"Contains", false, false, func(x []int) any { return gogu.Contains(x, 1) }},
		{"Duplicate", false, false, func(x []int) any { d := gogu.Duplicate(x); sort.Ints(d); return d }},
		{"DuplicateWithIndex", false, false, func(x []int) any { return gogu.DuplicateWithIndex(x) }},
		{"Merge(x,other)", false, false, func(x []int) any { return gogu.Merge(x, other()) }},
		{"Merge(x,[9])", false, false, func(x []int) any { return gogu.Merge(x, []int{9}) }},
		{"Merge(x)", false, false, func(x []int) any { return gogu.Merge(x) }},
		{"Merge(other,x)", false, false, func(x []int) any { return gogu.Merge(other(), x) }},
		{"Flatten", false, false, func(x []int) any { r, _ := gogu.Flatten[int]([]any{x, []any{x}}); return r }},
		{"Union", false, false, func(x []int) any { r, _ := gogu.Union[int]([]any{x, other()}); return r }},
		{"Intersection(x,other)", false, false, func(x []int) any { return gogu.Intersection(x, other()) }},
		{"Intersection(x)", false, false, func(x []int) any { return gogu.Intersection(x) }},
		{"Intersection(other,x)", false, false, func(x []int) any { return gogu.Intersection(other(), x) }},
		{"IntersectionBy", false, false, func(x []int) any { return gogu.IntersectionBy(ident, x, other()) }},
		{"Without", false, false, func(x []int) any { return gogu.Without[int, int](x, 1) }},
		{"Difference(x,other)", false, false, func(x []int) any { return gogu.Difference(x, other()) }},
		{"Difference(other,x)", false, false, func(x []int) any { return gogu.Difference(other(), x) }},
		{"DifferenceBy", false, false, func(x []int) any { return gogu.DifferenceBy(x, other(), ident) }},
		{"Chunk(x,2)", false, true, func(x []int) any { return gogu.Chunk(x, 2) }},
		{"Chunk(x,9)", false, true, func(x []int) any { return gogu.Chunk(x, 9) }},
		{"Drop(x,1)", false, true, func(x []int) any { return gogu.Drop(x, 1) }},
		{"Drop(x,-1)", false, true, func(x []int) any { return gogu.Drop(x, -1) }},
		{"Drop(x,0)", false, true, func(x []int) any { return gogu.Drop(x, 0) }},
		{"DropWhile", false, false, func(x []int) any { return gogu.DropWhile(x, isZero) }},
		{"DropRightWhile", false, false, func(x []int) any { return gogu.DropRightWhile(x, isZero) }},
		{"GroupBy", false, false, func(x []int) any { return gogu.GroupBy(x, ident) }},
		{"Zip(x,x..)", false, false, func(x []int) any {
			rows := make([][]int, len(x))
			for i := range rows {
				rows[i] = x
			}
			return gogu.Zip(rows...)
		}},
		{"Unzip(x,x..)", false, false, func(x []int) any {
			rows := make([][]int, len(x))
			for i := range rows {
				rows[i] = x
			}
			return gogu.Unzip(rows...)
		}},
		{"ToSlice(x...)", false, false, func(x []int) any { return gogu.ToSlice(x...) }},
		{"Filter", false, false, func(x []int) any { return gogu.Filter(x, isZero) }},
		{"Filter(true)", false, false, func(x []int) any { return gogu.Filter(x, func(int) bool { return true }) }},
		{"Reject", true, true, func(x []int) any { return gogu.Reject(x, isZero) }},
		{"Shuffle", false, false, func(x []int) any { s := gogu.Shuffle(x); sort.Ints(s); return s }},
		{"FindIndex", false, false, func(x []int) any { return gogu.FindIndex(x, isZero) }},
		{"FindLastIndex", false, false, func(x []int) any { return gogu.FindLastIndex(x, isZero) }},
		{"FindAll", false, false, func(x []int) any { return gogu.FindAll(x, isZero) }},
		{"FindMin", false, false, func(x []int) any { return gogu.FindMin(x) }},
		{"FindMinBy", false, false, func(x []int) any { return gogu.FindMinBy(x, ident) }},
		{"FindMax", false, false, func(x []int) any { return gogu.FindMax(x) }},
		{"FindMaxBy", false, false, func(x []int) any { return gogu.FindMaxBy(x, ident) }},
		{"Nth", false, false, func(x []int) any { v, _ := gogu.Nth(x, -1); return v }},
		{"Min(x...)", false, false, func(x []int) any {
			if len(x) == 0 {
				return 0
			}
			return gogu.Min(x...)
		}},
		{"Max(x...)", false, false, func(x []int) any {
			if len(x) == 0 {
				return 0
			}
			return gogu.Max(x...)
		}},
		{"SliceToMap(x,x)", false, false, func(x []int) any { return gogu.SliceToMap(x, x) }},
		{"heap.FromSlice", true, true, func(x []int) any { return heap.FromSlice(x, ltInt).GetValues() }},
		{"heap.Sort", true, true, func(x []int) any { return heap.Sort(x, ltInt) }},
	}
}

type mapCall struct {
	name    string
	inPlace bool
	f       func(m map[string]int) any
	// refs: the result is a collection that holds the argument maps themselves
	// (a filtered []map keeps references, as any Go slice of maps does), so an
	// in-place edit of such a map legitimately shows through.
	refs bool
}

func mapCalls() []mapCall {
	pos := func(v int) bool { return v > 0 }
	return []mapCall{
		{"Keys", false, func(m map[string]int) any { k := gogu.Keys(m); sort.Strings(k); return k }, false},
		{"Values", false, func(m map[string]int) any { v := gogu.Values(m); sort.Ints(v); return v }, false},
		{"MapValues", false, func(m map[string]int) any { return gogu.MapValues(m, func(v int) int { return v + 1 }) }, false},
		{"MapKeys", false, func(m map[string]int) any { return gogu.MapKeys(m, func(k string, v int) string { return k + "!" }) }, false},
		{"MapKeys(id)", false, func(m map[string]int) any { return gogu.MapKeys(m, func(k string, v int) string { return k }) }, false},
		{"MapEvery", false, func(m map[string]int) any { return gogu.MapEvery(m, pos) }, false},
		{"MapSome", false, func(m map[string]int) any { return gogu.MapSome(m, pos) }, false},
		{"MapContains", false, func(m map[string]int) any { return gogu.MapContains(m, 1) }, false},
		{"MapUnique", false, func(m map[string]int) any { return gogu.MapUnique(m) }, false},
		{"MapCollection", false, func(m map[string]int) any {
			v := gogu.MapCollection(m, func(v int) int { return v })
			sort.Ints(v)
			return v
		}, false},
		{"Find", false, func(m map[string]int) any { return gogu.Find(m, pos) }, false},
		{"FindKey", false, func(m map[string]int) any { return gogu.FindKey(m, func(int) bool { return false }) }, false},
		{"FindByKey", false, func(m map[string]int) any { return gogu.FindByKey(m, func(k string) bool { return k == "a" }) }, false},
		{"Invert", false, func(m map[string]int) any { return gogu.Invert(m) }, false},
		{"Pick", false, func(m map[string]int) any { r, _ := gogu.Pick(m, "a", "b"); return r }, false},
		{"PickBy", false, func(m map[string]int) any { return gogu.PickBy(m, func(k string, v int) bool { return v > 0 }) }, false},
		{"Omit", true, func(m map[string]int) any { return gogu.Omit(m, "a") }, false},
		{"OmitBy", true, func(m map[string]int) any { return gogu.OmitBy(m, func(k string, v int) bool { return v > 0 }) }, false},
		{"FilterMap", false, func(m map[string]int) any { return gogu.FilterMap(m, pos) }, false},
		{"Pluck", false, func(m map[string]int) any { return gogu.Pluck([]map[string]int{m, m}, "a") }, false},
		{"PartitionMap", false, func(m map[string]int) any {
			p := gogu.PartitionMap([]map[string]int{m}, func(mm map[string]int) bool { return len(mm) > 1 })
			return fmt.Sprint(len(p[0]), len(p[1]))
		}, false},
		{"FilterMapCollection", false, func(m map[string]int) any { return gogu.FilterMapCollection([]map[string]int{m}, pos) }, true},
		{"FindMinByKey", false, func(m map[string]int) any { v, _ := gogu.FindMinByKey([]map[string]int{m}, "a"); return v }, false},
		{"FindMaxByKey", false, func(m map[string]int) any { v, _ := gogu.FindMaxByKey([]map[string]int{m}, "a"); return v }, false},
	}
}

func snap(v any) string { return fmt.Sprintf("%#v", v) }

func c16(r *R) {
	L := 4
	if thorough {
		L = 6
	}
	inputs := enum.AllSlices([]int{0, 1, 2}, L)
	calls := sliceCalls()
	r.Sample(fmt.Sprintf("%d slice helpers x every []int of length <= %d over {0,1,2} placed at backing[2:2+len:cap] with spare capacity in {0,1,4} and sentinels; every ordered pair of helpers on the same argument", len(calls), L))
	spares := []int{0, 1, 4}
	// (1) single calls
	for _, c := range calls {
		for _, s := range inputs {
			for _, sp := range spares {
				backing, x := window(s, sp)
				during := ""
				if !c.inPlace {
					c16probe = func() {
						if during == "" && !eqSlice(backing[2:2+len(s)], s) {
							during = fmt.Sprint(backing[2 : 2+len(s)])
						}
					}
				}
				p, msg := enum.Try(func() { c.f(x) })
				c16probe = nil
				r.Eval(c.name)
				wit := fmt.Sprintf("%s with x=%v (spare capacity %d)", c.name, s, sp)
				if during != "" {
					r.Bad(helperOf(c.name)+"/modifies-its-argument-while-running", wit, "a callback invoked by the helper saw the argument as %s", during)
				}
				if p {
					continue // rejections (e.g. Zip of non-square) are C12's/C14's subject
				}
				_ = msg
				for i, v := range backing {
					inWin := i >= 2 && i < 2+len(s)
					want := sentR
					if i < 2 {
						want = sentL
					}
					if inWin {
						want = s[i-2]
					}
					if v == want {
						continue
					}
					switch {
					case !inWin:
						where := "spare-capacity"
						if i < 2 {
							where = "before-the-slice"
						} else if i >= 2+len(s)+sp {
							where = "beyond-capacity"
						}
						r.Bad(helperOf(c.name)+"/writes-outside-its-argument/"+where, wit, "backing array index %d changed from %d to %d (window is [2,%d))", i, want, v, 2+len(s))
					case !c.inPlace:
						r.Bad(helperOf(c.name)+"/modifies-its-argument", wit, "argument became %v", backing[2:2+len(s)])
					}
				}
				if len(x) != len(s) {
					r.Bad(helperOf(c.name)+"/argument-length-changed", wit, "len %d", len(x))
				}
			}
		}
	}
	// (2) ordered pairs on a shared argument
	pairInputs := enum.AllSlices([]int{0, 1, 2}, 3)
	if thorough {
		pairInputs = inputs
	}
	pairs := 0
	for _, a := range calls {
		for _, b := range calls {
			for _, s := range pairInputs {
				for _, sp := range spares {
					_, x := window(s, sp)
					var ra any
					if p, _ := enum.Try(func() { ra = a.f(x) }); p {
						continue
					}
					before := snap(ra)
					argBefore := snap(x)
					if p, _ := enum.Try(func() { b.f(x) }); p {
						continue
					}
					pairs++
					r.Eval("pair")
					if a.view && b.inPlace {
						continue // a view of the argument legitimately follows an in-place edit of it
					}
					if after := snap(ra); after != before {
						r.Bad(helperOf(a.name)+"/earlier-result-altered-by-later-call/"+helperOf(b.name), fmt.Sprintf("r := %s; %s with x=%v (spare capacity %d)", a.name, b.name, s, sp), "result was %s, became %s", before, after)
					}
					if !b.inPlace && snap(x) != argBefore {
						r.Bad(helperOf(b.name)+"/modifies-its-argument", fmt.Sprintf("%s after %s with x=%v", b.name, a.name, s), "argument became %v", x)
					}
					if len(s) >= 2 && sp > 0 {
						r.Nontrivial(a.name + "|" + b.name + fmt.Sprint(s))
					}
				}
			}
		}
	}
	r.Set("ordered_pairs_executed", pairs)
	// maps
	mcs := mapCalls()
	var maps []map[string]int
	enum.Maps([]string{"a", "b", "c"}, []int{0, 1, 2}, 3, func(m map[string]int) { maps = append(maps, mcopy(m)) })
	for _, a := range mcs {
		for _, m := range maps {
			in := mcopy(m)
			if p, _ := enum.Try(func() { a.f(in) }); p {
				continue
			}
			r.Eval(a.name)
			if !a.inPlace && !meq(in, m) {
				r.Bad(a.name+"/modifies-its-argument", fmt.Sprintf("%s(%s)", a.name, mstr(m)), "argument became %s", mstr(in))
			}
			// the other direction: what the caller does to the RESULT (an in-place helper, a plain
			// assignment) must not reach the argument -- the result of a non-in-place helper is a map of its own
			if !a.inPlace && !a.refs {
				in2 := mcopy(m)
				var res any
				if p, _ := enum.Try(func() { res = a.f(in2) }); !p {
					if rm, ok := res.(map[string]int); ok && rm != nil {
						gogu.Omit(rm, "a", "b", "c")
						rm["zz"] = 99
						if !meq(in2, m) {
							r.Bad(a.name+"/result-aliases-argument", fmt.Sprintf("r := %s(%s); Omit(r, ...); r[zz]=99", a.name, mstr(m)), "the argument became %s", mstr(in2))
						}
					}
				}
			}
			for _, b := range mcs {
				in := mcopy(m)
				var ra any
				if p, _ := enum.Try(func() { ra = a.f(in) }); p {
					continue
				}
				before := snap(ra)
				if p, _ := enum.Try(func() { b.f(in) }); p {
					continue
				}
				r.Eval("pair")
				if a.inPlace && b.inPlace {
					continue
				}
				if a.inPlace || (a.refs && b.inPlace) {
					continue // result of an in-place helper is the argument itself
				}
				if after := snap(ra); after != before && !b.inPlace {
					r.Bad(a.name+"/earlier-result-altered-by-later-call/"+b.name, fmt.Sprintf("r := %s; %s on %s", a.name, b.name, mstr(m)), "result was %s, became %s", before, after)
				} else if after != before && b.inPlace {
					// a non-in-place helper must return a NEW map: an in-place edit of the argument must not show through
					r.Bad(a.name+"/result-aliases-argument", fmt.Sprintf("r := %s; %s on %s", a.name, b.name, mstr(m)), "result was %s, became %s", before, after)
				}
			}
		}
	}
	c16Variadic(r, maps)
	c16Concurrent(r)
	c16ReadOnly(r, calls, inputs)
	c16ResultParts(r)
	c16Inventory(r, calls, mcs)
}

// c16ReadOnly: every helper that is not in-place by contract is run with its slice argument placed in a
// memory page that is mapped READ-ONLY. Any write to the argument -- also one that is undone before
// the helper returns, which no before/after comparison and no callback can see -- faults, and the fault
// is turned into a panic of the calling goroutine (debug.SetPanicOnFault). Exhaustive over the same
// inputs as the single-call pass, and deterministic: no second goroutine, no race detector.
func c16ReadOnly(r *R, calls []sliceCall, inputs [][]int) {
	page, err := syscall.Mmap(-1, 0, 4096, syscall.PROT_READ|syscall.PROT_WRITE, syscall.MAP_ANON|syscall.MAP_PRIVATE)
	if err != nil {
		r.Set("read_only_argument_pass", "skipped: mmap failed: "+err.Error())
		return
	}
	defer syscall.Munmap(page)
	old := debug.SetPanicOnFault(true)
	defer debug.SetPanicOnFault(old)
	n := 0
	for _, c := range calls {
		if c.inPlace {
			continue
		}
		for _, s := range inputs {
			if len(s) == 0 {
				continue
			}
			syscall.Mprotect(page, syscall.PROT_READ|syscall.PROT_WRITE)
			x := unsafe.Slice((*int)(unsafe.Pointer(&page[0])), len(s))
			copy(x, s)
			syscall.Mprotect(page, syscall.PROT_READ)
			p, msg := enum.Try(func() { c.f(x[:len(s):len(s)]) })
			n++
			r.Eval(c.name)
			if p && (strings.Contains(msg, "fault") || strings.Contains(msg, "invalid memory address") || strings.Contains(msg, "unexpected signal")) {
				r.Bad(helperOf(c.name)+"/writes-to-its-argument", fmt.Sprintf("%s with x=%v placed in read-only memory", c.name, s), "the helper wrote to its argument (memory fault: %s)", msg)
			}
		}
	}
	r.Set("read_only_argument_calls", n)
}

// c16ResultParts: the parts of ONE result (the two groups of Partition, the groups of GroupBy, the
// rows of Zip/Unzip, the two lists of PartitionMap) are results in their own right: growing one of them
// (append within its capacity) must not reach into another. Checked on the capacity regions of the
// parts. Chunk is exempt: its chunks are views of the argument by contract.
func c16ResultParts(r *R) {
	overlap := func(parts [][]int) (int, int, bool) {
		for i := range parts {
			for j := range parts {
				if i == j || cap(parts[i]) == 0 || cap(parts[j]) == 0 {
					continue
				}
				ai := uintptr(unsafe.Pointer(unsafe.SliceData(parts[i])))
				aj := uintptr(unsafe.Pointer(unsafe.SliceData(parts[j])))
				if ai <= aj && aj < ai+uintptr(cap(parts[i]))*unsafe.Sizeof(int(0)) {
					return i, j, true
				}
			}
		}
		return 0, 0, false
	}
	for _, s := range enum.AllSlices([]int{0, 1, 2}, 4) {
		for _, sp := range []int{0, 3} {
			_, x := window(s, sp)
			chk := func(name string, parts [][]int) {
				r.Eval(name)
				if i, j, bad := overlap(parts); bad {
					r.Bad(name+"/parts-of-its-result-share-storage", fmt.Sprintf("%s with x=%v", name, s), "growing part %d of the result within its capacity (%d > len %d) would overwrite part %d", i, cap(parts[i]), len(parts[i]), j)
				}
			}
			pt := gogu.Partition(x, isZero)
			chk("Partition", [][]int{pt[0], pt[1]})
			var groups [][]int
			for _, g := range gogu.GroupBy(x, ident) {
				groups = append(groups, g)
			}
			chk("GroupBy", groups)
			if len(s) == 2 {
				if p, _ := enum.Try(func() { chk("Zip", gogu.Zip(x, x)) }); p {
					continue
				}
				enum.Try(func() { chk("Unzip", gogu.Unzip(x, x)) })
			}
		}
	}
	// PartitionMap: two lists of maps
	ms := []map[string]int{{"a": 1}, {"a": 1, "b": 2}, {}, {"c": 3}}
	for n := 0; n <= len(ms); n++ {
		for _, pred := range []func(map[string]int) bool{func(m map[string]int) bool { return len(m) > 1 }, func(m map[string]int) bool { return len(m) == 1 }} {
			res := gogu.PartitionMap(append([]map[string]int{}, ms[:n]...), pred)
			r.Eval("PartitionMap")
			a, b := res[0], res[1]
			if cap(a) > len(a) && len(b) > 0 {
				pa := uintptr(unsafe.Pointer(unsafe.SliceData(a)))
				pb := uintptr(unsafe.Pointer(unsafe.SliceData(b)))
				if pa <= pb && pb < pa+uintptr(cap(a))*unsafe.Sizeof(a[0]) {
					r.Bad("PartitionMap/parts-of-its-result-share-storage", fmt.Sprintf("PartitionMap of %d maps", n), "appending to the first group within its capacity would overwrite the second group")
				}
			}
		}
	}
}

// c16Variadic: a variadic parameter list is an argument too. A caller that spreads a slice it holds
// (Omit(m, keys...)) hands the helper that very backing array; it must come back unchanged, spare
// capacity and surroundings included.
func c16Variadic(r *R, maps []map[string]int) {
	spares := []int{0, 1, 4}
	strWindow := func(s []string, spare int) (backing, win []string) {
		backing = make([]string, 2+len(s)+spare+2)
		for i := range backing {
			backing[i] = "<R>"
			if i < 2 {
				backing[i] = "<L>"
			}
		}
		copy(backing[2:], s)
		return backing, backing[2 : 2+len(s) : 2+len(s)+spare]
	}
	check := func(name, wit string, before, after any) {
		r.Eval(name)
		if snap(before) != snap(after) {
			r.Bad(name+"/modifies-its-variadic-argument-list", wit, "the spread slice's backing array was %v, became %v", before, after)
		}
	}
	// key lists of Pick / Omit
	keyLists := enum.AllSlices([]string{"a", "b", "d"}, 3)
	for _, m := range maps {
		if len(m) > 2 && !thorough {
			continue
		}
		for _, kl := range keyLists {
			for _, sp := range spares {
				for _, h := range []string{"Pick", "Omit"} {
					backing, keys := strWindow(kl, sp)
					want := append([]string{}, backing...)
					in := mcopy(m)
					if p, _ := enum.Try(func() {
						if h == "Pick" {
							gogu.Pick(in, keys...)
						} else {
							gogu.Omit(in, keys...)
						}
					}); p {
						continue
					}
					check(h, fmt.Sprintf("%s(%s, keys...) with keys=%v (spare capacity %d)", h, mstr(m), kl, sp), want, backing)
					if len(kl) >= 2 {
						r.Nontrivial(h + mstr(m) + fmt.Sprint(kl, sp))
					}
				}
			}
		}
	}
	// value lists of Without, Min, Max, ToSlice, Range
	small := enum.AllSlices([]int{0, 1, 2}, 3)
	for _, vals := range small {
		for _, sp := range spares {
			for _, x := range small {
				backing, vs := window(vals, sp)
				want := append([]int{}, backing...)
				if p, _ := enum.Try(func() { gogu.Without[int, int](append([]int{}, x...), vs...) }); !p {
					check("Without", fmt.Sprintf("Without(%v, values...) with values=%v (spare capacity %d)", x, vals, sp), want, backing)
				}
			}
			for _, h := range []string{"Min", "Max", "ToSlice", "Range", "RangeRight"} {
				backing, vs := window(vals, sp)
				want := append([]int{}, backing...)
				if p, _ := enum.Try(func() {
					switch h {
					case "Min":
						gogu.Min(vs...)
					case "Max":
						gogu.Max(vs...)
					case "ToSlice":
						gogu.ToSlice(vs...)
					case "Range":
						gogu.Range(vs...)
					case "RangeRight":
						gogu.RangeRight(vs...)
					}
				}); !p {
					check(h, fmt.Sprintf("%s(values...) with values=%v (spare capacity %d)", h, vals, sp), want, backing)
				}
			}
		}
	}
	// lists of slices: Merge, Intersection, IntersectionBy, Zip, Unzip
	tiny := enum.AllSlices([]int{0, 1, 2}, 2)
	var tuples [][][]int
	for _, a := range tiny {
		tuples = append(tuples, [][]int{a})
		for _, b := range tiny {
			tuples = append(tuples, [][]int{a, b})
			for _, c := range tiny {
				if thorough || (len(a) > 0 && len(b) > len(c)) { // quick: triples whose later lists are not in ascending length order
					tuples = append(tuples, [][]int{a, b, c})
				}
			}
		}
	}
	render := func(rows [][]int) string {
		var sb strings.Builder
		for _, row := range rows {
			fmt.Fprintf(&sb, "%v/len%d ", row, len(row))
		}
		return sb.String()
	}
	for _, tu := range tuples {
		for _, sp := range []int{0, 2} {
			for _, h := range []string{"Merge", "Intersection", "IntersectionBy", "Zip", "Unzip"} {
				backing := make([][]int, 1+len(tu)+sp+1)
				for i := range backing {
					backing[i] = []int{sentR}
				}
				for i, row := range tu {
					backing[1+i] = append([]int{}, row...)
				}
				rows := backing[1 : 1+len(tu) : 1+len(tu)+sp]
				want := render(backing)
				if p, _ := enum.Try(func() {
					switch h {
					case "Merge":
						gogu.Merge([]int{5}, rows...)
					case "Intersection":
						gogu.Intersection(rows...)
					case "IntersectionBy":
						gogu.IntersectionBy(ident, rows...)
					case "Zip":
						gogu.Zip(rows...)
					case "Unzip":
						gogu.Unzip(rows...)
					}
				}); p {
					continue
				}
				r.Eval(h)
				if got := render(backing); got != want {
					r.Bad(h+"/modifies-its-variadic-argument-list", fmt.Sprintf("%s(slices...) with slices=%v (spare capacity %d)", h, tu, sp), "the spread list of slices was %s, became %s", want, got)
				}
			}
		}
	}
}

func helperOf(name string) string {
	if i := strings.IndexAny(name, "("); i > 0 {
		return name[:i]
	}
	return name
}

// c16Inventory lists gogu's exported functions with a slice or map parameter that the tables above do not exercise.
func c16Inventory(r *R, scs []sliceCall, mcs []mapCall) {
	have := map[string]bool{}
	for _, c := range scs {
		have[helperOf(c.name)] = true
	}
	for _, c := range mcs {
		have[helperOf(c.name)] = true
	}
	have["Filter2DMapCollection"] = true // same loop as FilterMapCollection, exercised in C14
	fset := token.NewFileSet()
	repo := os.Getenv("VERIF_REPO")
	if repo == "" {
		repo = "/repo"
	}
	files, _ := filepath.Glob(repo + "/*.go")
	var missing []string
	for _, f := range files {
		if strings.HasSuffix(f, "_test.go") {
			continue
		}
		af, err := parser.ParseFile(fset, f, nil, 0)
		if err != nil {
			continue
		}
		for _, d := range af.Decls {
			fd, ok := d.(*ast.FuncDecl)
			if !ok || fd.Recv != nil || !fd.Name.IsExported() {
				continue
			}
			takes := false
			for _, p := range fd.Type.Params.List {
				switch t := p.Type.(type) {
				case *ast.ArrayType, *ast.MapType:
					takes = true
				case *ast.Ellipsis:
					_ = t
				}
			}
			if takes && !have[fd.Name.Name] {
				missing = append(missing, fd.Name.Name)
			}
		}
	}
	sort.Strings(missing)
	r.Set("exported_helpers_with_slice_or_map_parameter_not_exercised", missing)
	if len(missing) > 0 {
		fmt.Fprintln(os.Stderr, "C16 note: helpers not in the tables:", missing)
	}
}

// c16Concurrent runs the concurrent part of C16 (props/conc/c16conc.go, built against the full overlay
// with the controlled runtime) and merges its findings and counts: every interleaving of two
// concurrent helper calls must give each call the result it has when run alone.
func c16Concurrent(r *R) {
	bin := filepath.Join(core.OutRoot(), "bin", "conc_race")
	if _, err := os.Stat(bin); err != nil {
		fmt.Fprintln(os.Stderr, "C16: bin/conc_race is missing: the concurrent part cannot run")
		os.Exit(2)
	}
	tsan, err := os.MkdirTemp("", "verif-c16-")
	if err != nil {
		os.Exit(2)
	}
	defer os.RemoveAll(tsan)
	cmd := exec.Command(bin, "C16worker", "all")
	cmd.Env = append(os.Environ(), "GOMAXPROCS=2", "VERIF_TSAN_DIR="+tsan, "GORACE=halt_on_error=0 exitcode=0 log_path="+tsan+"/tsan")
	cmd.Stderr = os.Stderr
	out, err := cmd.Output()
	if err != nil {
		fmt.Fprintln(os.Stderr, "C16: concurrent part failed:", err)
		os.Exit(2)
	}
	// first use of each helper family by two goroutines, one fresh process per family
	if cnt, err := exec.Command(bin, "C16first", "count").Output(); err == nil {
		var n int
		fmt.Sscan(strings.TrimSpace(string(cnt)), &n)
		firstRuns := 0
		for k := 0; k < n; k++ {
			c2 := exec.Command(bin, "C16first", fmt.Sprint(k))
			c2.Env = append(os.Environ(), "GOMAXPROCS=2", "VERIF_TSAN_DIR="+tsan, "GORACE=halt_on_error=0 exitcode=0 log_path="+tsan+"/tsan")
			c2.Stderr = os.Stderr
			o2, err := c2.Output()
			if err != nil {
				fmt.Fprintln(os.Stderr, "C16: first-use run failed:", err)
				os.Exit(2)
			}
			firstRuns++
			for _, line := range strings.Split(string(o2), "\n") {
				if strings.HasPrefix(line, "F\t") {
					out = append(out, []byte(line+"\n")...)
				}
			}
		}
		r.Set("first_use_by_two_goroutines_runs", firstRuns)
	}
	for _, line := range strings.Split(string(out), "\n") {
		switch {
		case strings.HasPrefix(line, "F\t"):
			var f struct {
				Key, Detail     string
				Witness, Replay any
			}
			if json.Unmarshal([]byte(line[2:]), &f) == nil {
				r.Add(f.Key, f.Detail, f.Witness, f.Replay)
			}
		case strings.HasPrefix(line, "S\t"):
			var st struct {
				Scenarios, Execs, Steps, Incomplete int
				Samples                             []string
			}
			if json.Unmarshal([]byte(line[2:]), &st) == nil {
				r.Set("concurrent_helper_call_pairs", st.Scenarios)
				r.Set("concurrent_schedules_explored", st.Execs)
				r.Set("concurrent_pairs_not_exhaustive", st.Incomplete)
				for _, sm := range st.Samples {
					r.Sample(sm)
				}
			}
		}
	}
}
