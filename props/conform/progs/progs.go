// Package progs holds small concurrent programs over sync, channels and timers, written in plain Go.
// They are compiled twice: natively (this package, real primitives, free-running) and through the
// vinstr rewriter as the virtual package github.com/esimov/gogu/vrtshim/conformprogs (shims, every
// schedule explored). The conformance check requires: every outcome seen natively is among the
// explored outcomes, and the in-program assertions (facts guaranteed by the real primitives) hold in
// every explored schedule.
package progs

import (
	"context"
	"fmt"
	"sync"
	"sync/atomic"
	"time"
)

// Prog is one conformance program. It returns its outcome; an outcome starting with "ASSERT" is a
// violated guarantee of the primitives themselves.
type Prog struct {
	Name string
	F    func() string
	// Timed programs move time themselves (Sleep): they run natively with real (millisecond)
	// durations and under the shims with the discrete-event rule.
	Timed bool
	// Racy programs contain a data race on purpose: the race build must REPORT it in some schedule
	// (the shims create no happens-before edge the real primitives do not create).
	Racy bool
}

const ms = time.Millisecond

var All = []Prog{
	{"mutex-counter", mutexCounter, false, false},
	{"rwmutex-exclusion", rwExclusion, false, false},
	{"rwmutex-writer-vs-second-reader", rwWriterVsReader, false, false},
	{"cond-signal-broadcast", condProg, false, false},
	{"waitgroup", wgProg, false, false},
	{"once", onceProg, false, false},
	{"chan-unbuffered-pingpong", pingPong, false, false},
	{"chan-buffered-two-senders", bufferedSenders, false, false},
	{"chan-close-range", closeRange, false, false},
	{"chan-select-two-ready", selectTwoReady, false, false},
	{"chan-select-default", selectDefault, false, false},
	{"chan-send-on-closed-panics", sendOnClosed, false, false},
	{"select-send-vs-plain-receive", selectSendVsRecv, false, false},
	{"select-vs-select-rendezvous", selectVsSelect, false, false},
	{"select-default-vs-parked-select", selectDefaultVsParked, false, false},
	{"select-recv-vs-close", selectRecvVsClose, false, false},
	{"chan-recv-from-closed", recvClosed, false, false},
	{"timer-afterfunc-stop-early", func() string { return afterFuncStop(2) }, true, false},
	{"timer-afterfunc-stop-late", func() string { return afterFuncStop(80) }, true, false},
	{"timer-after-select-timeout", afterTimeout, true, false},
	{"ticker-drops-ticks-when-full", tickerDrop, true, false},
	{"timer-stop-then-no-fire", timerStopNoFire, true, false},
	{"chan-as-mutex", chanMutex, false, false},
	{"chan-buffered-pointer-pipeline", chanPipeline, false, false},
	{"select-parked-handoff", selectHandoff, false, false},
	{"close-publishes", closePublishes, false, false},
	{"racy-two-producers-one-buffered-channel", racyProducers, false, true},
	{"racy-receiver-past-vs-buffered-sender", racyReceiverPast, false, true},
	{"chan-as-semaphore-unbuffered-handoff", chanHandoff, false, false},
	{"context-cancel-stops-worker", ctxCancel, false, false},
	{"context-cancel-propagates-to-children", ctxChildren, false, false},
	{"context-timeout", ctxTimeout, true, false},
	{"context-cancel-vs-timeout", ctxCancelVsTimeout, true, false},
	{"once-value", onceValue, false, false},
	{"atomic-typed-counter", atomicTyped, false, false},
}

// A channel of capacity one as a lock (send = lock, receive = unlock): the kth receive is synchronised
// before the completion of the (k+1)th send, so the counter below is race free and never torn.
func chanMutex() string {
	sem := make(chan struct{}, 1)
	var wg sync.WaitGroup
	x, inside := 0, 0
	bad := ""
	for i := 0; i < 3; i++ {
		wg.Add(1)
		go func() {
			defer wg.Done()
			sem <- struct{}{}
			inside++
			if inside != 1 {
				bad = "ASSERT two goroutines inside the critical section"
			}
			x++
			inside--
			<-sem
		}()
	}
	wg.Wait()
	if bad != "" {
		return bad
	}
	return fmt.Sprint(x)
}

// A buffered channel as a pipeline: what the producer wrote before send k is read by the consumer after
// receive k (and the producer never touches an element again).
func chanPipeline() string {
	ch := make(chan *int, 2)
	sum := 0
	done := make(chan struct{})
	go func() {
		for p := range ch {
			sum += *p
		}
		close(done)
	}()
	for i := 1; i <= 3; i++ {
		v := new(int)
		*v = i
		ch <- v
	}
	close(ch)
	<-done
	return fmt.Sprint(sum)
}

// A goroutine parked in a select is handed a pointer by a plain send and answers through a plain receive
// of its own select-send: both directions synchronise.
func selectHandoff() string {
	in, out, quit := make(chan *int), make(chan *int), make(chan struct{})
	go func() {
		for {
			select {
			case p := <-in:
				*p *= 2
				select {
				case out <- p:
				case <-quit:
					return
				}
			case <-quit:
				return
			}
		}
	}()
	v := 21
	in <- &v
	q := <-out
	close(quit)
	return fmt.Sprint(*q, v)
}

// close publishes: what was written before close(ch) is read after a receive from the closed channel.
func closePublishes() string {
	ready := make(chan struct{})
	data := 0
	var wg sync.WaitGroup
	got := make([]int, 2)
	for i := 0; i < 2; i++ {
		wg.Add(1)
		go func(i int) {
			defer wg.Done()
			<-ready
			got[i] = data
		}(i)
	}
	data = 7
	close(ready)
	wg.Wait()
	return fmt.Sprint(got)
}

// RACY on purpose: two producers write the same variable and then send on one buffered channel. Sends
// do not synchronise with each other, so the writes race.
func racyProducers() string {
	ch := make(chan int, 2)
	shared := 0
	for i := 1; i <= 2; i++ {
		go func(i int) {
			shared = i
			ch <- i
		}(i)
	}
	a, b := <-ch, <-ch
	_ = shared
	return fmt.Sprint(a + b)
}

// RACY on purpose: with a buffered channel the receiver's past is NOT ordered before what the sender
// does after its send (only receive k happens-before send k+cap): the receiver writes x and then
// receives, the sender sends and then reads x.
func racyReceiverPast() string {
	ch := make(chan int, 1)
	x := 0
	done := make(chan int)
	go func() {
		ch <- 1
		done <- x
	}()
	x = 5
	<-ch
	return fmt.Sprint(<-done >= 0)
}

// Data handed over through an unbuffered channel and the reply through another one: plain memory written
// before the send is read after the receive (and back) without any other synchronisation.
func chanHandoff() string {
	req, rep := make(chan *int), make(chan struct{})
	go func() {
		p := <-req
		*p += 10
		rep <- struct{}{}
	}()
	v := 1
	req <- &v
	<-rep
	return fmt.Sprint(v)
}

// A worker selecting on ctx.Done() and a work channel: after cancel returns and the worker has been
// joined, Err is Canceled; the worker saw either outcome of the race between the item and the cancel.
func ctxCancel() string {
	ctx, cancel := context.WithCancel(context.Background())
	work := make(chan int, 1)
	done := make(chan string)
	go func() {
		select {
		case <-ctx.Done():
			done <- "cancelled"
		case v := <-work:
			done <- fmt.Sprint("item", v)
		}
	}()
	go func() { work <- 1 }()
	cancel()
	out := <-done
	if ctx.Err() != context.Canceled {
		return "ASSERT Err after cancel is not Canceled"
	}
	cancel() // idempotent
	return out
}

// Cancelling a parent cancels children and grandchildren (synchronously: Err is set when cancel returns);
// cancelling a child leaves the parent alone; a context derived from a cancelled one is born cancelled.
func ctxChildren() string {
	parent, cancelP := context.WithCancel(context.Background())
	child, cancelC := context.WithCancel(parent)
	grand, cancelG := context.WithCancel(context.WithValue(child, "k", "v"))
	sib, cancelS := context.WithCancel(parent)
	defer cancelG()
	cancelS()
	if parent.Err() != nil || child.Err() != nil {
		return "ASSERT cancelling a child cancelled its parent or sibling"
	}
	if sib.Err() != context.Canceled {
		return "ASSERT cancelled child has no error"
	}
	var wg sync.WaitGroup
	seen := make([]string, 2)
	seen[0] = "context canceled"
	wg.Add(1)
	go func() {
		defer wg.Done()
		<-grand.Done()
		seen[1] = fmt.Sprint(grand.Err())
	}()
	cancelP()
	if child.Err() != context.Canceled || grand.Err() != context.Canceled {
		return "ASSERT cancel returned before the descendants were cancelled"
	}
	wg.Wait()
	cancelC()
	late, cancelL := context.WithCancel(grand)
	defer cancelL()
	select {
	case <-late.Done():
	default:
		return "ASSERT a context derived from a cancelled one is not done"
	}
	if grand.Value("k") != "v" || late.Value("k") != "v" {
		return "ASSERT value lost"
	}
	return seen[0] + "," + seen[1]
}

func ctxTimeout() string {
	ctx, cancel := context.WithTimeout(context.Background(), 20*ms)
	defer cancel()
	start := time.Now()
	if _, ok := ctx.Deadline(); !ok {
		return "ASSERT no deadline"
	}
	select {
	case <-ctx.Done():
	case <-time.After(2000 * ms):
		return "ASSERT the deadline never fired"
	}
	if time.Since(start) < 20*ms {
		return "ASSERT done before the deadline"
	}
	return fmt.Sprint(ctx.Err())
}

// cancel long before the deadline: Canceled wins, the timer is stopped and never overwrites the error.
func ctxCancelVsTimeout() string {
	ctx, cancel := context.WithTimeout(context.Background(), 60*ms)
	time.Sleep(5 * ms)
	cancel()
	<-ctx.Done()
	first := ctx.Err()
	time.Sleep(100 * ms)
	if ctx.Err() != first {
		return "ASSERT the error changed after cancellation"
	}
	// a child with a later deadline than its parent inherits the parent's
	p, cp := context.WithTimeout(context.Background(), 10*ms)
	defer cp()
	c, cc := context.WithTimeout(p, 500*ms)
	defer cc()
	<-c.Done()
	return fmt.Sprint(first, ",", c.Err())
}

func onceValue() string {
	runs := 0
	get := sync.OnceValue(func() int { runs++; return 7 })
	var wg sync.WaitGroup
	bad := ""
	for i := 0; i < 3; i++ {
		wg.Add(1)
		go func() {
			defer wg.Done()
			if get() != 7 {
				bad = "ASSERT OnceValue returned before the value was computed"
			}
		}()
	}
	wg.Wait()
	if bad != "" {
		return bad
	}
	return fmt.Sprint(runs)
}

// Typed atomics: a lost update is impossible with Add, possible with Load+Store.
func atomicTyped() string {
	var a atomic.Int64
	var b atomic.Int32
	var flag atomic.Bool
	var wg sync.WaitGroup
	for i := 0; i < 2; i++ {
		wg.Add(1)
		go func() {
			defer wg.Done()
			a.Add(1)
			b.Store(b.Load() + 1)
			flag.CompareAndSwap(false, true)
		}()
	}
	wg.Wait()
	if a.Load() != 2 || !flag.Load() {
		return "ASSERT atomic add lost an update"
	}
	return fmt.Sprint(b.Load())
}

func mutexCounter() string {
	var mu sync.Mutex
	var wg sync.WaitGroup
	x, inside := 0, 0
	bad := ""
	for i := 0; i < 3; i++ {
		wg.Add(1)
		go func() {
			defer wg.Done()
			mu.Lock()
			inside++
			if inside != 1 {
				bad = "ASSERT two goroutines inside one Mutex"
			}
			x++
			inside--
			mu.Unlock()
		}()
	}
	wg.Wait()
	if bad != "" {
		return bad
	}
	return fmt.Sprint(x)
}

func rwExclusion() string {
	var mu sync.RWMutex
	var meta sync.Mutex // guards the bookkeeping below
	var wg sync.WaitGroup
	readers, writers, maxReaders := 0, 0, 0
	bad := ""
	reader := func() {
		defer wg.Done()
		mu.RLock()
		meta.Lock()
		readers++
		if writers != 0 {
			bad = "ASSERT reader inside while a writer holds the RWMutex"
		}
		if readers > maxReaders {
			maxReaders = readers
		}
		meta.Unlock()
		meta.Lock()
		readers--
		meta.Unlock()
		mu.RUnlock()
	}
	writer := func() {
		defer wg.Done()
		mu.Lock()
		meta.Lock()
		writers++
		if writers != 1 || readers != 0 {
			bad = "ASSERT writer not exclusive"
		}
		meta.Unlock()
		meta.Lock()
		writers--
		meta.Unlock()
		mu.Unlock()
	}
	wg.Add(3)
	go reader()
	go reader()
	go writer()
	wg.Wait()
	if bad != "" {
		return bad
	}
	return fmt.Sprintf("max-concurrent-readers=%d", maxReaders)
}

// A reader holds the lock; a writer and a second reader arrive. Both entry orders are possible.
func rwWriterVsReader() string {
	var mu sync.RWMutex
	var meta sync.Mutex
	var wg sync.WaitGroup
	order := ""
	mu.RLock()
	wg.Add(2)
	go func() {
		defer wg.Done()
		mu.Lock()
		meta.Lock()
		order += "W"
		meta.Unlock()
		mu.Unlock()
	}()
	go func() {
		defer wg.Done()
		mu.RLock()
		meta.Lock()
		order += "R"
		meta.Unlock()
		mu.RUnlock()
	}()
	mu.RUnlock()
	wg.Wait()
	return order
}

func condProg() string {
	var mu sync.Mutex
	cond := sync.NewCond(&mu)
	var wg sync.WaitGroup
	ready, woken := 0, 0
	for i := 0; i < 2; i++ {
		wg.Add(1)
		go func() {
			defer wg.Done()
			mu.Lock()
			for ready == 0 {
				cond.Wait()
			}
			ready--
			woken++
			mu.Unlock()
		}()
	}
	mu.Lock()
	ready = 1
	cond.Signal()
	mu.Unlock()
	mu.Lock()
	ready++
	cond.Broadcast()
	mu.Unlock()
	wg.Wait()
	return fmt.Sprintf("woken=%d ready=%d", woken, ready)
}

func wgProg() string {
	var wg sync.WaitGroup
	var mu sync.Mutex
	sum := 0
	for i := 1; i <= 3; i++ {
		wg.Add(1)
		i := i
		go func() {
			mu.Lock()
			sum += i
			mu.Unlock()
			wg.Done()
		}()
	}
	wg.Wait()
	return fmt.Sprint(sum) // Wait returns only after all three Done: always 6
}

func onceProg() string {
	var once sync.Once
	var wg sync.WaitGroup
	runs := 0
	val := 0
	bad := ""
	for i := 0; i < 3; i++ {
		wg.Add(1)
		go func() {
			defer wg.Done()
			once.Do(func() { runs++; val = 42 })
			if val != 42 {
				bad = "ASSERT Once.Do returned before the first call completed"
			}
		}()
	}
	wg.Wait()
	if bad != "" {
		return bad
	}
	return fmt.Sprint(runs)
}

func pingPong() string {
	ping, pong := make(chan int), make(chan int)
	go func() {
		for v := range ping {
			pong <- v + 1
		}
		close(pong)
	}()
	out := ""
	for i := 0; i < 3; i++ {
		ping <- i
		out += fmt.Sprint(<-pong)
	}
	close(ping)
	_, ok := <-pong
	return fmt.Sprintf("%s closed=%t", out, !ok)
}

func bufferedSenders() string {
	ch := make(chan int, 1)
	var wg sync.WaitGroup
	wg.Add(2)
	go func() { defer wg.Done(); ch <- 1 }()
	go func() { defer wg.Done(); ch <- 2 }()
	a := <-ch
	b := <-ch
	wg.Wait()
	return fmt.Sprint(a, b)
}

func closeRange() string {
	ch := make(chan int, 2)
	go func() {
		ch <- 1
		ch <- 2
		ch <- 3
		close(ch)
	}()
	sum := 0
	for v := range ch {
		sum += v
	}
	v, ok := <-ch
	return fmt.Sprint(sum, v, ok)
}

func selectTwoReady() string {
	a, b := make(chan int, 1), make(chan int, 1)
	a <- 1
	b <- 2
	out := ""
	select {
	case v := <-a:
		out = fmt.Sprint("a", v)
	case v := <-b:
		out = fmt.Sprint("b", v)
	}
	return out
}

func selectDefault() string {
	a := make(chan int)
	full := make(chan int, 1)
	full <- 9
	out := ""
	select {
	case v := <-a:
		out += fmt.Sprint("recv", v)
	default:
		out += "default1 "
	}
	select {
	case full <- 1:
		out += "sent"
	default:
		out += "default2"
	}
	return out
}

func sendOnClosed() (out string) {
	ch := make(chan int, 1)
	close(ch)
	defer func() {
		if r := recover(); r != nil {
			out = "panic"
		}
	}()
	ch <- 1
	return "no panic"
}

func recvClosed() string {
	ch := make(chan int, 1)
	ch <- 7
	close(ch)
	v1, ok1 := <-ch
	v2, ok2 := <-ch
	return fmt.Sprint(v1, ok1, v2, ok2)
}

// AfterFunc(40ms) and Stop after d ms: either Stop wins (true, callback never runs) or the timer has
// fired (false, callback runs).
func afterFuncStop(d int) string {
	var mu sync.Mutex
	ran := false
	t := time.AfterFunc(40*ms, func() { mu.Lock(); ran = true; mu.Unlock() })
	time.Sleep(time.Duration(d) * ms)
	stopped := t.Stop()
	time.Sleep(60 * ms)
	mu.Lock()
	defer mu.Unlock()
	if stopped && ran {
		return "ASSERT Stop returned true and the callback still ran"
	}
	return fmt.Sprint(stopped, ran)
}

func afterTimeout() string {
	never := make(chan int)
	out := ""
	select {
	case <-never:
		out = "recv"
	case <-time.After(2 * ms):
		out = "timeout"
	}
	return out
}

// A ticker's channel holds one tick: a consumer that sleeps through several periods finds exactly one.
func tickerDrop() string {
	tk := time.NewTicker(20 * ms)
	time.Sleep(90 * ms)
	n := 0
	for {
		select {
		case <-tk.C:
			n++
			continue
		default:
		}
		break
	}
	tk.Stop()
	return fmt.Sprint(n)
}

func timerStopNoFire() string {
	t := time.NewTimer(4 * ms)
	stopped := t.Stop()
	time.Sleep(6 * ms)
	select {
	case <-t.C:
		return fmt.Sprint(stopped, " fired")
	default:
		return fmt.Sprint(stopped, " silent")
	}
}

// RecursiveReadLock: a goroutine that holds the read lock takes it again while a writer may be
// pending. Go documents this as a deadlock hazard (the pending writer blocks new readers); the program
// is only run under the shims (natively it would hang).
func RecursiveReadLock() {
	var mu sync.RWMutex
	var wg sync.WaitGroup
	wg.Add(1)
	mu.RLock()
	go func() {
		defer wg.Done()
		mu.Lock()
		mu.Unlock()
	}()
	mu.RLock()
	mu.RUnlock()
	mu.RUnlock()
	wg.Wait()
}

// A goroutine parked in a select with a send case is a waiting sender: a plain receive completes it.
func selectSendVsRecv() string {
	ch, stop := make(chan int), make(chan int)
	res := make(chan string, 1)
	go func() {
		out := ""
		select {
		case ch <- 7:
			out = "sent"
		case <-stop:
			out = "stopped"
		}
		res <- out
	}()
	v := <-ch
	return fmt.Sprint(v, " ", <-res)
}

// Two selects rendezvous with each other on an unbuffered channel.
func selectVsSelect() string {
	ch, stop := make(chan int), make(chan int)
	res := make(chan string, 2)
	go func() {
		out := ""
		select {
		case ch <- 5:
			out = "sent"
		case <-stop:
			out = "sender stopped"
		}
		res <- out
	}()
	go func() {
		out := ""
		select {
		case v := <-ch:
			out = fmt.Sprint("got", v)
		case <-stop:
			out = "receiver stopped"
		}
		res <- out
	}()
	a, b := <-res, <-res
	if a > b {
		a, b = b, a
	}
	return a + " " + b
}

// A non-blocking send (select with default) to a goroutine that may or may not be parked in its
// select yet: both "sent" and "default" are possible, never a lost or duplicated value.
func selectDefaultVsParked() string {
	done, tick := make(chan int), make(chan int)
	got := make(chan int, 1)
	go func() {
		v := -1
		select {
		case v = <-done:
		case v = <-tick:
		}
		got <- v
	}()
	out := ""
	select {
	case done <- 1:
		out = "sent"
	default:
		out = "default"
		tick <- 2 // release the goroutine
	}
	return fmt.Sprint(out, " ", <-got)
}

func selectRecvVsClose() string {
	ch, other := make(chan int, 1), make(chan int)
	res := make(chan string, 1)
	go func() {
		out := ""
		select {
		case v, ok := <-ch:
			out = fmt.Sprint(v, ok)
		case <-other:
			out = "other"
		}
		res <- out
	}()
	ch <- 4
	close(ch)
	return <-res // the buffered value is received before the close is seen
}
