package main

import (
	"encoding/json"
	"fmt"
	"math/bits"
	"sort"
	"strings"

	"github.com/esimov/gogu/btree"
	"verif/core"
	"verif/seqmc"
)

// C10 — B-tree as an ordered map. Reference model: Go map + set of keys ever inserted.

func init() {
	registry["C10"] = func() []*seqmc.Spec {
		keys := 5
		if thorough {
			keys = 6
		}
		return []*seqmc.Spec{{Property: "C10", Component: "BTree", Inits: []string{"empty"}, New: func(string) seqmc.Sys {
			return &btSys{t: btree.New[int, string](), model: map[int]string{}, ever: map[int]bool{}, keys: keys}
		}}}
	}
	extras["C10"] = btreeOrders
}

type btSys struct {
	t     *btree.BTree[int, string]
	model map[int]string
	ever  map[int]bool
	keys  int
}

func (s *btSys) Ops() []seqmc.Op {
	var ops []seqmc.Op
	for k := 0; k < s.keys; k++ {
		ops = append(ops, op("Put", k, 0), op("Put", k, 1), op("Remove", k))
	}
	// a callback that changes the tree while it is being traversed (the package's own test removes the
	// visited keys this way): when the first key is visited, another present key is removed or overwritten.
	// The traversal is a live view: what it has not reached yet is visited as it is when it gets there.
	for k := 0; k < s.keys; k++ {
		if _, present := s.model[k]; present && len(s.model) >= 2 {
			ops = append(ops, op("TraverseRemoving", k), op("TraverseOverwriting", k))
		}
	}
	return ops
}

func (s *btSys) OpClass(o seqmc.Op) string {
	if strings.HasPrefix(o.N, "Traverse") {
		return o.N
	}
	k := o.I[0]
	_, present := s.model[k]
	st := "absent-never-inserted"
	if present {
		st = "present"
	} else if s.ever[k] {
		st = "removed"
	}
	return fmt.Sprintf("%s(%s)", o.N, st)
}

func (s *btSys) Apply(o seqmc.Op, c *seqmc.Ctx) {
	k := o.I[0]
	switch o.N {
	case "Put":
		s.t.Put(k, bstVals[o.I[1]])
		s.model[k] = bstVals[o.I[1]]
		s.ever[k] = true
	case "Remove":
		s.t.Remove(k)
		delete(s.model, k)
	case "TraverseRemoving", "TraverseOverwriting":
		var keys []int
		for m := range s.model {
			keys = append(keys, m)
		}
		sort.Ints(keys)
		first := keys[0]
		newVal := bstVals[0]
		if s.model[k] == newVal {
			newVal = bstVals[1]
		}
		var want, got []string
		for _, m := range keys {
			if m == first {
				want = append(want, fmt.Sprintf("%d=%s", m, s.model[m]))
				if o.N == "TraverseRemoving" {
					delete(s.model, k)
				} else {
					s.model[k] = newVal
				}
				continue
			}
			if v, ok := s.model[m]; ok {
				want = append(want, fmt.Sprintf("%d=%s", m, v))
			}
		}
		visits := 0
		s.t.Traverse(func(key int, v string) {
			got = append(got, fmt.Sprintf("%d=%s", key, v))
			if visits == 0 {
				if o.N == "TraverseRemoving" {
					s.t.Remove(k)
				} else {
					s.t.Put(k, newVal)
				}
			}
			visits++
		})
		if fmt.Sprint(got) != fmt.Sprint(want) {
			c.Soft("BTree."+o.N+"/visits-differ-from-the-live-view", "%s(%d) (done when the first key %d is visited) visited %v, want %v", o.N, k, first, got, want)
		}
	}
}

func btreeObserve(name string, t *btree.BTree[int, string], model map[int]string, ever int, lo, hi int, c func(key, format string, a ...any)) {
	if n := t.Size(); n != len(model) {
		c(name+".Size/"+fmt.Sprintf("off-by-%+d", n-len(model)), "Size = %d, want %d (present %v)", n, len(model), model)
	}
	if e := t.IsEmpty(); e != (len(model) == 0) {
		c(name+".IsEmpty/wrong", "IsEmpty = %t with %d keys present", e, len(model))
	}
	for k := lo; k <= hi; k++ {
		v, ok := t.Get(k)
		want, present := model[k]
		switch {
		case present && !ok:
			c(name+".Get/present-key-not-found", "Get(%d) = (%q,false), want %q", k, v, want)
		case present && v != want:
			c(name+".Get/stale-or-wrong-value", "Get(%d) = %q, want %q", k, v, want)
		case !present && ok:
			c(name+".Get/absent-key-found", "Get(%d) = (%q,true) for a key that is not present (present %v)", k, v, model)
		}
	}
	var got []string
	t.Traverse(func(k int, v string) { got = append(got, fmt.Sprintf("%d=%s", k, v)) })
	ks := make([]int, 0, len(model))
	for k := range model {
		ks = append(ks, k)
	}
	sort.Ints(ks)
	var want []string
	for _, k := range ks {
		want = append(want, fmt.Sprintf("%d=%s", k, model[k]))
	}
	if fmt.Sprint(got) != fmt.Sprint(want) {
		c(name+".Traverse/differs-from-ordered-map", "Traverse visited %v, want %v", got, want)
	}
	// a traversal started from inside a traversal's callback (read-only re-entrancy)
	if len(want) > 0 && len(want) <= 6 {
		var outer, inner []string
		t.Traverse(func(k int, v string) {
			outer = append(outer, fmt.Sprintf("%d=%s", k, v))
			inner = inner[:0]
			t.Traverse(func(k2 int, v2 string) { inner = append(inner, fmt.Sprintf("%d=%s", k2, v2)) })
		})
		if fmt.Sprint(outer) != fmt.Sprint(want) || fmt.Sprint(inner) != fmt.Sprint(want) {
			c(name+".Traverse/nested-traversal-differs", "Traverse with a Traverse inside its callback visited %v (inner, last round: %v), want %v", outer, inner, want)
		}
	}
	n := ever
	if n < 1 {
		n = 1
	}
	if bound := bits.Len(uint(n)) - 1; t.Height() > bound {
		c(name+".Height/exceeds-log2", "Height = %d > floor(log2(max(1,%d))) = %d", t.Height(), ever, bound)
	}
}

func (s *btSys) Observe(c *seqmc.Ctx) {
	btreeObserve("BTree", s.t, s.model, len(s.ever), -1, s.keys, c.Fail)
}

func (s *btSys) Key() string {
	ks := make([]int, 0)
	for k := range s.ever {
		ks = append(ks, k)
	}
	sort.Ints(ks)
	return seqmc.DumpLimited(s.t, map[string]string{"children": "m"}) + "|" + fmt.Sprint(s.model, ks)
}

// btreeOrders: every insertion order of N distinct keys (all N! permutations),
// observer suite after every Put (i.e. on every prefix), so multi-level splits
// are covered whatever the order; plus sorted and reversed runs of 200 keys.
func btreeOrders(rep *core.Report) {
	N := 8
	if thorough {
		N = 9
	}
	perm := make([]int, N)
	for i := range perm {
		perm[i] = i
	}
	count, trans := 0, 0
	maxH := 0
	seenPrefix := map[string]bool{}
	check := func(order []int, full bool) {
		t := btree.New[int, string]()
		model := map[int]string{}
		for i, k := range order {
			t.Put(k, "a")
			model[k] = "a"
			trans++
			if full {
				pk := fmt.Sprint(order[:i+1])
				if seenPrefix[pk] {
					continue
				}
				seenPrefix[pk] = true
			}
			btreeObserve("BTree", t, model, len(model), -1, len(order), func(key, format string, a ...any) {
				rep.Add(key+"/insertion-orders", fmt.Sprintf(format, a...), fmt.Sprintf("Put in order %v", order[:i+1]), map[string]any{"engine": "btree-orders", "order": order[:i+1]})
			})
			if t.Height() > maxH {
				maxH = t.Height()
			}
		}
	}
	var rec func(i int)
	rec = func(i int) {
		if i == N {
			count++
			check(perm, true)
			if count%5000 == 1 {
				rep.Sample(fmt.Sprintf("BTree Put order %v", perm))
			}
			rep.Nontrivial(fmt.Sprint(perm))
			return
		}
		for j := i; j < N; j++ {
			perm[i], perm[j] = perm[j], perm[i]
			rec(i + 1)
			perm[i], perm[j] = perm[j], perm[i]
		}
	}
	rec(0)
	for _, rev := range []bool{false, true} {
		order := make([]int, 200)
		for i := range order {
			order[i] = i
			if rev {
				order[i] = 199 - i
			}
		}
		check(order, false)
	}
	// very long monotone runs (the worst case for the height): N keys ascending / descending, Height on
	// every prefix, lookups of a sample of keys and a full Traverse at the end
	bigN := 150000
	if thorough {
		bigN = 600000
	}
	for _, rev := range []bool{false, true} {
		t := btree.New[int, string]()
		failed := false
		func() {
			defer func() {
				if r := recover(); r != nil {
					rep.Add("BTree/long-monotone-run/panic", fmt.Sprintf("panic after a monotone run (descending=%t) of up to %d keys: %v", rev, bigN, r), fmt.Sprintf("Put of %d keys in monotone order (descending=%t)", bigN, rev), nil)
					failed = true
				}
			}()
			for i := 0; i < bigN; i++ {
				k := i
				if rev {
					k = bigN - 1 - i
				}
				t.Put(k, "a")
				trans++
				if bound := bits.Len(uint(i+1)) - 1; t.Height() > bound {
					rep.Add("BTree.Height/exceeds-log2/long-monotone-run", fmt.Sprintf("Height = %d > floor(log2(%d)) = %d (descending=%t)", t.Height(), i+1, bound, rev), fmt.Sprintf("Put of %d keys in monotone order (descending=%t)", i+1, rev), nil)
					failed = true
					return
				}
			}
			if t.Size() != bigN {
				rep.Add("BTree.Size/long-monotone-run", fmt.Sprintf("Size = %d after %d distinct keys", t.Size(), bigN), "long monotone run", nil)
			}
			for k := 0; k < bigN; k += 1 + bigN/997 {
				if v, ok := t.Get(k); !ok || v != "a" {
					rep.Add("BTree.Get/present-key-not-found/long-monotone-run", fmt.Sprintf("Get(%d) = (%q,%t) after a monotone run of %d keys", k, v, ok, bigN), "long monotone run", nil)
					break
				}
			}
			n, prev := 0, -1
			t.Traverse(func(k int, v string) {
				if k != prev+1 {
					failed = true
				}
				prev = k
				n++
			})
			if n != bigN || failed {
				rep.Add("BTree.Traverse/differs-from-ordered-map/long-monotone-run", fmt.Sprintf("Traverse visited %d keys (in order: %t) after a monotone run of %d keys", n, !failed, bigN), "long monotone run", nil)
			}
			t.Remove(bigN / 2)
			if _, ok := t.Get(bigN / 2); ok || t.Size() != bigN-1 {
				rep.Add("BTree.Remove/long-monotone-run", "Remove of a present key in a tall tree did not take effect", "long monotone run", nil)
			}
		}()
	}
	// many removals: n keys, then removed one by one in three orders down to nothing, Size and IsEmpty
	// checked after EVERY removal, a sample of lookups now and then, then everything put back (whatever
	// an implementation does when the removed outnumber the live: compaction, a rebuild)
	manyN := 2600
	if thorough {
		manyN = 12000
	}
	for _, order := range []string{"ascending", "descending", "every-other-then-rest"} {
		func() {
			wit := fmt.Sprintf("Put of %d keys, then Remove of all of them %s, then Put of all again", manyN, order)
			defer func() {
				if r := recover(); r != nil {
					rep.Add("BTree/many-removals/panic", fmt.Sprintf("panic: %v", r), wit, nil)
				}
			}()
			t := btree.New[int, string]()
			for k := 0; k < manyN; k++ {
				t.Put(k, "a")
			}
			var victims []int
			switch order {
			case "ascending":
				for k := 0; k < manyN; k++ {
					victims = append(victims, k)
				}
			case "descending":
				for k := manyN - 1; k >= 0; k-- {
					victims = append(victims, k)
				}
			default:
				for k := 0; k < manyN; k += 2 {
					victims = append(victims, k)
				}
				for k := 1; k < manyN; k += 2 {
					victims = append(victims, k)
				}
			}
			gone := map[int]bool{}
			for i, k := range victims {
				t.Remove(k)
				gone[k] = true
				if n := t.Size(); n != manyN-i-1 || t.IsEmpty() != (n == 0) {
					rep.Add("BTree.Size/many-removals", fmt.Sprintf("after %d of %d removals Size = %d, IsEmpty = %t, want %d", i+1, manyN, n, t.IsEmpty(), manyN-i-1), wit, nil)
					return
				}
				if i%257 == 0 {
					for _, probe := range []int{k, (k + 1) % manyN, manyN / 2} {
						if _, ok := t.Get(probe); ok == gone[probe] {
							rep.Add("BTree.Get/many-removals", fmt.Sprintf("after %d removals Get(%d) found=%t, removed=%t", i+1, probe, ok, gone[probe]), wit, nil)
							return
						}
					}
				}
			}
			for k := 0; k < manyN; k++ {
				t.Put(k, "b")
			}
			n, prev, bad := 0, -1, false
			t.Traverse(func(k int, v string) {
				bad = bad || k != prev+1 || v != "b"
				prev = k
				n++
			})
			if t.Size() != manyN || n != manyN || bad {
				rep.Add("BTree.Traverse/many-removals/after-reinsertion", fmt.Sprintf("after removing and re-inserting %d keys: Size = %d, Traverse visited %d (in order with the new values: %t)", manyN, t.Size(), n, !bad), wit, nil)
			}
			rep.Inc("transitions", 3*manyN)
		}()
	}
	rep.Set("long_monotone_run_keys", bigN)
	// Run-structured insertion orders: every order that consists of r monotone runs over disjoint key
	// intervals — every combination of run lengths 1..L, run directions (ascending/descending) and
	// relative position of the intervals. These reach the node-filling patterns (append-filled,
	// prepend-filled, filled from the middle) that decide how splits cascade, with far more keys than
	// all-permutations can afford. Height is checked on every prefix, the full suite at the end.
	type fam struct{ r, L int }
	fams := []fam{{2, 48}, {3, 12}}
	if thorough {
		fams = []fam{{2, 100}, {3, 22}, {4, 8}}
	}
	runOrders := 0
	for _, f := range fams {
		lens := make([]int, f.r)
		var perms [][]int
		var pr func(cur []int, used int)
		pr = func(cur []int, used int) {
			if len(cur) == f.r {
				perms = append(perms, append([]int{}, cur...))
				return
			}
			for i := 0; i < f.r; i++ {
				if used&(1<<i) == 0 {
					pr(append(cur, i), used|1<<i)
				}
			}
		}
		pr(nil, 0)
		var recL func(i int)
		recL = func(i int) {
			if i < f.r {
				for l := 1; l <= f.L; l++ {
					lens[i] = l
					recL(i + 1)
				}
				return
			}
			for _, pm := range perms { // pm[j] = rank of run j's key interval
				// interval start of run j = sum of lengths of the runs whose interval ranks lower
				for dirs := 0; dirs < 1<<f.r; dirs++ {
					var order []int
					for j := 0; j < f.r; j++ {
						base := 0
						for k := 0; k < f.r; k++ {
							if pm[k] < pm[j] {
								base += lens[k]
							}
						}
						for x := 0; x < lens[j]; x++ {
							if dirs&(1<<j) == 0 {
								order = append(order, base+x)
							} else {
								order = append(order, base+lens[j]-1-x)
							}
						}
					}
					runOrders++
					t := btree.New[int, string]()
					model := map[int]string{}
					for i, k := range order {
						t.Put(k, "a")
						model[k] = "a"
						trans++
						if bound := bits.Len(uint(i+1)) - 1; t.Height() > bound {
							rep.Add("BTree.Height/exceeds-log2/run-structured-orders", fmt.Sprintf("Height = %d > floor(log2(%d)) = %d after inserting %v", t.Height(), i+1, bound, order[:i+1]), fmt.Sprintf("Put in order %v", order[:i+1]), map[string]any{"engine": "btree-orders", "order": order[:i+1]})
							break
						}
						if t.Height() > maxH {
							maxH = t.Height()
						}
					}
					btreeObserve("BTree", t, model, len(model), -1, len(order), func(key, format string, a ...any) {
						rep.Add(key+"/run-structured-orders", fmt.Sprintf(format, a...), fmt.Sprintf("Put in order %v", order), map[string]any{"engine": "btree-orders", "order": order})
					})
					if runOrders%20000 == 1 {
						rep.Sample(fmt.Sprintf("BTree Put order (%d runs) %v", f.r, order))
					}
				}
			}
		}
		recL(0)
	}
	rep.Set("run_structured_insertion_orders", runOrders)
	rep.Inc("transitions", trans)
	rep.Inc("traces_validated_against_impl", trans)
	rep.Set("insertion_orders", count)
	rep.Set("max_height_seen", maxH)
}

func init() {
	extraReplay["C10"] = func(key string, raw json.RawMessage) int {
		var r struct {
			Engine string `json:"engine"`
			Order  []int  `json:"order"`
		}
		if json.Unmarshal(raw, &r) != nil || r.Engine != "btree-orders" {
			return 2
		}
		t := btree.New[int, string]()
		model := map[int]string{}
		hit := false
		fmt.Printf("replay BTree Put in order %v\n", r.Order)
		for i, k := range r.Order {
			t.Put(k, "a")
			model[k] = "a"
			if bound := bits.Len(uint(i+1)) - 1; t.Height() > bound {
				fmt.Printf("  FAIL BTree.Height/exceeds-log2: Height = %d > floor(log2(%d)) = %d after %d insertions\n", t.Height(), i+1, bound, i+1)
				hit = hit || strings.HasPrefix(key, "BTree.Height/exceeds-log2")
			}
		}
		btreeObserve("BTree", t, model, len(model), -1, len(r.Order), func(k, format string, a ...any) {
			fmt.Printf("  FAIL %s: %s\n", k, fmt.Sprintf(format, a...))
			hit = hit || strings.HasPrefix(key, k)
		})
		if hit {
			return 1
		}
		fmt.Println("  not reproduced")
		return 0
	}
}
