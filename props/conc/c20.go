//go:build verif

package main

import (
	"fmt"
	"os"
	"reflect"
	"strings"
	"time"
	"unsafe"

	"github.com/esimov/gogu"
	"github.com/esimov/gogu/vrtshim/vrt"
	sync "github.com/esimov/gogu/vrtshim/vsync"
	"verif/core"
	"verif/seqmc"
)

// C20 — Delay, debounce, throttle on the virtual clock. wait = 5 units; the
// clock moves in steps of 2, so an operation never coincides with a deadline.

const unit = time.Millisecond
const waitW = 5 * unit

func init() {
	registry["C20"] = func(rep *core.Report) {
		shards := []string{"delay", "debounce1", "debounce2", "throttle-script:false", "throttle-script:true", "throttle-conc:false", "throttle-conc:true", "throttle-graph:false", "throttle-graph:true", "debounce-graph"}
		rep.Set("engine", "vrt+explore with virtual time: timers fire only when the explorer moves the clock (Advance is a scheduled operation; discrete-event jump when nothing is enabled), so every placement of calls relative to deadlines is an interleaving and all assertions are exact integer inequalities")
		if !runWorkers(rep, "C20worker", shards, nil) {
			fmt.Fprintln(os.Stderr, "C20: worker failure")
			os.Exit(2)
		}
	}
	subcommands["C20worker"] = c20worker
}

func now() int64 { return vrt.NowNanos() / int64(unit) }

type c20ctx struct {
	check    string // property id; the worker subcommand is check+"worker"
	out      *workerOut
	st       *wStats
	deadline time.Time
	budget   int
	states   map[string]struct{}
}

// replayReq is set by `conc replay <file>`: only the named scenario runs, once, under the recorded choices.
var replayReq *struct {
	Scenario string
	Choices  []int
	Key      string
	Hit      bool
	Seen     bool
}

// explore runs one scenario; check returns "" or (key, detail).
func (c *c20ctx) explore(name string, onlyBound int, body func(), check func(x *vrt.Exec) (string, string), witness func() any) {
	judge := func(x *vrt.Exec) (string, string) {
		for i := 0; i < x.NumThreads(); i++ {
			if pm := x.ThreadAt(i).Panic; pm != "" {
				return name + "/panic", "thread " + x.ThreadAt(i).Name + " panicked: " + pm
			}
		}
		if x.Deadlock {
			return name + "/deadlock", "no thread enabled: " + x.DeadlockInfo
		}
		if x.HorizonHit {
			return name + "/livelock-horizon", "step horizon exceeded"
		}
		return check(x)
	}
	if r := replayReq; r != nil {
		if r.Scenario != name {
			return
		}
		r.Seen = true
		x := vrt.Run(r.Choices, 50000, !thorough, body)
		key, detail := judge(x)
		fmt.Printf("replay %s\n  schedule (thread ids): %v\n  observations: %v\n", name, x.Schedule(), witness())
		if x.Diverged != "" {
			fmt.Printf("  DIVERGED: %s\n", x.Diverged)
		}
		if key != "" {
			fmt.Printf("  FAIL %s: %s\n", key, detail)
		}
		r.Hit = key == r.Key
		return
	}
	if only := os.Getenv("VERIF_ONLY_SCENARIO"); only != "" && !strings.Contains(name, only) {
		return // debugging aid: restrict a worker to the scenarios whose name contains the given text
	}
	c.st.Scenarios++
	reported := map[string]bool{}
	outcomes := map[string]bool{}
	e := &vrt.Explorer{Horizon: 50000, Quick: !thorough, Budget: c.budget, Deadline: c.deadline, MaxBound: 3, OnlyBound: onlyBound}
	stop := false
	e.StopEarly = func() bool { return stop }
	e.Check = func(x *vrt.Exec) {
		key, detail := judge(x)
		w := witness()
		o := fmt.Sprint(w)
		if os.Getenv("VERIF_ONLY_SCENARIO") != "" && !outcomes[o] {
			fmt.Fprintln(os.Stderr, "outcome:", o)
		}
		outcomes[o] = true
		if len(c.states) < 500000 {
			c.states[name+o] = struct{}{}
		}
		if key != "" && !reported[key] {
			reported[key] = true
			stop = true
			choices := append([]int{}, e.LastChoices...)
			sched := append([]int16{}, x.Schedule()...)
			// a violation is believed only if the same choice sequence fails the same way five more times
			for i := 0; i < 5; i++ {
				x2 := vrt.Run(choices, 50000, !thorough, body)
				k2, _ := judge(x2)
				if k2 != key || fmt.Sprint(witness()) != o || x2.Diverged != "" {
					c.st.Diverged = fmt.Sprintf("%s: violation %q not reproduced identically on re-execution %d (got %q %s)", name, key, i+1, k2, x2.Diverged)
					return
				}
			}
			c.st.Extra["violations_reexecuted_5x_identically"]++
			c.out.finding(wFinding{key, detail, map[string]any{"scenario": name, "observations": w, "schedule_thread_ids": sched},
				map[string]any{"engine": "conc", "check": c.check, "sub": c.check + "worker", "shard": c.st.Shard, "scenario": name, "choices": choices}})
		}
	}
	e.Explore(body)
	c.st.Execs += e.Execs
	c.st.Steps += e.Steps
	c.st.Outcomes += len(outcomes)
	if e.Diverged != "" {
		c.st.Diverged = name + ": " + e.Diverged
	}
	if !e.Complete && !stop {
		c.st.Incomplete++
		if c.st.MinBound < 0 || e.BoundDone < c.st.MinBound {
			c.st.MinBound = e.BoundDone
		}
	}
	if len(c.st.Samples) < 3 {
		c.st.Samples = append(c.st.Samples, fmt.Sprintf("%s: %d schedules, %d distinct observation logs, complete=%t bound=%d", name, e.Execs, len(outcomes), e.Complete, e.BoundDone))
	}
}

func c20worker(arg string) {
	c := &c20ctx{check: "C20", out: newWorkerOut(), st: &wStats{Shard: arg, MinBound: -1, Extra: map[string]int{}}, states: map[string]struct{}{}}
	c.deadline = time.Now().Add(3 * time.Minute)
	c.budget = 60000
	if thorough {
		c.deadline = time.Now().Add(20 * time.Minute)
		c.budget = 1500000
	}
	switch {
	case arg == "delay":
		c20delay(c)
	case arg == "debounce1":
		c20debounce(c, 1)
	case arg == "debounce2":
		c20debounce(c, 2)
	case strings.HasPrefix(arg, "throttle-script:"):
		c20throttleScript(c, strings.HasSuffix(arg, "true"))
	case strings.HasPrefix(arg, "throttle-conc:"):
		c20throttleConc(c, strings.HasSuffix(arg, "true"))
	case strings.HasPrefix(arg, "throttle-graph:"):
		c20throttleGraph(c, strings.HasSuffix(arg, "true"))
	case arg == "debounce-graph":
		c20debounceGraph(c)
	}
	c.st.States = len(c.states)
	c.out.stats(*c.st)
}

// ---------------------------------------------------------------- Delay

func c20delay(c *c20ctx) {
	for _, stopAfter := range []int{-1, 0, 1, 2, 3} { // -1: never stop; k: Stop after k clock steps of the main thread's own waiting
		var t0, ran, stopAt int64
		var runs int
		var stopRes, stopped bool
		name := fmt.Sprintf("Delay(stop-after=%d)", stopAfter)
		c.explore(name, 0, func() {
			t0, ran, runs, stopRes, stopped, stopAt = 0, -1, 0, false, false, -1
			var wg sync.WaitGroup
			wg.Add(1)
			vrt.GoNamed("clock", false, func() {
				defer wg.Done()
				for i := 0; i < 4; i++ {
					vrt.Advance(2 * unit)
				}
			})
			t0 = now()
			tm := gogu.Delay(waitW, func() { ran = now(); runs++ })
			if stopAfter >= 0 {
				for i := 0; i < stopAfter; i++ {
					vrt.Sched("main waits")
				}
				stopped = true
				stopRes = tm.Stop()
				stopAt = now()
			}
			wg.Wait()
			vrt.Advance(waitW + unit)
			vrt.WaitOthers()
		}, func(x *vrt.Exec) (string, string) {
			switch {
			case runs > 1:
				return "Delay/runs-more-than-once", fmt.Sprintf("callback ran %d times", runs)
			case runs == 1 && ran < t0+5:
				return "Delay/fires-early", fmt.Sprintf("scheduled at %d with wait 5, ran at %d", t0, ran)
			case stopped && stopRes && runs > 0:
				return "Delay/runs-after-successful-Stop", fmt.Sprintf("Stop returned true at %d but the callback ran at %d", stopAt, ran)
			case (!stopped || !stopRes) && runs == 0:
				return "Delay/never-runs", fmt.Sprintf("scheduled at %d, never stopped successfully, clock went past %d, callback did not run", t0, t0+5)
			}
			return "", ""
		}, func() any {
			return fmt.Sprintf("t0=%d ran=%d runs=%d stop=%t/%t@%d", t0, ran, runs, stopped, stopRes, stopAt)
		})
	}
}

// ---------------------------------------------------------------- Debounce

type dbEvent struct {
	kind       string // "call" or "cancel"
	id         int
	inv, ret   int   // logical stamps (real-time order)
	start, end int64 // virtual time before/after
	ran        int64 // callbacks: time it ran (-1 never)
	runs       int
}

func c20debounce(c *c20ctx, callers int) {
	maxBurst := 3
	if thorough {
		maxBurst = 5
		if callers == 2 {
			maxBurst = 3
		}
	}
	// scripts: per caller a sequence over {c: call, x: cancel, s: let the clock run a step}
	var scripts []string
	var gen func(cur string, calls int)
	gen = func(cur string, calls int) {
		if calls >= 1 {
			scripts = append(scripts, cur)
		}
		if len(cur) >= maxBurst+2 {
			return
		}
		if calls < maxBurst {
			gen(cur+"c", calls+1)
		}
		if !strings.HasSuffix(cur, "x") && calls >= 1 && strings.Count(cur, "x") < 1 {
			gen(cur+"x", calls)
		}
		if strings.Count(cur, "s") < 2 && len(cur) > 0 {
			gen(cur+"s", calls)
		}
	}
	gen("", 0)
	var progs [][]string
	if callers == 1 {
		for _, s := range scripts {
			progs = append(progs, []string{s})
		}
	} else {
		short := []string{"c", "cc", "cx", "csc"}
		for i, a := range short {
			for _, b := range short[i:] {
				progs = append(progs, []string{a, b})
			}
		}
	}
	for _, prog := range progs {
		var evs []*dbEvent
		name := "Debounce(" + strings.Join(prog, " ‖ ") + ")"
		bound := 0
		if callers == 2 {
			bound = 0 // unbounded first; falls back to iterative bounding under the budget
		}
		c.explore(name, bound, func() {
			evs = evs[:0]
			call, cancel := gogu.NewDebounce(waitW)
			var wg sync.WaitGroup
			wg.Add(len(prog) + 1)
			vrt.GoNamed("clock", false, func() {
				defer wg.Done()
				for i := 0; i < 5; i++ {
					vrt.Advance(2 * unit)
				}
			})
			// events are appended by the thread that performs them; one runs at a time
			perThread := make([][]*dbEvent, len(prog))
			for ti, script := range prog {
				ti, script := ti, script
				vrt.GoNamed(fmt.Sprintf("caller%d", ti), false, func() {
					defer wg.Done()
					for i, ch := range script {
						switch ch {
						case 'c':
							ev := &dbEvent{kind: "call", id: ti*10 + i, ran: -1}
							perThread[ti] = append(perThread[ti], ev)
							ev.inv, ev.start = vrt.Stamp(), now()
							call(func() { ev.ran = now(); ev.runs++ })
							ev.end, ev.ret = now(), vrt.Stamp()
						case 'x':
							ev := &dbEvent{kind: "cancel", id: ti*10 + i, ran: -1}
							perThread[ti] = append(perThread[ti], ev)
							ev.inv, ev.start = vrt.Stamp(), now()
							cancel()
							ev.end, ev.ret = now(), vrt.Stamp()
						case 's':
							vrt.Sched("caller pauses")
							vrt.Sched("caller pauses")
						}
					}
				})
			}
			wg.Wait()
			vrt.Advance(waitW + unit)
			vrt.WaitOthers()
			for _, l := range perThread {
				evs = append(evs, l...)
			}
		}, func(x *vrt.Exec) (string, string) {
			var calls []*dbEvent
			for _, e := range evs {
				if e.kind == "call" {
					calls = append(calls, e)
				}
			}
			for _, e := range calls {
				if e.runs > 1 {
					return "Debounce/callback-runs-more-than-once", fmt.Sprintf("callback of call %d ran %d times", e.id, e.runs)
				}
				if e.runs == 1 && e.ran < e.start+5 {
					return "Debounce/fires-early", fmt.Sprintf("call %d made at %d (wait 5) ran at %d", e.id, e.start, e.ran)
				}
				if e.runs == 1 {
					for _, l := range evs {
						// a later call or cancel that completed strictly before the earliest possible deadline
						if l != e && l.inv > e.ret && l.end < e.start+5 {
							cls := "superseded-by-a-later-call"
							if l.kind == "cancel" {
								cls = "after-cancel"
							}
							return "Debounce/runs-although-" + cls, fmt.Sprintf("callback of call %d (made at %d..%d) ran at %d although %s %d completed at %d, before its deadline", e.id, e.start, e.end, e.ran, l.kind, l.id, l.end)
						}
					}
				}
			}
			// liveness: a call that nothing follows (in real-time order) belongs to the last burst; one of those must have run
			var maximal []*dbEvent
			for _, e := range calls {
				followed := false
				for _, l := range evs {
					if l != e && l.inv > e.ret {
						followed = true
					}
				}
				if !followed {
					maximal = append(maximal, e)
				}
			}
			if len(maximal) > 0 {
				ran := false
				for _, e := range maximal {
					ran = ran || e.runs > 0
				}
				// with overlapping (concurrent) final operations a concurrent cancel may legitimately win
				concurrentCancel := false
				for _, l := range evs {
					if l.kind == "cancel" {
						for _, e := range maximal {
							if !(l.ret < e.inv) { // the cancel did not finish before the call started
								concurrentCancel = true
							}
						}
					}
				}
				if !ran && !concurrentCancel {
					return "Debounce/last-call-never-runs", fmt.Sprintf("no later call or cancel followed call(s) %v, the clock went past the deadline, yet no callback ran", ids(maximal))
				}
			}
			return "", ""
		}, func() any {
			var s []string
			for _, e := range evs {
				s = append(s, fmt.Sprintf("%s%d@%d..%d ran=%d", e.kind, e.id, e.start, e.end, e.ran))
			}
			return strings.Join(s, " ")
		})
	}
}

func ids(es []*dbEvent) []int {
	var out []int
	for _, e := range es {
		out = append(out, e.id)
	}
	return out
}

// ---------------------------------------------------------------- Throttle

type nextRec struct {
	inv, ret   int
	start, end int64
	ok         bool
	last       int64 // the throttler's own permission stamp read right after Next returned (single consumer only), -1 unknown
}

// lastOf reads the private time stamp of the throttler (no scheduling point involved).
func lastOf(t any) int64 {
	v := reflect.ValueOf(t).Elem().FieldByName("last")
	tm := reflect.NewAt(v.Type(), unsafe.Pointer(v.UnsafeAddr())).Elem().Interface().(time.Time)
	if tm.IsZero() {
		return -1
	}
	return int64(tm.Sub(vrt.Epoch) / unit)
}

func checkThrottle(trailing bool, nexts []*nextRec, cancelRet int, exact bool) (string, string) {
	var perms []*nextRec
	for _, n := range nexts {
		if n.ok {
			perms = append(perms, n)
		}
		if n.ok && cancelRet > 0 && n.inv > cancelRet {
			return "Throttle/Next-true-after-Cancel", fmt.Sprintf("a Next invoked after Cancel had returned got true (at %d)", n.end)
		}
	}
	for i := 0; i < len(perms); i++ {
		for j := 0; j < len(perms); j++ {
			a, b := perms[i], perms[j]
			if a == b || !(a.ret < b.ret) {
				continue
			}
			// a's permission was stamped in [a.start,a.end], b's in [b.start,b.end]
			if exact && a.last >= 0 && b.last >= 0 {
				if b.last-a.last < 5 {
					return "Throttle/two-permissions-within-one-period/" + tr(trailing), fmt.Sprintf("permissions stamped at %d and %d with period 5", a.last, b.last)
				}
			} else if b.end-a.start < 5 {
				return "Throttle/two-permissions-within-one-period/" + tr(trailing), fmt.Sprintf("Next returned true during [%d,%d] and again during [%d,%d]: less than the period 5 apart whatever the exact instants", a.start, a.end, b.start, b.end)
			}
		}
	}
	return "", ""
}

func tr(t bool) string {
	if t {
		return "trailing=true"
	}
	return "trailing=false"
}

// script family: one thread performs a sequence over {C: Call, a: Advance(2), A: Advance(6), X: Cancel};
// one consumer thread calls Next up to 3 times; every interleaving of the two (and of timer callbacks).
func c20throttleScript(c *c20ctx, trailing bool) {
	L := 4
	if thorough {
		L = 6
	}
	var scripts []string
	var gen func(cur string)
	gen = func(cur string) {
		if strings.Count(cur, "C") >= 1 {
			scripts = append(scripts, cur)
		}
		if len(cur) == L {
			return
		}
		for _, ch := range "CaA" {
			gen(cur + string(ch))
		}
	}
	gen("")
	for _, sc := range scripts {
		var nexts []*nextRec
		cancelRet := 0
		calls := strings.Count(sc, "C")
		name := fmt.Sprintf("Throttle[%s](script %sX ‖ Next x3)", tr(trailing), sc)
		c.explore(name, 0, func() {
			nexts = nexts[:0]
			cancelRet = 0
			th := gogu.NewThrottle(waitW, trailing)
			var wg sync.WaitGroup
			wg.Add(1)
			vrt.GoNamed("consumer", false, func() {
				defer wg.Done()
				for i := 0; i < 3; i++ {
					n := &nextRec{last: -1}
					nexts = append(nexts, n)
					n.inv, n.start = vrt.Stamp(), now()
					n.ok = th.Next()
					n.last = lastOf(th)
					n.end, n.ret = now(), vrt.Stamp()
					if !n.ok {
						return
					}
				}
			})
			for _, ch := range sc {
				switch ch {
				case 'C':
					th.Call()
				case 'a':
					vrt.Advance(2 * unit)
				case 'A':
					vrt.Advance(6 * unit)
				}
			}
			vrt.Advance(6 * unit) // let a trailing broadcast land
			vrt.Sched("before cancel")
			th.Cancel()
			cancelRet = vrt.Stamp()
			wg.Wait()
			vrt.WaitOthers()
		}, func(x *vrt.Exec) (string, string) {
			if k, d := checkThrottle(trailing, nexts, cancelRet, true); k != "" {
				return k, d
			}
			perms := 0
			for _, n := range nexts {
				if n.ok {
					perms++
				}
			}
			if perms > calls {
				return "Throttle/more-permissions-than-triggers", fmt.Sprintf("%d permissions for %d Call(s)", perms, calls)
			}
			return "", ""
		}, func() any {
			var s []string
			for _, n := range nexts {
				s = append(s, fmt.Sprintf("Next[%d..%d]=%t last=%d", n.start, n.end, n.ok, n.last))
			}
			return strings.Join(s, " ")
		})
	}
}

// concurrent family: caller(Call x c) ‖ consumer(Next x n) ‖ consumer2(Next x 1) ‖ clock ‖ canceller, preemption-bounded.
func c20throttleConc(c *c20ctx, trailing bool) {
	bound := 2
	if thorough {
		bound = 3
	}
	for _, cfg := range [][3]int{{1, 1, 0}, {2, 2, 0}, {2, 1, 1}, {3, 2, 1}} {
		nc, nn, n2 := cfg[0], cfg[1], cfg[2]
		var nexts []*nextRec
		cancelRet := 0
		name := fmt.Sprintf("Throttle[%s](Call x%d ‖ Next x%d ‖ Next x%d ‖ clock ‖ Cancel)", tr(trailing), nc, nn, n2)
		c.explore(name, bound, func() {
			nexts = nexts[:0]
			cancelRet = 0
			th := gogu.NewThrottle(waitW, trailing)
			var wg sync.WaitGroup
			consumer := func(k int) func() {
				return func() {
					defer wg.Done()
					for i := 0; i < k; i++ {
						n := &nextRec{last: -1}
						nexts = append(nexts, n)
						n.inv, n.start = vrt.Stamp(), now()
						n.ok = th.Next()
						n.end, n.ret = now(), vrt.Stamp()
						if !n.ok {
							return
						}
					}
				}
			}
			wg.Add(3)
			vrt.GoNamed("caller", false, func() {
				defer wg.Done()
				for i := 0; i < nc; i++ {
					th.Call()
				}
			})
			vrt.GoNamed("consumer", false, consumer(nn))
			if n2 > 0 {
				wg.Add(1)
				vrt.GoNamed("consumer2", false, consumer(n2))
			}
			vrt.GoNamed("clock", false, func() {
				defer wg.Done()
				for i := 0; i < 4; i++ {
					vrt.Advance(2 * unit)
				}
			})
			// canceller = main, last
			vrt.Sched("canceller waits")
			vrt.Sched("canceller waits")
			th.Cancel()
			cancelRet = vrt.Stamp()
			wg.Wait()
			vrt.WaitOthers()
		}, func(x *vrt.Exec) (string, string) {
			return checkThrottle(trailing, nexts, cancelRet, false)
		}, func() any {
			var s []string
			for _, n := range nexts {
				s = append(s, fmt.Sprintf("Next[%d..%d]=%t", n.start, n.end, n.ok))
			}
			return strings.Join(s, " ")
		})
	}
}

// crossCheckOrders repeats a finished stateful exploration depth first and compares the visited sets: a
// sound state key gives the same set in every order. A difference means that something which decides the
// future is missing from the key (a value held in a local across a scheduling point): machinery defect.
func crossCheckOrders(st *wStats, name string, e *vrt.Explorer, body func(), depthFirst bool) {
	if !e.Complete {
		return
	}
	e2 := &vrt.Explorer{Horizon: e.Horizon, Quick: e.Quick, Budget: e.Budget, Deadline: e.Deadline, Stateful: true, DepthFirst: depthFirst, Reversed: !depthFirst, Check: func(*vrt.Exec) {}}
	e2.Explore(body)
	st.Execs += e2.Execs
	st.Steps += e2.Steps
	switch {
	case !e2.Complete:
		st.Extra["stateful_order_crosscheck_not_completed"]++
	case e2.States != e.States || e2.StateHash != e.StateHash:
		// the key misses something this code keeps in a local across a scheduling point: the explored
		// executions and their verdicts stand, the claim "every reachable state was visited" does not
		st.Extra["stateful_order_crosscheck_disagrees"]++
		st.Incomplete++
		st.Samples = append(st.Samples, fmt.Sprintf("%s: NOT a fixpoint -- the visited state set depends on the exploration order (breadth first %d states, second order %d): the state key is not closed for this code", name, e.States, e2.States))
	default:
		st.Extra["stateful_order_crosschecks_agree"]++
	}
}

// ---------------------------------------------------------------- throttle: the reachable state graph

// c20throttleGraph explores the throttle as a protocol instead of through bounded scripts: a driver
// thread picks its next operation (Call, Advance 2, Cancel) by an explorer choice in an endless loop, a
// consumer calls Next in an endless loop, and the explorer keeps a set of visited global states (the
// throttler's private fields with times relative to now, pending timers, every thread's continuation,
// the monitor) and cuts an execution when it reaches a visited one. The search ends when no new state
// is reachable: arrangements of ANY length are covered, for both trailing modes.
func c20throttleGraph(c *c20ctx, trailing bool) {
	name := fmt.Sprintf("throttle state graph (trailing=%t): driver{Call | Advance 2 | Cancel}* with a consumer calling Next", trailing)
	c.st.Scenarios++
	type monitor struct {
		lastPerm   int64 // time of the last permission (-1000: none)
		obligation bool  // a trigger has been sent and no permission was handed out since
		inCall     bool  // the driver is inside Call
		inNext     bool  // the consumer is inside Next (time passes only while it is parked there, or outside)
		cancelled  bool
		viol, det  string
		trace      []string
	}
	var m *monitor
	var lastChoices []int
	reported := map[string]bool{}
	e := &vrt.Explorer{Horizon: 4000, Quick: !thorough, Budget: c.budget * 20, Deadline: c.deadline, Stateful: true}
	stop := false
	e.StopEarly = func() bool { return stop }
	body := func() {
		m = &monitor{lastPerm: -1000}
		mm := m
		th := gogu.NewThrottle(waitW, trailing)
		rel := func(t int64) int64 { // time since t, capped just above the period
			d := now() - t
			if d > 6 {
				d = 6
			}
			return d
		}
		vrt.SetKeyFn(func() string {
			lr := int64(6)
			if lv := seqmc.Get(th, "last"); lv.IsValid() {
				if last, ok := lv.Interface().(time.Time); ok && !last.IsZero() {
					lr = rel(last.Sub(vrt.Epoch).Nanoseconds() / int64(unit))
				}
			}
			flags := ""
			tv := reflect.ValueOf(th).Elem() // every boolean and small integer field of the private struct, whatever it is called
			for i := 0; i < tv.NumField(); i++ {
				switch f := tv.Field(i); f.Kind() {
				case reflect.Bool:
					flags += fmt.Sprintf("%s=%t ", tv.Type().Field(i).Name, f.Bool())
				case reflect.Int, reflect.Int32, reflect.Int64, reflect.Uint32, reflect.Uint64:
					if tv.Type().Field(i).Name != "duration" {
						flags += fmt.Sprintf("%s=%v ", tv.Type().Field(i).Name, seqmc.Get(th, tv.Type().Field(i).Name))
					}
				case reflect.Struct:
					if tv.Type().Field(i).Type.String() == "atomic.Bool" || strings.HasSuffix(tv.Type().Field(i).Type.String(), "atomic.Bool") {
						flags += fmt.Sprintf("%s=%s ", tv.Type().Field(i).Name, seqmc.DumpValue(f))
					}
				}
			}
			return fmt.Sprintf("%slast-%d|perm-%d ob=%t c=%t", flags, lr, rel(mm.lastPerm), mm.obligation, mm.cancelled)
		})
		consumer := vrt.ThreadCount()
		var done sync.WaitGroup
		done.Add(1)
		vrt.GoNamed("consumer", false, func() {
			defer done.Done()
			for {
				vrt.Sched("consumer between two calls of Next") // it may be slow to come back: time passes here
				mm.inNext = true
				ok := th.Next()
				t := now()
				mm.inNext = false
				if !ok {
					return
				}
				switch {
				case mm.cancelled:
					mm.viol, mm.det = "Throttle/graph/Next-true-after-Cancel", fmt.Sprintf("Next returned true at time %d although Cancel had returned", t)
				case t-mm.lastPerm < 5:
					mm.viol, mm.det = "Throttle/graph/two-permissions-within-one-period", fmt.Sprintf("permissions at %d and %d with a period of 5", mm.lastPerm, t)
				}
				if !mm.obligation && mm.viol == "" {
					// every permission answers a trigger: with the trailing edge any Call since the last
					// permission, without it a Call that came more than a period after the last permission
					mm.viol, mm.det = "Throttle/graph/permission-without-a-trigger", fmt.Sprintf("Next returned true at time %d although no trigger that is owed a permission has arrived since the last one at %d (trailing=%t)", t, mm.lastPerm, trailing)
				}
				// a Call that is under way right now was invoked before this permission but takes effect after
				// it: with the trailing edge it is a trigger of the new period
				mm.lastPerm, mm.obligation = t, mm.inCall && trailing
				mm.trace = append(mm.trace, fmt.Sprintf("Next=true@%d", t))
			}
		})
		for mm.viol == "" {
			// quiescent and a kept trigger can never turn into a permission?
			if !trailing && mm.obligation && vrt.PendingTimers() == 0 && vrt.LiveThreads() == 2 && vrt.ThreadParked(consumer) {
				mm.viol, mm.det = "Throttle/graph/leading-trigger-lost", fmt.Sprintf("at time %d a trigger that arrived more than a period after the last permission (at %d) is outstanding and the consumer is parked in Next: it waits for ever although a permission is due", now(), mm.lastPerm)
				break
			}
			if trailing && mm.obligation && vrt.PendingTimers() == 0 && vrt.LiveThreads() == 2 && vrt.ThreadParked(consumer) {
				mm.viol, mm.det = "Throttle/graph/trailing-trigger-lost", fmt.Sprintf("at time %d a trigger is outstanding (last permission at %d), no timer is armed and the consumer is parked in Next: the trigger can never become a permission", now(), mm.lastPerm)
				break
			}
			// The monitor reads the instant of a permission when Next has returned. So that this IS the
			// instant at which the throttle handed it out, no time passes while the consumer is running
			// inside Next (between being woken and returning): otherwise a consumer that was handed a
			// permission at 0 and scheduled again at 2 would be recorded at 2, and a legitimate permission at
			// 6 would look too early (seen in the thorough tier, which keeps the scheduling points before
			// releases). Between two calls of Next the consumer may be as slow as it likes.
			k := vrt.Choose(3)
			switch k {
			case 0:
				mm.trace = append(mm.trace, fmt.Sprintf("Call@%d", now()))
				if trailing || now()-mm.lastPerm > 5 {
					// set at the invocation: a permission that is handed out while the Call is still
					// running (its own broadcast) already answers it. Without the trailing edge only a
					// trigger that arrives more than a period after the last permission is owed one.
					mm.obligation = true
				}
				mm.inCall = true
				th.Call()
				mm.inCall = false
			case 1:
				// (the condition is evaluated in the same step as the clock movement, after the scheduling point)
				vrt.AdvanceIf(2*unit, func() bool { return !mm.inNext || vrt.ThreadParked(consumer) })
			case 2:
				th.Cancel()
				mm.cancelled = true
				done.Wait() // every pending and future Next returns false promptly: the consumer ends without any clock movement
				return
			}
		}
		if mm.viol != "" { // let the execution end: cancel so that the consumer leaves
			th.Cancel()
			mm.cancelled = true
		}
	}
	e.Check = func(x *vrt.Exec) {
		key, detail := "", ""
		for i := 0; i < x.NumThreads(); i++ {
			if pm := x.ThreadAt(i).Panic; pm != "" {
				key, detail = "Throttle/graph/panic", pm
			}
		}
		if key == "" && m != nil && m.viol != "" {
			key, detail = m.viol, m.det
		}
		if key == "" && x.Deadlock {
			key, detail = "Throttle/graph/deadlock", "no thread enabled: "+x.DeadlockInfo
		}
		if key == "" && x.HorizonHit {
			key, detail = "Throttle/graph/horizon", "an execution ran 4000 steps without reaching a visited state: the state rendering is not finite"
		}
		if key != "" && !reported[key] {
			reported[key] = true
			stop = true
			lastChoices = append([]int{}, e.LastChoices...)
			c.out.finding(wFinding{key + fmt.Sprintf("/trailing=%t", trailing), detail, map[string]any{"scenario": name, "trace": m.trace, "schedule_thread_ids": append([]int16{}, x.Schedule()...), "choices": lastChoices},
				map[string]any{"engine": "conc", "check": "C20", "sub": "C20worker", "shard": c.st.Shard, "scenario": name, "choices": lastChoices}})
		}
	}
	if r := replayReq; r != nil {
		if r.Scenario != name {
			return
		}
		r.Seen = true
		x := vrt.Run(r.Choices, 4000, !thorough, body)
		e.LastChoices = r.Choices
		e.Check(x)
		return
	}
	e.Explore(body)
	if !stop {
		crossCheckOrders(c.st, name, e, body, true)
	}
	c.st.Execs += e.Execs
	c.st.Steps += e.Steps
	c.st.Extra["throttle_graph_states"] += e.States
	c.st.Extra["throttle_graph_cut_executions"] += e.Cuts
	if !e.Complete && !stop {
		c.st.Incomplete++
	}
	c.st.Samples = append(c.st.Samples, fmt.Sprintf("%s: %d global states, %d executions (%d cut at a visited state), fixpoint=%t", name, e.States, e.Execs, e.Cuts, e.Complete))
}

// ---------------------------------------------------------------- debounce: the reachable state graph

// c20debounceGraph: as c20throttleGraph, for the debouncer. Driver {call(f_i) | cancel | Advance 2}* with
// at most two calls without an Advance in between; every call passes its own closure. Monitor per
// call: when it was made, whether a later call or cancel completed strictly before its deadline (then it
// must never run), whether it ran. Invariants: no callback runs before its own deadline, none that was
// superseded or cancelled in time runs at all, none runs twice, and the most recent call -- if neither a
// call nor a cancel followed -- is never left with no timer armed and no callback in flight (it does run).
func c20debounceGraph(c *c20ctx) {
	name := "debounce state graph: driver{call | cancel | Advance 2}*"
	c.st.Scenarios++
	type callRec struct {
		at         int64
		mustNotRun bool
		runs       int
	}
	type monitor struct {
		calls        []*callRec // calls whose callback may still run (pruned when settled)
		last         *callRec   // most recent call, nil after a cancel or once it has run
		sinceAdvance int
		viol, det    string
		trace        []string
	}
	var m *monitor
	reported := map[string]bool{}
	e := &vrt.Explorer{Horizon: 4000, Quick: !thorough, Budget: c.budget * 20, Deadline: c.deadline, Stateful: true}
	stop := false
	e.StopEarly = func() bool { return stop }
	body := func() {
		m = &monitor{}
		mm := m
		call, cancel := gogu.NewDebounce(waitW)
		vrt.SetKeyFn(func() string {
			var sb strings.Builder
			for _, r := range mm.calls {
				age := now() - r.at
				if age > 6 {
					age = 6
				}
				fmt.Fprintf(&sb, "c(age%d,mnr=%t,runs=%d,last=%t)", age, r.mustNotRun, r.runs, r == mm.last)
			}
			fmt.Fprintf(&sb, "|since=%d", mm.sinceAdvance)
			return sb.String()
		})
		settle := func() { // forget calls that can no longer run: settled (ran) or far past their deadline with no timer
			out := mm.calls[:0]
			for _, r := range mm.calls {
				if now()-r.at <= 4 || r == mm.last { // past its deadline a call matters only while it is the last one (liveness)
					out = append(out, r)
				}
			}
			mm.calls = out
		}
		supersede := func(t int64) { // a call or cancel completed at time t: earlier calls still before their deadline must never run
			for _, r := range mm.calls {
				if t < r.at+5 {
					r.mustNotRun = true
				}
			}
		}
		for mm.viol == "" {
			// fairness bound: at most one fired callback may still be waiting to run when the driver
			// goes on (otherwise never-scheduled callback threads pile up without limit)
			vrt.WaitLiveAtMost(2)
			if mm.last != nil && mm.last.runs == 0 && vrt.PendingTimers() == 0 && vrt.LiveThreads() == 1 {
				mm.viol, mm.det = "Debounce/graph/last-call-never-runs", fmt.Sprintf("at time %d the call made at %d was followed by neither a call nor a cancel, has not run, and no timer is armed", now(), mm.last.at)
				break
			}
			k := vrt.Choose(3)
			if k == 0 && mm.sinceAdvance >= 2 {
				k = 1
			}
			switch k {
			case 0:
				r := &callRec{at: now()}
				mm.trace = append(mm.trace, fmt.Sprintf("call@%d", r.at))
				call(func() {
					t := now()
					r.runs++
					switch {
					case r.runs > 1:
						mm.viol, mm.det = "Debounce/graph/callback-runs-more-than-once", fmt.Sprintf("the callback of the call made at %d ran %d times", r.at, r.runs)
					case t < r.at+5:
						mm.viol, mm.det = "Debounce/graph/fires-early", fmt.Sprintf("the callback of the call made at %d ran at %d (wait 5)", r.at, t)
					case r.mustNotRun:
						mm.viol, mm.det = "Debounce/graph/runs-although-superseded-or-cancelled", fmt.Sprintf("the callback of the call made at %d ran at %d although a later call or a cancel had completed before its deadline %d", r.at, t, r.at+5)
					}
					mm.trace = append(mm.trace, fmt.Sprintf("run(call@%d)@%d", r.at, t))
					if mm.last == r {
						mm.last = nil
					}
				})
				supersede(now())
				r.mustNotRun = false
				mm.calls = append(mm.calls, r)
				mm.last = r
				mm.sinceAdvance++
			case 1:
				vrt.Advance(2 * unit)
				mm.sinceAdvance = 0
				settle()
			case 2:
				mm.trace = append(mm.trace, fmt.Sprintf("cancel@%d", now()))
				cancel()
				supersede(now())
				mm.last = nil
			}
		}
	}
	e.Check = func(x *vrt.Exec) {
		key, detail := "", ""
		for i := 0; i < x.NumThreads(); i++ {
			if pm := x.ThreadAt(i).Panic; pm != "" {
				key, detail = "Debounce/graph/panic", pm
			}
		}
		if key == "" && m != nil && m.viol != "" {
			key, detail = m.viol, m.det
		}
		if key == "" && x.Deadlock {
			key, detail = "Debounce/graph/deadlock", "no thread enabled: "+x.DeadlockInfo
		}
		if key == "" && x.HorizonHit {
			key, detail = "Debounce/graph/horizon", "an execution ran 4000 steps without reaching a visited state"
		}
		if key != "" && !reported[key] {
			reported[key] = true
			stop = true
			ch := append([]int{}, e.LastChoices...)
			c.out.finding(wFinding{key, detail, map[string]any{"scenario": name, "trace": m.trace, "choices": ch},
				map[string]any{"engine": "conc", "check": "C20", "sub": "C20worker", "shard": c.st.Shard, "scenario": name, "choices": ch}})
		}
	}
	if r := replayReq; r != nil {
		if r.Scenario != name {
			return
		}
		r.Seen = true
		x := vrt.Run(r.Choices, 4000, !thorough, body)
		e.LastChoices = r.Choices
		e.Check(x)
		return
	}
	e.Explore(body)
	if !stop {
		crossCheckOrders(c.st, name, e, body, true)
	}
	c.st.Execs += e.Execs
	c.st.Steps += e.Steps
	c.st.Extra["debounce_graph_states"] += e.States
	if !e.Complete && !stop {
		c.st.Incomplete++
	}
	c.st.Samples = append(c.st.Samples, fmt.Sprintf("%s: %d global states, %d executions (%d cut at a visited state), fixpoint=%t", name, e.States, e.Execs, e.Cuts, e.Complete))
}
