//go:build verif

// Package vruntime mirrors the few runtime functions gogu and singleflight use.
package vruntime

import (
	"runtime"

	"github.com/esimov/gogu/vrtshim/vrt"
)

// Finalizers registered during a controlled execution are recorded, never run
// by the garbage collector; a harness fires them as explicit events.
var Finalizers []func()

func SetFinalizer(obj any, finalizer any) {
	if !vrt.Active() {
		if !vrt.Aborting() {
			runtime.SetFinalizer(obj, finalizer)
		}
		return
	}
	if h := FinalizerHook; h != nil {
		h(obj, finalizer)
	}
}

var FinalizerHook func(obj, finalizer any)

func Goexit()              { runtime.Goexit() }
func Gosched()             { vrt.Sched("runtime.Gosched") }
func GC()                  { runtime.GC() }
func NumGoroutine() int    { return runtime.NumGoroutine() }
func GOMAXPROCS(n int) int { return runtime.GOMAXPROCS(n) }
func KeepAlive(x any)      { runtime.KeepAlive(x) }

type Error = runtime.Error
