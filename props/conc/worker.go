//go:build verif

package main

import (
	"bufio"
	"encoding/json"
	"fmt"
	"os"
	"os/exec"
	"runtime"
	"sort"
	"strings"
	"sync"

	"verif/core"
)

// Workers: schedule exploration uses process-global runtime state, so parallelism is by
// subprocess. A worker prints one line per finding ("F\t{json}") and one stats line ("S\t{json}").

type wFinding struct {
	Key     string `json:"key"`
	Detail  string `json:"detail"`
	Witness any    `json:"witness"`
	Replay  any    `json:"replay"`
}

type wStats struct {
	Shard       string         `json:"shard"`
	Scenarios   int            `json:"scenarios"`
	Skipped     int            `json:"skipped"`
	Execs       int            `json:"execs"`
	Steps       int            `json:"steps"`
	States      int            `json:"states"`
	Incomplete  int            `json:"incomplete"` // scenarios not explored unbounded-complete
	MinBound    int            `json:"min_bound"`  // smallest completed bound among incomplete scenarios (-1 none)
	NoCollision int            `json:"no_collision"`
	Outcomes    int            `json:"outcomes"`
	Samples     []string       `json:"samples"`
	Extra       map[string]int `json:"extra,omitempty"`
	Diverged    string         `json:"diverged,omitempty"`
}

type workerOut struct {
	w *bufio.Writer
}

func newWorkerOut() *workerOut { return &workerOut{bufio.NewWriter(os.Stdout)} }

func (o *workerOut) finding(f wFinding) {
	if r := replayReq; r != nil {
		fmt.Printf("  FAIL %s: %s\n", f.Key, f.Detail)
		if f.Key == r.Key {
			r.Hit = true
		}
		return
	}
	b, _ := json.Marshal(f)
	fmt.Fprintf(o.w, "F\t%s\n", b)
	o.w.Flush()
}

func (o *workerOut) stats(s wStats) {
	if replayReq != nil {
		return
	}
	b, _ := json.Marshal(s)
	fmt.Fprintf(o.w, "S\t%s\n", b)
	o.w.Flush()
}

// runWorkers starts `conc <sub> <shard>` for every shard on all cores and merges the output into rep.
// It returns false if a worker failed (machinery error, exit 2).
func runWorkers(rep *core.Report, sub string, shards []string, env []string) bool {
	par := runtime.NumCPU()
	sem := make(chan struct{}, par)
	var mu sync.Mutex
	var wg sync.WaitGroup
	ok := true
	var all []wStats
	type fkey struct {
		shard int
		f     wFinding
	}
	var finds []fkey
	for si, sh := range shards {
		wg.Add(1)
		sem <- struct{}{}
		go func(si int, sh string) {
			defer wg.Done()
			defer func() { <-sem }()
			cmd := exec.Command(os.Args[0], sub, sh)
			cmd.Env = append(append(os.Environ(), "GOMAXPROCS=2"), env...)
			for _, e := range env {
				if strings.HasPrefix(e, "VERIF_TSAN_DIR=") {
					cmd.Env = append(cmd.Env, "GORACE=halt_on_error=0 exitcode=0 log_path="+strings.TrimPrefix(e, "VERIF_TSAN_DIR=")+"/tsan")
				}
			}
			cmd.Stderr = os.Stderr
			out, err := cmd.Output()
			mu.Lock()
			defer mu.Unlock()
			if err != nil {
				fmt.Fprintf(os.Stderr, "worker %s %s failed: %v\n", sub, sh, err)
				ok = false
			}
			for _, line := range strings.Split(string(out), "\n") {
				switch {
				case strings.HasPrefix(line, "F\t"):
					var f wFinding
					if json.Unmarshal([]byte(line[2:]), &f) == nil {
						finds = append(finds, fkey{si, f})
					}
				case strings.HasPrefix(line, "S\t"):
					var s wStats
					if json.Unmarshal([]byte(line[2:]), &s) == nil {
						all = append(all, s)
					}
				}
			}
		}(si, sh)
	}
	wg.Wait()
	sort.SliceStable(finds, func(i, j int) bool { return finds[i].shard < finds[j].shard })
	for _, f := range finds {
		rep.Add(f.f.Key, f.f.Detail, f.f.Witness, f.f.Replay)
	}
	sort.Slice(all, func(i, j int) bool { return all[i].Shard < all[j].Shard })
	per := map[string]any{}
	minBound := -1
	incomplete := 0
	for _, s := range all {
		rep.Inc("scenarios", s.Scenarios)
		rep.Inc("scenarios_skipped_superset_of_violating_program", s.Skipped)
		rep.Inc("evaluations", s.Execs)
		rep.Inc("transitions", s.Steps)
		rep.Inc("traces_validated_against_impl", s.Execs)
		rep.Inc("states", s.States)
		rep.Inc("scenarios_without_collision", s.NoCollision)
		rep.Inc("distinct_outcomes_total", s.Outcomes)
		incomplete += s.Incomplete
		if s.Incomplete > 0 && (minBound < 0 || s.MinBound < minBound) {
			minBound = s.MinBound
		}
		for _, sm := range s.Samples {
			rep.Sample(sm)
		}
		for k, v := range s.Extra {
			rep.Inc(k, v)
		}
		per[s.Shard] = s
		if s.Diverged != "" {
			fmt.Fprintf(os.Stderr, "worker %s: nondeterminism not captured: %s\n", s.Shard, s.Diverged)
			ok = false
		}
	}
	rep.Set("per_shard", per)
	rep.Set("scenarios_not_exhaustive", incomplete)
	rep.Set("exhaustive", incomplete == 0)
	if incomplete > 0 {
		rep.Set("smallest_preemption_bound_completed_among_capped_scenarios", minBound)
	}
	if len(all) != len(shards) {
		fmt.Fprintf(os.Stderr, "only %d of %d workers reported\n", len(all), len(shards))
		ok = false
	}
	return ok
}
