#!/bin/bash
# Builds the framework offline from files on disk and warms the Go build cache.
cd "$(dirname "$0")" || exit 1
export GOFLAGS=-mod=mod GOPROXY=off GOSUMDB=off GOTOOLCHAIN=local
mkdir -p bin evidence replays
go build -o bin/seq ./props/seq || exit 1
go build -o bin/vinstr ./cmd/vinstr || exit 1
tools/build_overlay.sh pure || exit 1
tools/build_overlay.sh conc || exit 1
tools/build_overlay.sh conc_race || exit 1
# informational self-checks of the machinery (never fail the setup: they are timing-tolerant but not timing-free)
tools/selftest.sh 2>&1 | tail -12
bin/conc conform - 2>&1 | tail -3
bin/conc_race conform-race - 2>&1 | tail -2
echo "setup ok"
