//go:build verif

package vrt

import "time"

// Virtual time. The clock is an int64 of nanoseconds since Epoch; it never
// moves while a thread is enabled, except through Advance (an ordinary
// scheduled operation of a harness thread). When nothing is enabled and timers
// are pending, it jumps to the earliest deadline (discrete-event rule).

var Epoch = time.Date(2030, 1, 1, 0, 0, 0, 0, time.UTC)

type timer struct {
	when   int64
	seq    int
	active bool
	f      func()           // AfterFunc
	ch     *Chan[time.Time] // Timer.C / After / Ticker.C
	period int64
	name   string
}

// TimerID identifies a timer of the current execution.
type TimerID int

// FakeClock, when non-nil, is the clock of pass-through mode (no execution attached): sequential
// engines that explore time as an ordinary operation (C08's BFS) point it at their own counter.
var FakeClock *int64

//go:norace
func NowNanos() int64 {
	x := X
	if x == nil {
		if p := FakeClock; p != nil {
			return *p
		}
		return time.Since(Epoch).Nanoseconds()
	}
	return x.clock
}

// Now is a visible operation: the clock is shared state the explorer moves.
//
//go:norace
func Now() time.Time {
	x := X
	if x == nil || x.aborting {
		if p := FakeClock; p != nil && x == nil {
			return Epoch.Add(time.Duration(*p))
		}
		return time.Now()
	}
	Sched("time.Now")
	t := &x.threads[x.cur]
	t.lastNow, t.hasLastNow = x.clock, true
	return Epoch.Add(time.Duration(x.clock))
}

//go:norace
func AddTimer(d time.Duration, period time.Duration, f func(), ch *Chan[time.Time], name string) TimerID {
	x := X
	if x.ntimer >= MaxTimers {
		// reuse an inactive slot
		for i := 0; i < x.ntimer; i++ {
			if !x.timers[i].active {
				x.timers[i] = timer{when: x.clock + int64(d), seq: x.tseq, active: true, f: f, ch: ch, period: int64(period), name: name}
				x.tseq++
				return TimerID(i)
			}
		}
		x.Overflow = true
		return -1
	}
	if d < 0 {
		d = 0
	}
	id := x.ntimer
	x.timers[id] = timer{when: x.clock + int64(d), seq: x.tseq, active: true, f: f, ch: ch, period: int64(period), name: name}
	x.tseq++
	x.ntimer++
	return TimerID(id)
}

// StopTimer reports whether the timer was still pending (Go's Timer.Stop result).
//
//go:norace
func StopTimer(id TimerID) bool {
	x := X
	if id < 0 || int(id) >= x.ntimer {
		return false
	}
	was := x.timers[id].active
	x.timers[id].active = false
	return was
}

//go:norace
func ResetTimer(id TimerID, d time.Duration) bool {
	x := X
	if id < 0 || int(id) >= x.ntimer {
		return false
	}
	was := x.timers[id].active
	x.timers[id].active = true
	x.timers[id].when = x.clock + int64(d)
	x.timers[id].seq = x.tseq
	x.tseq++
	return was
}

// earliest returns the index of the pending timer with the smallest (when, seq); -1 if none.
//
//go:norace
func (x *Exec) earliest() int {
	best := -1
	for i := 0; i < x.ntimer; i++ {
		t := &x.timers[i]
		if !t.active {
			continue
		}
		if best < 0 || t.when < x.timers[best].when || (t.when == x.timers[best].when && t.seq < x.timers[best].seq) {
			best = i
		}
	}
	return best
}

//go:norace
func (x *Exec) fire(i int) {
	t := &x.timers[i]
	if t.period > 0 {
		t.when += t.period
		t.seq = x.tseq
		x.tseq++
	} else {
		t.active = false
	}
	switch {
	case t.f != nil:
		f := t.f
		GoNamed("timer:"+t.name, false, f) // runs in its own goroutine, as in Go
	case t.ch != nil:
		TrySend(t.ch, Epoch.Add(time.Duration(x.clock))) // dropped if the channel is full
	}
}

// fireNextTimer implements the discrete-event rule; it reports whether a timer fired.
//
//go:norace
func (x *Exec) fireNextTimer() bool {
	i := x.earliest()
	if i < 0 {
		return false
	}
	// several timers due at the same instant: the explorer picks the order
	var same [MaxTimers]int
	n := 0
	for j := 0; j < x.ntimer; j++ {
		if x.timers[j].active && x.timers[j].when == x.timers[i].when {
			same[n] = j
			n++
		}
	}
	if n > 1 {
		i = same[x.choose(n, true, false, nil)]
	}
	if x.timers[i].when > x.clock {
		x.clock = x.timers[i].when
	}
	x.fire(i)
	return true
}

// Advance moves the clock forward by d, firing every timer that becomes due
// (a harness operation; a scheduling point like any other).
//
//go:norace
func Advance(d time.Duration) { AdvanceIf(d, nil) }

// AdvanceIf is Advance guarded by a condition that is evaluated AFTER the scheduling point, in the same
// step as the clock movement (a harness that lets time pass only in certain states must not decide that
// before other threads have had their turn). It reports whether the clock moved.
//
//go:norace
func AdvanceIf(d time.Duration, ok func() bool) bool {
	x := X
	if x == nil || x.aborting {
		return false
	}
	Sched("clock.Advance")
	if ok != nil && !ok() {
		return false
	}
	target := x.clock + int64(d)
	for {
		i := x.earliest()
		if i < 0 || x.timers[i].when > target {
			break
		}
		if x.timers[i].when > x.clock {
			x.clock = x.timers[i].when
		}
		x.fire(i)
	}
	x.clock = target
	return true
}

// PendingTimers reports the number of armed timers.
//
//go:norace
func PendingTimers() int {
	x := X
	n := 0
	for i := 0; i < x.ntimer; i++ {
		if x.timers[i].active {
			n++
		}
	}
	return n
}

// Sleep parks the calling thread until the clock has advanced by d.
//
//go:norace
func Sleep(d time.Duration) {
	x := X
	if x == nil || x.aborting {
		if x == nil {
			time.Sleep(d)
		}
		return
	}
	ch := MakeChan[time.Time](1)
	AddTimer(d, 0, nil, ch, "sleep")
	Recv(ch)
}
