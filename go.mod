module verif

go 1.22

require github.com/esimov/gogu v0.0.0

require (
	golang.org/x/exp v0.0.0-20230303215020-44a13b063f3e // indirect
	golang.org/x/sync v0.1.0 // indirect
)

replace github.com/esimov/gogu => /repo
