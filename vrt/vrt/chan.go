//go:build verif

package vrt

import (
	"fmt"
	"reflect"
	"sort"
	"unsafe"
)

// Chan models a Go channel under the controlled runtime. In pass-through mode
// (no execution attached) it is a thin wrapper around a real channel.
type Chan[T any] struct {
	real  chan T
	core  chanCore // non-generic readiness state, read by the (non-generic, norace) predicates
	buf   []T
	sendq []*sendWait[T]
	recvq []*recvWait[T]
	// parked selects that have a receive / send case on this channel (a select that waits is a
	// waiting receiver or sender like any other: its partner may complete the communication)
	selRecv []selReg
	selSend []selSendReg[T]
	// Happens-before edges for the race detector, modelled on the annotations of the Go runtime's own
	// channels (runtime/chan.go: racenotify per buffer slot, racesync for a direct hand-over,
	// racerelease/raceacquire on close): one token per buffer slot (acquire+release by the send that
	// fills it and by the receive that empties it: send k happens-before receive k, receive k
	// happens-before send k+cap), one token per parked operation (released by the parker before it
	// parks, acquired+released by the partner that completes it, acquired by the parker when it
	// resumes: the two sides synchronise with each other and with nobody else), one token for close.
	slotTok  []uint64
	pend     []*uint64 // per slot: the token of a parked partner whose past belongs into the slot (see setPend)
	sendx    int
	recvx    int
	closeTok uint64
}

//go:norace
func (c *Chan[T]) slot(i int) unsafe.Pointer {
	if len(c.slotTok) == 0 {
		n := c.core.cap
		if n < 1 {
			n = 1
		}
		c.slotTok = make([]uint64, n)
		c.pend = make([]*uint64, n)
	}
	return unsafe.Pointer(&c.slotTok[i%len(c.slotTok)])
}

// setPend: the runtime performs a parked partner's slot notification on its behalf, with the clock the
// partner had when it parked. The model cannot release on behalf of another goroutine; instead the
// partner released its past into its own token before parking, and the next user of the slot -- the one
// that is entitled to see that past -- acquires the token first (notifySlot).
//
//go:norace
func (c *Chan[T]) setPend(i int, t *uint64) {
	p := c.slot(i)
	j := i % len(c.slotTok)
	if old := c.pend[j]; old != nil && old != t {
		raceAcquire(unsafe.Pointer(old))
		raceRelease(p)
	}
	c.pend[j] = t
}

// resumeSlot is what a partner that was completed while parked does when it runs again: it acquires
// what the other side released into its slot.
//
//go:norace
func (c *Chan[T]) resumeSlot(i int) {
	raceAcquire(c.slot(i))
}

// notifySlot is the runtime's racenotify: the operation that fills or empties a slot acquires what the
// previous user of the slot released and releases its own past into it.
//
//go:norace
func (c *Chan[T]) notifySlot(i int) {
	p := c.slot(i)
	j := i % len(c.slotTok)
	if t := c.pend[j]; t != nil {
		raceAcquire(unsafe.Pointer(t))
		c.pend[j] = nil
	}
	raceAcquire(p)
	raceRelease(p)
}

// syncWith is the runtime's racesync, split in two: the completing side acquires the parked side's past
// and releases its own; the parked side acquires that when it resumes (parkedResume).
//
//go:norace
func syncWith(tok *uint64) {
	raceAcquire(unsafe.Pointer(tok))
	raceRelease(unsafe.Pointer(tok))
}

// chanCore mirrors len(buf), len(sendq), len(recvq), cap and closed.
type chanCore struct {
	cap, nbuf, nsend, nrecv int
	nselRecv, nselSend      int
	closed                  bool
}

//go:norace
func (c *chanCore) sendReady() bool {
	// a registered receiver makes a send ready only when nothing is buffered: with a non-empty buffer the
	// receiver is about to take the buffered element, and a send into a full buffer has to wait for that
	return c.closed || c.nbuf < c.cap || (c.nbuf == 0 && (c.nrecv > 0 || c.nselRecv > 0))
}

//go:norace
func (c *chanCore) recvReady() bool {
	return c.nbuf > 0 || c.nsend > 0 || c.closed || c.nselSend > 0
}

// selReg / selSendReg: one case of a parked select, registered with its channel.
type selReg struct {
	w   *selWait
	idx int
}

type selSendReg[T any] struct {
	w   *selWait
	idx int
	v   T
}

// chanWait is the predicate of a parked send or receive.
type chanWait struct {
	core *chanCore
	done *bool
	send bool
}

//go:norace
func (w *chanWait) Ready() bool {
	if *w.done {
		return true
	}
	if w.send {
		return w.core.sendReady()
	}
	return w.core.recvReady()
}

type sendWait[T any] struct {
	v     T
	taken bool
	tok   uint64
	slot  int // buffered channels: the slot the element went through
}

type recvWait[T any] struct {
	v    T
	ok   bool
	done bool
	tok  uint64
	slot int
}

//go:norace
func (c *Chan[T]) syncCore() {
	c.core.nbuf, c.core.nsend, c.core.nrecv = len(c.buf), len(c.sendq), len(c.recvq)
	c.core.nselRecv, c.core.nselSend = len(c.selRecv), len(c.selSend)
}

// deliver performs a send that is known to be ready (not closed): to a waiting receiver if nothing is
// buffered ahead of it, else into the buffer, else (buffer full or unbuffered) to a parked select.
//
//go:norace
func (c *Chan[T]) deliver(v T) {
	if len(c.buf) == 0 && len(c.recvq) > 0 {
		r := c.recvq[0]
		c.recvq = qdel(c.recvq, 0)
		r.slot = c.handOver(&r.tok)
		r.v, r.ok, r.done = v, true, true
		return
	}
	if len(c.buf) < c.core.cap {
		c.notifySlot(c.sendx)
		c.sendx++
		c.bufPush(v)
		return
	}
	if len(c.selRecv) > 0 {
		g := c.selRecv[0]
		g.w.slot = c.handOver(&g.w.tok)
		g.w.complete(g.idx, v, true)
		return
	}
	panic("vrt: send delivered although the channel was not ready for it (model error)")
}

// handOver: the current thread sends directly to a parked receiver (token t). Unbuffered: the two
// synchronise with each other (racesync). Buffered: the element passes through its slot -- the sender
// notifies the slot, the receiver's notification is pending until it (or the next user of the slot) runs.
//
//go:norace
func (c *Chan[T]) handOver(t *uint64) int {
	if c.core.cap == 0 {
		syncWith(t)
		return 0
	}
	c.notifySlot(c.sendx)
	c.sendx++
	i := c.recvx
	c.recvx++
	c.setPend(i, t)
	return i
}

// takeOver: the current thread receives from a parked sender (token t) whose element goes through slot
// c.sendx first (buffered), or directly (unbuffered).
//
//go:norace
func (c *Chan[T]) takeOver(t *uint64) int {
	if c.core.cap == 0 {
		syncWith(t)
		return 0
	}
	i := c.sendx
	c.sendx++
	c.setPend(i, t)
	return i
}

func MakeChan[T any](n int) *Chan[T] {
	return &Chan[T]{real: make(chan T, n), core: chanCore{cap: n}}
}

// The model's own queues are touched by whichever thread performs an operation, with the scheduler's
// hand-offs hidden from the race detector. Their code is //go:norace, but the runtime's slice helpers
// (growslice, typedslicecopy) report their accesses to the detector whoever calls them: so the queues
// never grow or copy through the runtime -- fixed capacity, element-wise moves.
const maxWaiters = 32

//go:norace
func qpush[E any](q []E, e E) []E {
	if cap(q) == 0 {
		q = make([]E, 0, maxWaiters)
	}
	if len(q) == cap(q) {
		panic("vrt: channel model queue overflow")
	}
	q = q[:len(q)+1]
	q[len(q)-1] = e
	return q
}

//go:norace
func qdel[E any](q []E, i int) []E {
	for j := i; j+1 < len(q); j++ {
		q[j] = q[j+1]
	}
	var z E
	q[len(q)-1] = z
	return q[:len(q)-1]
}

//go:norace
func (c *Chan[T]) bufPush(v T) {
	if cap(c.buf) == 0 {
		n := c.core.cap
		if n < 1 {
			n = 1
		}
		c.buf = make([]T, 0, n)
	}
	c.buf = qpush(c.buf, v)
}

//go:norace
func (c *Chan[T]) sendReady() bool { c.syncCore(); return c.core.sendReady() }

//go:norace
func (c *Chan[T]) recvReady() bool { c.syncCore(); return c.core.recvReady() }

//go:norace
func Send[T any](c *Chan[T], v T) {
	if !Active() {
		if Aborting() {
			return
		}
		if c == nil {
			var nc chan T
			nc <- v
		}
		c.real <- v
		return
	}
	if c == nil {
		Wait("send on nil channel", Never{})
		return
	}
	s := &sendWait[T]{v: v}
	raceRelease(unsafe.Pointer(&s.tok)) // whoever takes the value while this send is parked sees the sender's past
	c.sendq = qpush(c.sendq, s)
	c.syncCore()
	Wait("chan send", &chanWait{core: &c.core, done: &s.taken, send: true})
	if s.taken {
		c.resumed(&s.tok, s.slot)
		return
	}
	c.removeSend(s)
	defer c.syncCore()
	if c.core.closed {
		panic("send on closed channel")
	}
	c.deliver(v)
}

//go:norace
func (c *Chan[T]) removeSend(s *sendWait[T]) {
	for i, x := range c.sendq {
		if x == s {
			c.sendq = qdel(c.sendq, i)
			c.syncCore()
			return
		}
	}
}

//go:norace
func (c *Chan[T]) removeRecv(r *recvWait[T]) {
	for i, x := range c.recvq {
		if x == r {
			c.recvq = qdel(c.recvq, i)
			c.syncCore()
			return
		}
	}
}

//go:norace
func Recv2[T any](c *Chan[T]) (T, bool) {
	if !Active() {
		var z T
		if Aborting() {
			return z, false
		}
		if c == nil {
			var nc chan T
			v, ok := <-nc
			return v, ok
		}
		v, ok := <-c.real
		return v, ok
	}
	if c == nil {
		Wait("receive from nil channel", Never{})
		var z T
		return z, false
	}
	r := &recvWait[T]{}
	raceRelease(unsafe.Pointer(&r.tok))
	c.recvq = qpush(c.recvq, r)
	c.syncCore()
	Wait("chan receive", &chanWait{core: &c.core, done: &r.done})
	if r.done {
		if r.ok {
			c.resumed(&r.tok, r.slot)
		}
		return r.v, r.ok
	}
	c.removeRecv(r)
	return c.takeNow()
}

// takeNow performs a receive that is known to be ready.
//
//go:norace
func (c *Chan[T]) takeNow() (T, bool) {
	defer c.syncCore()
	var z T
	if len(c.buf) > 0 {
		v := c.buf[0]
		c.buf = qdel(c.buf, 0)
		c.notifySlot(c.recvx)
		c.recvx++
		if len(c.sendq) > 0 { // a blocked sender moves into the freed slot
			s := c.sendq[0]
			c.sendq = qdel(c.sendq, 0)
			s.slot = c.takeOver(&s.tok)
			c.bufPush(s.v)
			s.taken = true
		} else if len(c.selSend) > 0 { // ... or the send case of a parked select
			g := c.selSend[0]
			g.w.slot = c.takeOver(&g.w.tok)
			c.bufPush(g.v)
			g.w.complete(g.idx, nil, false)
		}
		return v, true
	}
	if len(c.sendq) > 0 {
		s := c.sendq[0]
		c.sendq = qdel(c.sendq, 0)
		s.slot = c.takeOver(&s.tok)
		if c.core.cap > 0 { // through the slot: the receive notifies it (and picks up the sender's past)
			c.notifySlot(c.recvx)
			c.recvx++
		}
		s.taken = true
		return s.v, true
	}
	if len(c.selSend) > 0 {
		g := c.selSend[0]
		v := g.v
		g.w.slot = c.takeOver(&g.w.tok)
		if c.core.cap > 0 {
			c.notifySlot(c.recvx)
			c.recvx++
		}
		g.w.complete(g.idx, nil, false)
		return v, true
	}
	raceAcquire(unsafe.Pointer(&c.closeTok)) // closed: the receive sees what happened before the close
	return z, false
}

// resumed: a parked operation was completed by its partner; the thread is running again.
//
//go:norace
func (c *Chan[T]) resumed(t *uint64, slot int) {
	if c.core.cap == 0 {
		raceAcquire(unsafe.Pointer(t))
		return
	}
	c.resumeSlot(slot)
}

//go:norace
func Recv[T any](c *Chan[T]) T {
	v, _ := Recv2(c)
	return v
}

//go:norace
func Close[T any](c *Chan[T]) {
	if !Active() {
		if Aborting() {
			return
		}
		close(c.real)
		return
	}
	Sched("chan close")
	if c.core.closed {
		panic("close of closed channel")
	}
	c.core.closed = true
	raceRelease(unsafe.Pointer(&c.closeTok))
	// registered receivers are woken by their predicate (closed => ready) and then drain what is still
	// buffered before they see the zero value: nothing is completed on their behalf here
	c.syncCore()
}

// TrySend is the non-blocking send used by timers (Go drops a tick when the channel is full).
//
//go:norace
func TrySend[T any](c *Chan[T], v T) bool {
	c.syncCore()
	defer c.syncCore()
	if c.core.closed || !c.core.sendReady() {
		return false
	}
	c.deliver(v)
	return true
}

// ---------------------------------------------------------------- select

// selOps is one case of a select, bound to its (generic) channel. Implementations are structs with
// //go:norace methods, never closures: a case of a parked select is touched by whichever thread
// completes the communication.
type selOps interface {
	ready(self *selWait) bool
	fire() any // performs the communication (known to be ready); receive: [2]any{v, ok}
	register(w *selWait, idx int)
	unregister(w *selWait)
	resumed(w *selWait) // the parked select was completed through this case and runs again
}

type recvSel[T any] struct{ c *Chan[T] }

//go:norace
func (s recvSel[T]) ready(self *selWait) bool {
	c := s.c
	if len(c.buf) > 0 || len(c.sendq) > 0 || c.core.closed {
		return true
	}
	for _, g := range c.selSend {
		if g.w != self { // a select does not communicate with itself
			return true
		}
	}
	return false
}

//go:norace
func (s recvSel[T]) fire() any { v, ok := s.c.takeNow(); return [2]any{v, ok} }

//go:norace
func (s recvSel[T]) register(w *selWait, idx int) {
	s.c.selRecv = qpush(s.c.selRecv, selReg{w, idx})
	s.c.syncCore()
}

//go:norace
func (s recvSel[T]) unregister(w *selWait) {
	for i := len(s.c.selRecv) - 1; i >= 0; i-- {
		if s.c.selRecv[i].w == w {
			s.c.selRecv = qdel(s.c.selRecv, i)
		}
	}
	s.c.syncCore()
}

//go:norace
func (s recvSel[T]) resumed(w *selWait) { s.c.resumed(&w.tok, w.slot) }

type sendSel[T any] struct {
	c *Chan[T]
	v T
}

//go:norace
func (s sendSel[T]) resumed(w *selWait) { s.c.resumed(&w.tok, w.slot) }

//go:norace
func (s sendSel[T]) ready(self *selWait) bool {
	c := s.c
	if c.core.closed || len(c.buf) < c.core.cap {
		return true
	}
	if len(c.buf) > 0 {
		return false // full buffer: registered receivers take from the buffer first
	}
	if len(c.recvq) > 0 {
		return true
	}
	for _, g := range c.selRecv {
		if g.w != self {
			return true
		}
	}
	return false
}

//go:norace
func (s sendSel[T]) fire() any {
	defer s.c.syncCore()
	if s.c.core.closed {
		panic("send on closed channel")
	}
	s.c.deliver(s.v)
	return nil
}

//go:norace
func (s sendSel[T]) register(w *selWait, idx int) {
	s.c.selSend = qpush(s.c.selSend, selSendReg[T]{w, idx, s.v})
	s.c.syncCore()
}

//go:norace
func (s sendSel[T]) unregister(w *selWait) {
	for i := len(s.c.selSend) - 1; i >= 0; i-- {
		if s.c.selSend[i].w == w {
			s.c.selSend = qdel(s.c.selSend, i)
		}
	}
	s.c.syncCore()
}

// selWait is a parked select: its predicate (some case is ready, or a partner has completed one) and
// the result a partner left behind.
type selWait struct {
	tok   uint64    // happens-before token of the parked select (see Chan)
	slot  int       // buffered channels: the slot of the completed communication
	cases [8]selOps // nil: case on a nil channel (never ready)
	n     int
	done  bool
	idx   int
	val   any
	ok    bool
}

//go:norace
func (w *selWait) Ready() bool {
	if w.done {
		return true
	}
	for i := 0; i < w.n; i++ {
		if w.cases[i] != nil && w.cases[i].ready(w) {
			return true
		}
	}
	return false
}

// complete is called by the partner of a parked select: case idx has communicated.
//
//go:norace
func (w *selWait) complete(idx int, v any, ok bool) {
	w.done, w.idx, w.val, w.ok = true, idx, v, ok
	for i := 0; i < w.n; i++ {
		if w.cases[i] != nil {
			w.cases[i].unregister(w)
		}
	}
}

// Sel is the result of a Select.
type Sel struct {
	Index int
	val   any
	ok    bool
}

// SelCase is one communication clause.
type SelCase struct {
	c selOps
	// pass-through
	dir  reflect.SelectDir
	ch   reflect.Value
	send reflect.Value
}

//go:norace
func RecvCase[T any](c *Chan[T]) SelCase {
	sc := SelCase{dir: reflect.SelectRecv}
	if c == nil {
		sc.ch = reflect.ValueOf((chan T)(nil))
		return sc
	}
	sc.ch = reflect.ValueOf(c.real)
	c.syncCore()
	sc.c = recvSel[T]{c}
	return sc
}

//go:norace
func SendCase[T any](c *Chan[T], v T) SelCase {
	sc := SelCase{dir: reflect.SelectSend, send: reflect.ValueOf(v)}
	if c == nil {
		sc.ch = reflect.ValueOf((chan T)(nil))
		return sc
	}
	sc.ch = reflect.ValueOf(c.real)
	c.syncCore()
	sc.c = sendSel[T]{c, v}
	return sc
}

// Select blocks until one case is ready (or takes default when hasDefault and none is);
// among several ready cases the explorer chooses (Go chooses pseudo-randomly).
//
//go:norace
func Select(hasDefault bool, cases ...SelCase) *Sel {
	if !Active() {
		if Aborting() {
			return &Sel{Index: -1}
		}
		rc := make([]reflect.SelectCase, 0, len(cases)+1)
		for _, c := range cases {
			rc = append(rc, reflect.SelectCase{Dir: c.dir, Chan: c.ch, Send: c.send})
		}
		if hasDefault {
			rc = append(rc, reflect.SelectCase{Dir: reflect.SelectDefault})
		}
		i, v, ok := reflect.Select(rc)
		if hasDefault && i == len(cases) {
			return &Sel{Index: -1}
		}
		var val any
		if v.IsValid() {
			val = v.Interface()
		}
		return &Sel{Index: i, val: val, ok: ok}
	}
	if len(cases) > 8 {
		panic("vrt.Select: more than 8 cases")
	}
	w := &selWait{n: len(cases)} // scheduler-owned copy: the caller's variadic slice was written by instrumented code
	for i := range cases {
		w.cases[i] = cases[i].c
	}
	if hasDefault {
		Sched("select")
	} else {
		raceRelease(unsafe.Pointer(&w.tok))
		for i := 0; i < w.n; i++ {
			if w.cases[i] != nil {
				w.cases[i].register(w, i)
			}
		}
		Wait("select", w)
		if w.done { // a partner completed one of the cases while this select was parked
			w.cases[w.idx].resumed(w)
			return &Sel{Index: w.idx, val: w.val, ok: w.ok}
		}
		for i := 0; i < w.n; i++ {
			if w.cases[i] != nil {
				w.cases[i].unregister(w)
			}
		}
	}
	var ready [8]int
	nr := 0
	for i := 0; i < w.n; i++ {
		if w.cases[i] != nil && w.cases[i].ready(w) {
			ready[nr] = i
			nr++
		}
	}
	if nr == 0 {
		return &Sel{Index: -1}
	}
	k := ready[X.choose(nr, true, false, nil)]
	r := w.cases[k].fire()
	s := &Sel{Index: k}
	if p, ok := r.([2]any); ok {
		s.val, s.ok = p[0], p[1].(bool)
	}
	return s
}

// SelVal / SelOK extract the value received by the chosen case (the channel argument fixes the type).
//
//go:norace
func SelVal[T any](c *Chan[T], s *Sel) T {
	v, _ := s.val.(T)
	return v
}

//go:norace
func SelOK(s *Sel) bool { return s.ok }

// BlockForever is `select {}`.
//
//go:norace
func BlockForever() {
	if !Active() {
		if Aborting() {
			return
		}
		select {}
	}
	SetDaemon() // a goroutine that parks itself for good is not a deadlock victim
	Wait("select {}", Never{})
}

// ---------------------------------------------------------------- map iteration order

// MapOrder returns the keys of m in the order a `for range m` loop visits
// them: the runtime's own (random) order when nobody drives choices, otherwise
// every permutation is reachable through Choose (keys are first sorted into a
// canonical order so that a choice sequence determines the permutation).
//
//go:norace
func MapOrder[K comparable, V any](m map[K]V) []K {
	keys := make([]K, 0, len(m))
	for k := range m {
		keys = append(keys, k)
	}
	if len(keys) < 2 || (!Active() && ChooseHook == nil) {
		return keys
	}
	sort.Slice(keys, func(i, j int) bool { return keyLess(keys[i], keys[j]) })
	out := make([]K, 0, len(keys))
	for len(keys) > 0 {
		i := Choose(len(keys))
		out = append(out, keys[i])
		keys = append(keys[:i:i], keys[i+1:]...)
	}
	return out
}

func keyLess(a, b any) bool {
	switch x := a.(type) {
	case int:
		return x < b.(int)
	case string:
		return x < b.(string)
	case float64:
		return x < b.(float64)
	}
	va, vb := reflect.ValueOf(a), reflect.ValueOf(b)
	switch va.Kind() {
	case reflect.Int, reflect.Int8, reflect.Int16, reflect.Int32, reflect.Int64:
		return va.Int() < vb.Int()
	case reflect.Uint, reflect.Uint8, reflect.Uint16, reflect.Uint32, reflect.Uint64:
		return va.Uint() < vb.Uint()
	case reflect.String:
		return va.String() < vb.String()
	case reflect.Float32, reflect.Float64:
		return va.Float() < vb.Float()
	}
	return fmt.Sprintf("%#v", a) < fmt.Sprintf("%#v", b)
}
