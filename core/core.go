// Package core holds what every check shares: the findings protocol
// (known-findings.jsonl, VIOLATION / KNOWN-FINDING lines, replay artefacts)
// and the evidence writer.
package core

import (
	"bufio"
	"crypto/sha1"
	"encoding/hex"
	"encoding/json"
	"fmt"
	"os"
	"path/filepath"
	"sort"
	"strconv"
	"strings"
	"sync"
	"time"
)

// Root is the /verif directory (overridable for tests).
func Root() string {
	if r := os.Getenv("VERIF_ROOT"); r != "" {
		return r
	}
	return "/verif"
}

// OutRoot is where evidence and replay artefacts are written: /verif, unless a development run
// against a scratch tree redirects it (VERIF_OUT).
func OutRoot() string {
	if r := os.Getenv("VERIF_OUT"); r != "" {
		return r
	}
	return Root()
}

func Tier() string {
	t := os.Getenv("VERIF_TIER")
	if t != "thorough" {
		t = "quick"
	}
	return t
}

func Seed() int {
	n, _ := strconv.Atoi(os.Getenv("VERIF_SEED"))
	return n
}

// Finding is one violation of a property, reported by an oracle.
type Finding struct {
	Property string `json:"property"`
	// Key identifies *what* fails: component.operation/clause/class. It is the
	// matching key against known-findings.jsonl.
	Key string `json:"key"`
	// Witness is the minimal failing history / schedule / input found.
	Witness any    `json:"witness"`
	Detail  string `json:"detail"`
	// Replay holds whatever the replay command needs to re-execute the witness.
	Replay any `json:"replay,omitempty"`
	// Tier is the tier of the run that found it (a replay must explore at the same granularity).
	Tier string `json:"tier,omitempty"`
}

type knownEntry struct {
	Status   string `json:"status"` // "known" | "fixed"
	Property string `json:"property"`
	Key      string `json:"key"`
	What     string `json:"what"`
	Witness  any    `json:"witness,omitempty"`
	Reason   string `json:"reason,omitempty"`
	Commit   string `json:"commit,omitempty"`
}

// Report collects findings and coverage of one check run.
type Report struct {
	mu       sync.Mutex
	Property string
	start    time.Time
	findings map[string]*Finding // by key, first (= minimal, BFS order) witness wins
	order    []string
	hits     map[string]int
	known    map[string]knownEntry

	Coverage    map[string]any
	Assumptions []string
	samples     []any
	nontrivial  map[string]struct{}
}

func NewReport(prop string) *Report {
	r := &Report{Property: prop, start: time.Now(), findings: map[string]*Finding{}, hits: map[string]int{},
		known: map[string]knownEntry{}, Coverage: map[string]any{}, nontrivial: map[string]struct{}{}}
	f, err := os.Open(filepath.Join(Root(), "known-findings.jsonl"))
	if err == nil {
		defer f.Close()
		sc := bufio.NewScanner(f)
		sc.Buffer(make([]byte, 1<<20), 1<<24)
		for sc.Scan() {
			line := strings.TrimSpace(sc.Text())
			if line == "" || strings.HasPrefix(line, "#") || strings.HasPrefix(line, "fixed:") {
				continue
			}
			var e knownEntry
			if json.Unmarshal([]byte(line), &e) == nil && e.Status == "known" && e.Property == prop {
				r.known[e.Key] = e
			}
		}
	}
	return r
}

// Add records a finding. Returns true if this key was not seen before in this run.
func (r *Report) Add(key, detail string, witness, replay any) bool {
	r.mu.Lock()
	defer r.mu.Unlock()
	r.hits[key]++
	if _, ok := r.findings[key]; ok {
		return false
	}
	r.findings[key] = &Finding{Property: r.Property, Key: key, Witness: witness, Detail: detail, Replay: replay, Tier: Tier()}
	r.order = append(r.order, key)
	return true
}

func (r *Report) IsKnown(key string) bool {
	r.mu.Lock()
	defer r.mu.Unlock()
	_, ok := r.known[key]
	return ok
}

func (r *Report) HasFinding(key string) bool {
	r.mu.Lock()
	defer r.mu.Unlock()
	_, ok := r.findings[key]
	return ok
}

// Sample keeps up to 8 written-out cases for the evidence file.
func (r *Report) Sample(s any) {
	r.mu.Lock()
	defer r.mu.Unlock()
	if len(r.samples) < 8 {
		r.samples = append(r.samples, s)
	}
}

// Nontrivial counts a distinct non-trivial case by its canonical encoding.
func (r *Report) Nontrivial(canon string) {
	r.mu.Lock()
	h := sha1.Sum([]byte(canon))
	r.nontrivial[string(h[:8])] = struct{}{}
	r.mu.Unlock()
}

func (r *Report) NontrivialCount() int { r.mu.Lock(); defer r.mu.Unlock(); return len(r.nontrivial) }

func (r *Report) Inc(key string, n int) {
	r.mu.Lock()
	v, _ := r.Coverage[key].(int)
	r.Coverage[key] = v + n
	r.mu.Unlock()
}

func (r *Report) Set(key string, v any) { r.mu.Lock(); r.Coverage[key] = v; r.mu.Unlock() }

// Finish prints KNOWN-FINDING / VIOLATION lines, writes replay artefacts and
// the evidence file and returns the process exit status.
func (r *Report) Finish() int {
	r.mu.Lock()
	defer r.mu.Unlock()
	root := OutRoot()
	violations := 0
	knownHit := []string{}
	newKeys := []string{}
	for _, k := range r.order {
		f := r.findings[k]
		h := sha1.Sum([]byte(r.Property + "|" + k))
		name := hex.EncodeToString(h[:6]) + ".json"
		dir := filepath.Join(root, "replays", r.Property)
		os.MkdirAll(dir, 0o755)
		path := filepath.Join(dir, name)
		b, _ := json.MarshalIndent(f, "", " ")
		os.WriteFile(path, append(b, '\n'), 0o644)
		if e, ok := r.known[k]; ok {
			fmt.Printf("KNOWN-FINDING: property=%s %s: %s (hits=%d, e.g. %s)\n", r.Property, k, e.What, r.hits[k], compact(f.Witness))
			knownHit = append(knownHit, k)
		} else {
			violations++
			newKeys = append(newKeys, k)
			fmt.Printf("VIOLATION property=%s replay=%s\n", r.Property, path)
			fmt.Printf("  key=%s\n  detail=%s\n  witness=%s\n", k, f.Detail, compact(f.Witness))
		}
	}
	stale := []string{}
	for k := range r.known {
		if _, ok := r.findings[k]; !ok {
			stale = append(stale, k)
		}
	}
	sort.Strings(stale)
	for _, k := range stale {
		fmt.Printf("NOTE: property=%s known finding %q was not reproduced by this run (tier=%s)\n", r.Property, k, Tier())
	}
	cov := r.Coverage
	if len(r.samples) > 0 {
		cov["samples"] = r.samples
	}
	if len(r.nontrivial) > 0 {
		cov["distinct_nontrivial"] = len(r.nontrivial)
	}
	cov["known_findings_hit"] = knownHit
	cov["known_findings_not_reproduced"] = stale
	cov["new_violation_keys"] = newKeys
	hits := map[string]int{}
	for k, v := range r.hits {
		hits[k] = v
	}
	cov["finding_hits"] = hits
	if r.Assumptions == nil {
		r.Assumptions = []string{}
	}
	ev := map[string]any{
		"property_id": r.Property,
		"tier":        Tier(),
		"seed":        Seed(),
		"level":       "model_checking",
		"coverage":    cov,
		"assumptions": r.Assumptions,
		"wall_s":      time.Since(r.start).Seconds(),
		"violations":  violations,
	}
	os.MkdirAll(filepath.Join(root, "evidence"), 0o755)
	b, _ := json.MarshalIndent(ev, "", " ")
	if err := os.WriteFile(filepath.Join(root, "evidence", r.Property+".json"), append(b, '\n'), 0o644); err != nil {
		fmt.Fprintln(os.Stderr, "cannot write evidence:", err)
		return 2
	}
	fmt.Printf("SUMMARY property=%s tier=%s violations=%d known=%d wall=%.1fs\n", r.Property, Tier(), violations, len(knownHit), time.Since(r.start).Seconds())
	if violations > 0 {
		return 1
	}
	return 0
}

func compact(v any) string {
	b, _ := json.Marshal(v)
	s := string(b)
	if len(s) > 400 {
		s = s[:400] + "..."
	}
	return s
}

// Findings returns the findings recorded so far, in the order they were added
// (used by worker processes that forward them to the parent).
func (r *Report) Findings() []*Finding {
	r.mu.Lock()
	defer r.mu.Unlock()
	var out []*Finding
	for _, k := range r.order {
		out = append(out, r.findings[k])
	}
	return out
}

// Samples returns the samples kept so far.
func (r *Report) Samples() []any { r.mu.Lock(); defer r.mu.Unlock(); return append([]any{}, r.samples...) }
