// Command vinstr is the type-aware source-to-source virtualiser: it rewrites
// gogu's non-test sources (and a copy of x/sync/singleflight) so that sync,
// time, runtime, math/rand, goroutines, channels, select and range-over-map go
// through the controlled runtime, and emits a `go build -overlay` file. /repo
// is never written. Edits are byte-offset splices that keep every construct on
// its original line, so positions in panics and race reports stay valid.
//
// Anything it does not understand is a hard error (exit status 2, file:line).
package main

import (
	"encoding/json"
	"flag"
	"fmt"
	"go/ast"
	"go/importer"
	"go/parser"
	"go/token"
	"go/types"
	"io"
	"os"
	"os/exec"
	"path/filepath"
	"sort"
	"strings"
)

const shimRoot = "github.com/esimov/gogu/vrtshim/"

var importMap = map[string]string{
	"sync":                           "sync " + q(shimRoot+"vsync"),
	"time":                           "time " + q(shimRoot+"vtime"),
	"runtime":                        "runtime " + q(shimRoot+"vruntime"),
	"math/rand":                      "rand " + q(shimRoot+"vrand"),
	"sync/atomic":                    "atomic " + q(shimRoot+"vatomic"),
	"context":                        "context " + q(shimRoot+"vcontext"),
	"hash/maphash":                   "maphash " + q(shimRoot+"vmaphash"),
	"math/rand/v2":                   "rand " + q(shimRoot+"vrand2"),
	"golang.org/x/sync/singleflight": "singleflight " + q(shimRoot+"singleflight"),
}

func q(s string) string { return `"` + s + `"` }

// goFunc is what a go statement is rewritten to: goroutines started by the library itself are its own
// business (a cleanup goroutine, an owner goroutine serving requests) -- they are background threads,
// and one of them parked for ever is not a call that blocks for ever. The conformance programs keep
// plain threads (there a goroutine that never finishes is a deadlock of the program).
var goFunc = "vrt.GoLib"

// sawTryLock: some rewritten file calls TryLock/TryRLock. The quick tier drops the scheduling point before
// a pure release (a release commutes to the left of whatever other threads do -- as long as they can only
// BLOCK on the lock). A TryLock sees whether the lock is held, so with one in the program the points stay.
var sawTryLock bool

type listPkg struct {
	ImportPath string
	Dir        string
	GoFiles    []string
	Export     string
	Module     *struct{ Path, Dir string }
	Standard   bool
}

type edit struct {
	pos, end int
	text     string
	seq      int
}

type fileRewriter struct {
	fset    *token.FileSet
	file    *ast.File
	src     []byte
	info    *types.Info
	edits   []edit
	needVrt bool
	skip    map[ast.Node]bool // nodes whose text an enclosing rewrite has already replaced
	path    string
	stats   map[string]int
}

func (r *fileRewriter) off(p token.Pos) int { return r.fset.Position(p).Offset }
func (r *fileRewriter) text(n ast.Node) string {
	return string(r.src[r.off(n.Pos()):r.off(n.End())])
}
func (r *fileRewriter) replace(from, to token.Pos, s string) {
	r.edits = append(r.edits, edit{r.off(from), r.off(to), s, len(r.edits)})
}
func (r *fileRewriter) insert(at token.Pos, s string) { r.replace(at, at, s) }
func (r *fileRewriter) fail(n ast.Node, format string, a ...any) {
	fmt.Fprintf(os.Stderr, "vinstr: %s: %s\n", r.fset.Position(n.Pos()), fmt.Sprintf(format, a...))
	os.Exit(2)
}

func (r *fileRewriter) typeOf(e ast.Expr) types.Type {
	if r.info == nil {
		return nil
	}
	if tv, ok := r.info.Types[e]; ok {
		return tv.Type
	}
	return nil
}

func under(t types.Type) types.Type {
	if t == nil {
		return nil
	}
	u := t.Underlying()
	if tp, ok := u.(*types.Interface); ok && tp != nil {
		// type parameter constraint: use the core type if every term agrees on map/chan
		if tpar, ok := t.(*types.TypeParam); ok {
			_ = tpar
		}
	}
	return u
}

func simpleExpr(e ast.Expr) bool {
	switch x := e.(type) {
	case *ast.Ident:
		return true
	case *ast.SelectorExpr:
		return simpleExpr(x.X)
	case *ast.ParenExpr:
		return simpleExpr(x.X)
	}
	return false
}

func (r *fileRewriter) rewrite() {
	// imports
	for _, im := range r.file.Imports {
		p := strings.Trim(im.Path.Value, `"`)
		if to, ok := importMap[p]; ok {
			if im.Name != nil {
				// keep the user's name
				r.replace(im.Path.Pos(), im.Path.End(), to[strings.Index(to, `"`):])
			} else {
				r.replace(im.Path.Pos(), im.Path.End(), to)
			}
			r.stats["import:"+p]++
		}
	}
	randName := ""
	for _, im := range r.file.Imports {
		if strings.Trim(im.Path.Value, `"`) == "math/rand" {
			randName = "rand"
			if im.Name != nil {
				randName = im.Name.Name
			}
		}
	}
	labeled := map[ast.Stmt]bool{}
	ast.Inspect(r.file, func(n ast.Node) bool {
		if l, ok := n.(*ast.LabeledStmt); ok {
			labeled[l.Stmt] = true
		}
		return true
	})
	ast.Inspect(r.file, func(n ast.Node) bool {
		switch x := n.(type) {
		case *ast.GoStmt:
			r.needVrt = true
			r.stats["go"]++
			// Go evaluates the function value and the arguments in the calling goroutine, at the go
			// statement: bind them to temporaries there (literals, nil/true/false and plain function
			// names stay in place: a literal may be untyped, and rebinding it would fix its type).
			var pre []string
			if _, lit := x.Call.Fun.(*ast.FuncLit); !lit {
				if sel, ok := x.Call.Fun.(*ast.SelectorExpr); ok && !isPkgName(r, sel.X) {
					pre = append(pre, "_vgf := "+r.text(x.Call.Fun))
					r.replace(x.Call.Fun.Pos(), x.Call.Fun.End(), "_vgf")
				}
			}
			for i, a := range x.Call.Args {
				switch t := a.(type) {
				case *ast.BasicLit:
					continue
				case *ast.Ident:
					if t.Name == "nil" || t.Name == "true" || t.Name == "false" {
						continue
					}
				case *ast.FuncLit:
					continue
				}
				pre = append(pre, fmt.Sprintf("_vga%d := %s", i, r.text(a)))
				r.replace(a.Pos(), a.End(), fmt.Sprintf("_vga%d", i))
			}
			if len(pre) == 0 {
				r.replace(x.Go, x.Call.Pos(), goFunc+"(func() { ")
				r.insert(x.End(), " })")
			} else {
				r.replace(x.Go, x.Call.Pos(), "{ "+strings.Join(pre, "; ")+"; "+goFunc+"(func() { ")
				r.insert(x.End(), " }) }")
			}
			r.skipGoArgs(x)
		case *ast.ChanType:
			r.needVrt = true
			r.stats["chantype"]++
			r.replace(x.Pos(), x.Value.Pos(), "*vrt.Chan[")
			r.insert(x.Value.End(), "]")
		case *ast.SendStmt:
			if r.skip[x] {
				return false
			}
			r.needVrt = true
			r.stats["send"]++
			r.insert(x.Pos(), "vrt.Send(")
			r.replace(x.Chan.End(), x.Value.Pos(), ", ")
			r.insert(x.End(), ")")
		case *ast.UnaryExpr:
			if x.Op == token.ARROW {
				r.needVrt = true
				r.stats["recv"]++
				r.replace(x.OpPos, x.X.Pos(), "vrt.Recv(")
				r.insert(x.X.End(), ")")
			}
		case *ast.AssignStmt:
			// v, ok := <-ch
			if len(x.Lhs) == 2 && len(x.Rhs) == 1 {
				if u, ok := x.Rhs[0].(*ast.UnaryExpr); ok && u.Op == token.ARROW {
					r.needVrt = true
					r.stats["recv2"]++
					r.replace(u.OpPos, u.X.Pos(), "vrt.Recv2(")
					r.insert(u.X.End(), ")")
					// prevent the generic UnaryExpr rule from firing on u
					u.Op = token.ILLEGAL
				}
			}
		case *ast.CallExpr:
			if sel, ok := x.Fun.(*ast.SelectorExpr); ok && (sel.Sel.Name == "TryLock" || sel.Sel.Name == "TryRLock") && len(x.Args) == 0 {
				sawTryLock = true // the state of a lock is observable without blocking: see the generated vrt file below
			}
			if id, ok := x.Fun.(*ast.Ident); ok && id.Obj == nil {
				switch id.Name {
				case "close":
					if len(x.Args) == 1 {
						r.needVrt = true
						r.stats["close"]++
						r.replace(id.Pos(), id.End(), "vrt.Close")
					}
				case "make":
					if len(x.Args) >= 1 {
						if ct, ok := x.Args[0].(*ast.ChanType); ok {
							r.needVrt = true
							r.stats["makechan"]++
							elem := r.text(ct.Value)
							if len(x.Args) == 1 {
								r.replace(x.Pos(), x.End(), "vrt.MakeChan["+elem+"](0)")
							} else {
								r.replace(x.Pos(), x.Args[1].Pos(), "vrt.MakeChan["+elem+"](")
							}
							return false // the ChanType inside is consumed
						}
					}
				case "len", "cap":
					if len(x.Args) == 1 {
						if _, ok := under(r.typeOf(x.Args[0])).(*types.Chan); ok {
							r.fail(x, "len/cap of a channel is not supported by the virtualiser")
						}
					}
				}
			}
			// rand.Int() % n  is handled at the BinaryExpr
		case *ast.BinaryExpr:
			if x.Op == token.REM && randName != "" {
				if c, ok := x.X.(*ast.CallExpr); ok && len(c.Args) == 0 {
					if s, ok := c.Fun.(*ast.SelectorExpr); ok && s.Sel.Name == "Int" {
						if id, ok := s.X.(*ast.Ident); ok && id.Name == randName {
							r.stats["rand.Int()%n"]++
							r.replace(x.Pos(), x.Y.Pos(), randName+".IntMod(")
							r.insert(x.End(), ")")
							return true
						}
					}
				}
			}
		case *ast.SelectStmt:
			r.needVrt = true
			r.stats["select"]++
			r.rewriteSelect(x)
		case *ast.RangeStmt:
			t := under(r.typeOf(x.X))
			if t == nil {
				if tp, ok := r.typeOf(x.X).(*types.TypeParam); ok {
					_ = tp
				}
			}
			switch tt := t.(type) {
			case *types.Chan:
				r.needVrt = true
				r.stats["range-chan"]++
				if labeled[x] {
					r.fail(x, "labeled range over a channel is not supported")
				}
				v := "_"
				if x.Key != nil {
					v = r.text(x.Key)
				}
				asg := ":="
				if x.Tok == token.ASSIGN {
					r.fail(x, "range over channel with = is not supported")
				}
				_ = asg
				r.replace(x.For, x.Body.Lbrace+1, fmt.Sprintf("for { %s, _vok := vrt.Recv2(%s); if !_vok { break }; _ = %s;", vName(v), r.text(x.X), vName(v)))
			case *types.Map:
				r.needVrt = true
				r.stats["range-map"]++
				r.rewriteRangeMap(x, labeled[x])
			default:
				_ = tt
				if t == nil && r.info != nil {
					// could not type the operand: be safe
					if _, isIdent := x.X.(*ast.Ident); !isIdent {
						// leave as is; slices/strings/ints need no rewriting
					}
				}
			}
		}
		return true
	})
	if r.needVrt {
		r.insert(r.file.Name.End(), "; import vrt "+q(shimRoot+"vrt"))
	}
}

// isPkgName reports whether e is an identifier that names an imported package (pkg.Func is a plain
// function name, not a method value).
func isPkgName(r *fileRewriter, e ast.Expr) bool {
	id, ok := e.(*ast.Ident)
	if !ok {
		return false
	}
	for _, im := range r.file.Imports {
		name := ""
		if im.Name != nil {
			name = im.Name.Name
		} else {
			p := strings.Trim(im.Path.Value, `"`)
			name = p[strings.LastIndex(p, "/")+1:]
		}
		if name == id.Name {
			return id.Obj == nil
		}
	}
	return false
}

// skipGoArgs: argument expressions that were moved into temporaries are rewritten as part of the
// moved text only if they contain no construct of their own; a receive or a nested go inside an
// argument of a go statement is not supported.
func (r *fileRewriter) skipGoArgs(x *ast.GoStmt) {
	for _, a := range x.Call.Args {
		ast.Inspect(a, func(n ast.Node) bool {
			switch y := n.(type) {
			case *ast.UnaryExpr:
				if y.Op == token.ARROW {
					r.fail(y, "channel receive inside an argument of a go statement is not supported")
				}
			case *ast.FuncLit:
				return false
			}
			return true
		})
	}
}

func vName(v string) string {
	if v == "_" {
		return "_vx"
	}
	return v
}

func (r *fileRewriter) rewriteRangeMap(x *ast.RangeStmt, labeled bool) {
	if x.Key == nil && x.Value == nil {
		// `for range m`: only the count matters
		return
	}
	m := r.text(x.X)
	pre := ""
	if !simpleExpr(x.X) {
		if labeled {
			r.fail(x, "labeled range over a non-trivial map expression is not supported")
		}
		pre = "_vm := " + m + "; "
		m = "_vm"
	}
	key := "_vk"
	if x.Key != nil && r.text(x.Key) != "_" {
		key = r.text(x.Key)
	}
	var hdr string
	if x.Tok == token.DEFINE {
		hdr = fmt.Sprintf("for _, %s := range vrt.MapOrder(%s) {", key, m)
		if x.Value != nil && r.text(x.Value) != "_" {
			hdr += fmt.Sprintf(" %s, _vok := %s[%s]; if !_vok { continue };", r.text(x.Value), m, key)
		} else {
			hdr += fmt.Sprintf(" if _, _vok := %s[%s]; !_vok { continue };", m, key)
		}
		if key == "_vk" {
			hdr += " _ = _vk;"
		}
	} else {
		hdr = fmt.Sprintf("for _, _vk := range vrt.MapOrder(%s) {", m)
		if x.Key != nil && r.text(x.Key) != "_" {
			hdr += fmt.Sprintf(" %s = _vk;", r.text(x.Key))
		}
		if x.Value != nil && r.text(x.Value) != "_" {
			hdr += fmt.Sprintf(" { _vv, _vok := %s[_vk]; if !_vok { continue }; %s = _vv };", m, r.text(x.Value))
		} else {
			hdr += fmt.Sprintf(" if _, _vok := %s[_vk]; !_vok { continue };", m)
		}
	}
	if pre != "" {
		// open an extra block that the closing brace insertion below terminates
		r.replace(x.For, x.Body.Lbrace+1, "{ "+pre+hdr)
		r.insert(x.Body.Rbrace+1, " }")
		return
	}
	r.replace(x.For, x.Body.Lbrace+1, hdr)
}

func (r *fileRewriter) rewriteSelect(x *ast.SelectStmt) {
	if len(x.Body.List) == 0 {
		r.replace(x.Pos(), x.End(), "vrt.BlockForever()")
		return
	}
	var cases []string
	hasDefault := false
	idx := 0
	for _, st := range x.Body.List {
		cc := st.(*ast.CommClause)
		if cc.Comm == nil {
			hasDefault = true
			continue // `default:` stays a default of the switch
		}
		var recv *ast.UnaryExpr
		bind := ""
		switch c := cc.Comm.(type) {
		case *ast.ExprStmt:
			u, ok := c.X.(*ast.UnaryExpr)
			if !ok || u.Op != token.ARROW {
				r.fail(cc, "unsupported select case")
			}
			recv = u
		case *ast.AssignStmt:
			u, ok := c.Rhs[0].(*ast.UnaryExpr)
			if !ok || (u.Op != token.ARROW && u.Op != token.ILLEGAL) {
				r.fail(cc, "unsupported select case")
			}
			recv = u
			asg := ":="
			if c.Tok == token.ASSIGN {
				asg = "="
			}
			ch := r.text(u.X)
			if len(c.Lhs) == 1 {
				bind = fmt.Sprintf(" %s %s vrt.SelVal(%s, _vsel);", r.text(c.Lhs[0]), asg, ch)
			} else {
				bind = fmt.Sprintf(" %s, %s %s vrt.SelVal(%s, _vsel), vrt.SelOK(_vsel);", r.text(c.Lhs[0]), r.text(c.Lhs[1]), asg, ch)
			}
		case *ast.SendStmt:
			cases = append(cases, fmt.Sprintf("vrt.SendCase(%s, %s)", r.text(c.Chan), r.text(c.Value)))
			r.replace(cc.Case, cc.Colon+1, fmt.Sprintf("case %d:", idx))
			c.Arrow = token.NoPos
			idx++
			// neutralise the generic SendStmt rule
			if r.skip == nil {
				r.skip = map[ast.Node]bool{}
			}
			r.skip[c] = true
			r.neutralise(c)
			continue
		default:
			r.fail(cc, "unsupported select case")
		}
		cases = append(cases, fmt.Sprintf("vrt.RecvCase(%s)", r.text(recv.X)))
		recv.Op = token.ILLEGAL // neutralise the generic receive rule
		r.replace(cc.Case, cc.Colon+1, fmt.Sprintf("case %d:%s", idx, bind))
		r.neutralise(cc.Comm)
		idx++
	}
	r.replace(x.Select, x.Body.Lbrace+1, fmt.Sprintf("switch _vsel := vrt.Select(%t, %s); _vsel.Index {", hasDefault, strings.Join(cases, ", ")))
}

// neutralise drops edits already queued strictly inside n (its text is replaced wholesale).
func (r *fileRewriter) neutralise(n ast.Node) {
	lo, hi := r.off(n.Pos()), r.off(n.End())
	out := r.edits[:0]
	for _, e := range r.edits {
		if e.pos >= lo && e.end <= hi {
			continue
		}
		out = append(out, e)
	}
	r.edits = out
	// and mark nested nodes so later visits do not add new ones
	ast.Inspect(n, func(m ast.Node) bool {
		switch y := m.(type) {
		case *ast.UnaryExpr:
			if y.Op == token.ARROW {
				y.Op = token.ILLEGAL
			}
		}
		return true
	})
}

func (r *fileRewriter) apply() []byte {
	sort.SliceStable(r.edits, func(i, j int) bool {
		if r.edits[i].pos != r.edits[j].pos {
			return r.edits[i].pos < r.edits[j].pos
		}
		// insertions before replacements at the same offset; among insertions keep queue order
		ai, aj := r.edits[i].pos == r.edits[i].end, r.edits[j].pos == r.edits[j].end
		if ai != aj {
			return ai
		}
		return r.edits[i].seq < r.edits[j].seq
	})
	var out []byte
	cur := 0
	for _, e := range r.edits {
		if e.pos < cur {
			fmt.Fprintf(os.Stderr, "vinstr: %s: overlapping rewrites at offset %d (%q)\n", r.path, e.pos, e.text)
			os.Exit(2)
		}
		out = append(out, r.src[cur:e.pos]...)
		out = append(out, e.text...)
		cur = e.end
	}
	out = append(out, r.src[cur:]...)
	return out
}

func main() {
	repo := flag.String("repo", "/repo", "gogu working tree")
	out := flag.String("out", "", "scratch directory for rewritten files and overlay.json")
	verif := flag.String("verif", "/verif", "verif root (source of the virtual packages)")
	mode := flag.String("mode", "full", "full: everything; seams: only map order and math/rand (for the pure harness)")
	extra := flag.String("extra", "", "comma-separated dir=name: rewrite the plain-Go package in dir into the virtual package vrtshim/<name> (conformance programs)")
	flag.Parse()
	if *out == "" {
		fmt.Fprintln(os.Stderr, "vinstr: -out required")
		os.Exit(2)
	}
	os.MkdirAll(*out, 0o755)
	cmd := exec.Command("go", "list", "-export", "-deps", "-json", "./...")
	cmd.Dir = *repo
	cmd.Stderr = os.Stderr
	raw, err := cmd.Output()
	if err != nil {
		fmt.Fprintln(os.Stderr, "vinstr: go list failed:", err)
		os.Exit(2)
	}
	dec := json.NewDecoder(strings.NewReader(string(raw)))
	pkgs := map[string]*listPkg{}
	var order []*listPkg
	for {
		var p listPkg
		if err := dec.Decode(&p); err == io.EOF {
			break
		} else if err != nil {
			fmt.Fprintln(os.Stderr, "vinstr: decoding go list:", err)
			os.Exit(2)
		}
		pp := p
		pkgs[p.ImportPath] = &pp
		order = append(order, &pp)
	}
	fset := token.NewFileSet()
	imp := importer.ForCompiler(fset, "gc", func(path string) (io.ReadCloser, error) {
		p, ok := pkgs[path]
		if !ok || p.Export == "" {
			return nil, fmt.Errorf("no export data for %s", path)
		}
		return os.Open(p.Export)
	})
	overlay := map[string]string{}
	total := map[string]int{}
	rewritePkg := func(p *listPkg, virtualDir string) {
		var files []*ast.File
		var paths []string
		srcs := map[string][]byte{}
		for _, f := range p.GoFiles {
			full := filepath.Join(p.Dir, f)
			src, err := os.ReadFile(full)
			if err != nil {
				fmt.Fprintln(os.Stderr, "vinstr:", err)
				os.Exit(2)
			}
			af, err := parser.ParseFile(fset, full, src, parser.ParseComments)
			if err != nil {
				fmt.Fprintln(os.Stderr, "vinstr: parse:", err)
				os.Exit(2)
			}
			files = append(files, af)
			paths = append(paths, full)
			srcs[full] = src
		}
		info := &types.Info{Types: map[ast.Expr]types.TypeAndValue{}}
		conf := types.Config{Importer: imp, Error: func(error) {}}
		conf.Check(p.ImportPath, fset, files, info) // best effort: errors leave some expressions untyped
		for i, af := range files {
			r := &fileRewriter{fset: fset, file: af, src: srcs[paths[i]], info: info, path: paths[i], stats: map[string]int{}}
			if *mode == "seams" {
				r.rewriteSeams()
			} else {
				r.rewrite()
			}
			if len(r.edits) == 0 && virtualDir == "" {
				continue
			}
			res := r.apply()
			rel, _ := filepath.Rel(p.Dir, paths[i])
			var dst, key string
			if virtualDir != "" {
				dst = filepath.Join(*out, "vrtshim", filepath.Base(virtualDir), rel)
				key = filepath.Join(virtualDir, rel)
			} else {
				relRepo, _ := filepath.Rel(*repo, paths[i])
				dst = filepath.Join(*out, "src", relRepo)
				key = paths[i]
			}
			os.MkdirAll(filepath.Dir(dst), 0o755)
			if err := os.WriteFile(dst, res, 0o644); err != nil {
				fmt.Fprintln(os.Stderr, "vinstr:", err)
				os.Exit(2)
			}
			overlay[key] = dst
			for k, v := range r.stats {
				total[k] += v
			}
		}
	}
	for _, p := range order {
		if p.Module != nil && p.Module.Path == "github.com/esimov/gogu" && !strings.Contains(p.ImportPath, "/vrtshim/") {
			rewritePkg(p, "")
		}
	}
	if *mode == "full" {
		if sf, ok := pkgs["golang.org/x/sync/singleflight"]; ok {
			rewritePkg(sf, filepath.Join(*repo, "vrtshim", "singleflight"))
		}
	}
	if *mode == "full" && *extra != "" {
		goFunc = "vrt.Go"
		for _, ex := range strings.Split(*extra, ",") {
			dir, name, ok := strings.Cut(ex, "=")
			if !ok {
				fmt.Fprintln(os.Stderr, "vinstr: -extra wants dir=name")
				os.Exit(2)
			}
			files, _ := filepath.Glob(filepath.Join(dir, "*.go"))
			p := &listPkg{ImportPath: shimRoot + name, Dir: dir}
			for _, f := range files {
				if !strings.HasSuffix(f, "_test.go") {
					p.GoFiles = append(p.GoFiles, filepath.Base(f))
				}
			}
			rewritePkg(p, filepath.Join(*repo, "vrtshim", name))
		}
	}
	// virtual packages
	for _, pkg := range []string{"vrt", "vsync", "vtime", "vruntime", "vrand", "vatomic", "vcontext", "vmaphash", "vrand2"} {
		files, _ := filepath.Glob(filepath.Join(*verif, "vrt", pkg, "*.go"))
		for _, f := range files {
			if strings.HasSuffix(f, "_test.go") {
				continue
			}
			overlay[filepath.Join(*repo, "vrtshim", pkg, filepath.Base(f))] = f
		}
	}
	if sawTryLock {
		gen := filepath.Join(*out, "zz_trylock_gen.go")
		os.WriteFile(gen, []byte("//go:build verif\n\npackage vrt\n\nfunc init() { LockStateObservable = true }\n"), 0o644)
		overlay[filepath.Join(*repo, "vrtshim", "vrt", "zz_trylock_gen.go")] = gen
	}
	b, _ := json.MarshalIndent(map[string]any{"Replace": overlay}, "", " ")
	if err := os.WriteFile(filepath.Join(*out, "overlay.json"), b, 0o644); err != nil {
		fmt.Fprintln(os.Stderr, "vinstr:", err)
		os.Exit(2)
	}
	sb, _ := json.MarshalIndent(total, "", " ")
	os.WriteFile(filepath.Join(*out, "inventory.json"), sb, 0o644)
}

// rewriteSeams only installs the map-order and math/rand seams.
func (r *fileRewriter) rewriteSeams() {
	randName := ""
	for _, im := range r.file.Imports {
		if strings.Trim(im.Path.Value, `"`) == "math/rand" {
			randName = "rand"
			if im.Name != nil {
				randName = im.Name.Name
				r.replace(im.Path.Pos(), im.Path.End(), q(shimRoot+"vrand"))
			} else {
				r.replace(im.Path.Pos(), im.Path.End(), "rand "+q(shimRoot+"vrand"))
			}
			r.stats["import:math/rand"]++
		}
	}
	labeled := map[ast.Stmt]bool{}
	ast.Inspect(r.file, func(n ast.Node) bool {
		if l, ok := n.(*ast.LabeledStmt); ok {
			labeled[l.Stmt] = true
		}
		return true
	})
	ast.Inspect(r.file, func(n ast.Node) bool {
		switch x := n.(type) {
		case *ast.BinaryExpr:
			if x.Op == token.REM && randName != "" {
				if c, ok := x.X.(*ast.CallExpr); ok && len(c.Args) == 0 {
					if s, ok := c.Fun.(*ast.SelectorExpr); ok && s.Sel.Name == "Int" {
						if id, ok := s.X.(*ast.Ident); ok && id.Name == randName {
							r.stats["rand.Int()%n"]++
							r.replace(x.Pos(), x.Y.Pos(), randName+".IntMod(")
							r.insert(x.End(), ")")
						}
					}
				}
			}
		case *ast.RangeStmt:
			if _, ok := under(r.typeOf(x.X)).(*types.Map); ok {
				r.needVrt = true
				r.stats["range-map"]++
				r.rewriteRangeMap(x, labeled[x])
			}
		}
		return true
	})
	if r.needVrt {
		r.insert(r.file.Name.End(), "; import vrt "+q(shimRoot+"vrt"))
	}
}
