//go:build !verif

package main

const seamNote = "built WITHOUT the map-order/rand seams: helpers ran with the runtime's own map iteration order and math/rand"

// withChoices runs body once per choice sequence of the seams; without the
// overlay there are no seams and body runs once.
func withChoices(limit int, body func()) (runs int, complete bool) {
	body()
	return 1, true
}

const seams = false
