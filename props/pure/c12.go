package main

import (
	"fmt"
	"math"

	"github.com/esimov/gogu"
	"verif/enum"
)

// C12 — reshaping helpers conserve elements and order.

func init() { registry["C12"] = c12 }

type pred struct {
	name string
	mk   func() func(int) bool // fresh closure per call (one predicate is stateful)
}

var preds = []pred{
	{"true", func() func(int) bool { return func(int) bool { return true } }},
	{"false", func() func(int) bool { return func(int) bool { return false } }},
	{"x==0", func() func(int) bool { return func(x int) bool { return x == 0 } }},
	{"x!=0", func() func(int) bool { return func(x int) bool { return x != 0 } }},
	{"x>0", func() func(int) bool { return func(x int) bool { return x > 0 } }},
}

func c12(r *R) {
	L := 7
	if thorough {
		L = 10
	}
	alpha := []int{0, 1, 2}
	all := enum.AllSlices(alpha, L)
	r.Sample(fmt.Sprintf("every []int of length <= %d over %v: %d slices", L, alpha, len(all)))
	for _, s := range all {
		ws := fmt.Sprint(s)
		// Chunk
		for size := 1; size <= L+1; size++ {
			var got [][]int
			p, msg := enum.Try(func() { got = gogu.Chunk(cp(s), size) })
			r.Eval("Chunk")
			wit := fmt.Sprintf("Chunk(%v,%d)", s, size)
			if p {
				r.Bad("Chunk/panic", wit, "panicked: %s", msg)
				continue
			}
			var cat []int
			okShape := true
			for i, c := range got {
				cat = append(cat, c...)
				if len(c) == 0 || len(c) > size || (i < len(got)-1 && len(c) != size) {
					okShape = false
				}
			}
			if !eqSlice(cat, s) {
				r.Bad("Chunk/concatenation-differs-from-input", wit, "got %v", got)
			} else if !okShape {
				r.Bad("Chunk/chunk-lengths", wit, "got %v: every chunk must have length %d except a shorter non-empty last one", got, size)
			}
			if len(s) > size && len(s)%size != 0 {
				r.Nontrivial("chunk" + ws + fmt.Sprint(size))
			}
		}
		for _, size := range []int{0, -1} {
			p, _ := enum.Try(func() { gogu.Chunk(cp(s), size) })
			r.Eval("Chunk")
			if !p {
				r.Bad("Chunk/non-positive-size-accepted", fmt.Sprintf("Chunk(%v,%d)", s, size), "did not panic (documented rejection)")
			}
		}
		// Drop
		for n := -9; n <= 9; n++ {
			var got []int
			p, msg := enum.Try(func() { got = gogu.Drop(cp(s), n) })
			r.Eval("Drop")
			wit := fmt.Sprintf("Drop(%v,%d)", s, n)
			if p {
				r.Bad("Drop/panic", wit, "panicked: %s", msg)
				continue
			}
			k := n
			if k < 0 {
				k = -k
			}
			if k > len(s) {
				k = len(s)
			}
			want := s[k:]
			if n < 0 {
				want = s[:len(s)-k]
			}
			if !eqSlice(got, want) {
				cls := "front"
				if n < 0 {
					cls = "back"
				}
				if k == len(s) {
					cls += "-all"
				}
				r.Bad("Drop/wrong/"+cls, wit, "got %v, want %v", got, want)
			}
			if n != 0 && k < len(s) {
				r.Nontrivial("drop" + ws + fmt.Sprint(n))
			}
		}
		// predicate-based splitters
		for _, p := range preds {
			var yes, no []int
			f := p.mk()
			for _, v := range s {
				if f(v) {
					yes = append(yes, v)
				} else {
					no = append(no, v)
				}
			}
			wit := func(fn string) string { return fmt.Sprintf("%s(%v,%s)", fn, s, p.name) }
			part := gogu.Partition(cp(s), p.mk())
			r.Eval("Partition")
			if !eqSlice(part[0], yes) || !eqSlice(part[1], no) {
				r.Bad("Partition/wrong", wit("Partition"), "got %v, want [%v %v]", part, yes, no)
			}
			fl := gogu.Filter(cp(s), p.mk())
			r.Eval("Filter")
			if !eqSlice(fl, yes) {
				r.Bad("Filter/wrong", wit("Filter"), "got %v, want %v", fl, yes)
			}
			rj := gogu.Reject(cp(s), p.mk())
			r.Eval("Reject")
			if !eqSlice(rj, no) {
				r.Bad("Reject/wrong", wit("Reject"), "got %v, want %v", rj, no)
			}
			dw := gogu.DropWhile(cp(s), p.mk())
			r.Eval("DropWhile")
			if !eqSlice(dw, no) {
				r.Bad("DropWhile/wrong", wit("DropWhile"), "got %v, want %v", dw, no)
			}
			dr := gogu.DropRightWhile(cp(s), p.mk())
			r.Eval("DropRightWhile")
			rno := cp(no)
			for i, j := 0, len(rno)-1; i < j; i, j = i+1, j-1 {
				rno[i], rno[j] = rno[j], rno[i]
			}
			if !eqSlice(dr, rno) {
				r.Bad("DropRightWhile/wrong", wit("DropRightWhile"), "got %v, want %v", dr, rno)
			}
			if len(yes) > 0 && len(no) > 0 {
				r.Nontrivial("pred" + ws + p.name)
			}
		}
		// GroupBy
		for _, k := range []struct {
			name string
			f    func(int) int
		}{{"id", func(x int) int { return x }}, {"mod2", func(x int) int { return x % 2 }}, {"const", func(int) int { return 9 }}} {
			got := gogu.GroupBy(cp(s), k.f)
			r.Eval("GroupBy")
			want := map[int][]int{}
			for _, v := range s {
				want[k.f(v)] = append(want[k.f(v)], v)
			}
			ok := len(got) == len(want)
			for key, g := range want {
				if !eqSlice(got[key], g) {
					ok = false
				}
			}
			if !ok {
				r.Bad("GroupBy/wrong", fmt.Sprintf("GroupBy(%v,%s)", s, k.name), "got %v, want %v", got, want)
			}
		}
		// Reverse involution + exact
		rv := gogu.Reverse(cp(s))
		r.Eval("Reverse")
		okRev := len(rv) == len(s)
		for i := range s {
			if okRev && rv[len(s)-1-i] != s[i] {
				okRev = false
			}
		}
		if !okRev {
			r.Bad("Reverse/wrong", fmt.Sprintf("Reverse(%v)", s), "got %v", rv)
		}
		if !eqSlice(gogu.Reverse(cp(rv)), s) {
			r.Bad("Reverse/not-an-involution", fmt.Sprintf("Reverse(Reverse(%v))", s), "got %v", gogu.Reverse(cp(rv)))
		}
		// Map / ForEach / ForEachRight / Reduce visit order
		var logM, logF, logR, logD []int
		idx := 0
		m := gogu.Map(cp(s), func(v int) int { logM = append(logM, v); idx++; return v*10 + 1 })
		r.Eval("Map")
		gogu.ForEach(cp(s), func(v int) { logF = append(logF, v) })
		r.Eval("ForEach")
		gogu.ForEachRight(cp(s), func(v int) { logR = append(logR, v) })
		r.Eval("ForEachRight")
		acc := gogu.Reduce(cp(s), func(v int, a []int) []int { logD = append(logD, v); return append(a, v) }, []int{})
		r.Eval("Reduce")
		rs := cp(s)
		for i, j := 0, len(rs)-1; i < j; i, j = i+1, j-1 {
			rs[i], rs[j] = rs[j], rs[i]
		}
		okMap := len(m) == len(s)
		for i := range s {
			okMap = okMap && m[i] == s[i]*10+1
		}
		if !eqSlice(logM, s) || !okMap {
			r.Bad("Map/visit-order-or-result", fmt.Sprintf("Map(%v)", s), "visited %v, result %v", logM, m)
		}
		if !eqSlice(logF, s) {
			r.Bad("ForEach/visit-order", fmt.Sprintf("ForEach(%v)", s), "visited %v", logF)
		}
		if !eqSlice(logR, rs) {
			r.Bad("ForEachRight/visit-order", fmt.Sprintf("ForEachRight(%v)", s), "visited %v, want %v", logR, rs)
		}
		if !eqSlice(logD, s) || !eqSlice(acc, s) {
			r.Bad("Reduce/visit-order-or-result", fmt.Sprintf("Reduce(%v)", s), "visited %v, accumulated %v", logD, acc)
		}
		// Shuffle: every rand answer -> permutation, source untouched
		if len(s) <= 5 {
			src := cp(s)
			perms := map[string]bool{}
			runs, _ := withChoices(0, func() {
				out := gogu.Shuffle(src)
				r.Eval("Shuffle")
				if !samePerm(out, s) {
					r.Bad("Shuffle/not-a-permutation", fmt.Sprintf("Shuffle(%v)", s), "got %v", out)
				}
				if !eqSlice(src, s) {
					r.Bad("Shuffle/modifies-source", fmt.Sprintf("Shuffle(%v)", s), "source became %v", src)
				}
				perms[fmt.Sprint(out)] = true
			})
			if seams && len(s) >= 2 {
				// across all n! draw sequences every permutation of the (multi)set must be reachable
				if want := distinctPerms(s); len(perms) != want {
					r.Bad("Shuffle/not-every-permutation-reachable", fmt.Sprintf("Shuffle(%v)", s), "%d distinct results over %d draw sequences, want %d", len(perms), runs, want)
				}
			}
		}
	}
	c12Merge(r, alpha)
	c12Zip(r)
	c12Flatten(r)
	c12ReverseStr(r)
}

func samePerm(a, b []int) bool {
	if len(a) != len(b) {
		return false
	}
	cnt := map[int]int{}
	for _, v := range a {
		cnt[v]++
	}
	for _, v := range b {
		cnt[v]--
	}
	for _, c := range cnt {
		if c != 0 {
			return false
		}
	}
	return true
}

func distinctPerms(s []int) int {
	f := func(n int) int {
		r := 1
		for i := 2; i <= n; i++ {
			r *= i
		}
		return r
	}
	cnt := map[int]int{}
	for _, v := range s {
		cnt[v]++
	}
	n := f(len(s))
	for _, c := range cnt {
		n /= f(c)
	}
	return n
}

func c12Merge(r *R, alpha []int) {
	short := enum.AllSlices(alpha, 3)
	for _, a := range short {
		g := gogu.Merge(cp(a))
		r.Eval("Merge")
		if !eqSlice(g, a) {
			r.Bad("Merge/not-concatenation", fmt.Sprintf("Merge(%v)", a), "got %v", g)
		}
		for _, b := range short {
			g := gogu.Merge(cp(a), cp(b))
			r.Eval("Merge")
			if want := append(cp(a), b...); !eqSlice(g, want) {
				r.Bad("Merge/not-concatenation", fmt.Sprintf("Merge(%v,%v)", a, b), "got %v, want %v", g, want)
			}
			for _, c := range short {
				g := gogu.Merge(cp(a), cp(b), cp(c))
				r.Eval("Merge")
				if want := append(append(cp(a), b...), c...); !eqSlice(g, want) {
					r.Bad("Merge/not-concatenation", fmt.Sprintf("Merge(%v,%v,%v)", a, b, c), "got %v, want %v", g, want)
				}
				if len(a) > 0 && len(b) > 0 && len(c) > 0 {
					r.Nontrivial("merge" + fmt.Sprint(a, b, c))
				}
			}
		}
	}
}

func c12Zip(r *R) {
	vals := []int{0, 1}
	// all matrices with 0..3 rows of lengths 0..3 (ragged included)
	rows := enum.AllSlices(vals, 3)
	var mats [][][]int
	mats = append(mats, [][]int{})
	for _, a := range rows {
		mats = append(mats, [][]int{a})
		for _, b := range rows {
			mats = append(mats, [][]int{a, b})
			for _, c := range rows {
				mats = append(mats, [][]int{a, b, c})
			}
		}
	}
	for _, m := range mats {
		square := true
		for _, row := range m {
			if len(row) != len(m) {
				square = false
			}
		}
		for _, fn := range []string{"Zip", "Unzip"} {
			in := make([][]int, len(m))
			for i := range m {
				in[i] = cp(m[i])
			}
			var got [][]int
			p, msg := enum.Try(func() {
				if fn == "Zip" {
					got = gogu.Zip(in...)
				} else {
					got = gogu.Unzip(in...)
				}
			})
			r.Eval(fn)
			wit := fmt.Sprintf("%s(%v)", fn, m)
			if !square {
				if !p {
					r.Bad(fn+"/non-square-accepted", wit, "returned %v instead of rejecting (panic is this API's rejection)", got)
				}
				continue
			}
			if p {
				r.Bad(fn+"/panic-on-square-matrix", wit, "panicked: %s", msg)
				continue
			}
			ok := len(got) == len(m)
			for i := range m {
				ok = ok && len(got[i]) == len(m)
				for j := range m {
					ok = ok && got[i][j] == m[j][i]
				}
			}
			if !ok {
				r.Bad(fn+"/not-the-transpose", wit, "got %v", got)
				continue
			}
			// round trip
			var back [][]int
			if fn == "Zip" {
				back = gogu.Unzip(got...)
			} else {
				back = gogu.Zip(got...)
			}
			r.Eval("Zip∘Unzip")
			if fmt.Sprint(back) != fmt.Sprint(m) && len(m) > 0 {
				r.Bad(fn+"/round-trip", wit, "undoing gives %v, want %v", back, m)
			}
			if len(m) >= 2 {
				r.Nontrivial(fn + fmt.Sprint(m))
			}
		}
	}
}

func c12Flatten(r *R) {
	depth, leaves := 2, 4
	if thorough {
		depth, leaves = 3, 5
	}
	c12FlattenDeep(r)
	c12Stateful(r)
	c12Large(r)
	for _, n := range nestings(depth, leaves, true) {
		var got []int
		var err error
		p, msg := enum.Try(func() { got, err = gogu.Flatten[int](n.v) })
		r.Eval("Flatten")
		wit := "Flatten[int](" + n.text + ")"
		switch {
		case p:
			r.Bad("Flatten/panic", wit, "panicked: %s", msg)
		case n.bad && err == nil:
			r.Bad("Flatten/malformed-nesting-yields-no-error", wit, "returned (%v, nil)", got)
		case !n.bad && (err != nil || !eqSlice(got, n.leaves)):
			r.Bad("Flatten/not-leaves-left-to-right", wit, "got (%v,%v), want %v", got, err, n.leaves)
		}
		if len(n.leaves) >= 2 {
			r.Nontrivial("F" + n.text)
		}
		// the same nesting with its []int leaves laid out as consecutive windows of ONE array (each window's
		// spare capacity is the next leaves' storage): the result is still the leaves left to right
		// (round 7: C12-12, the first leaf adopted as the accumulator, later appends land in later leaves)
		if w, k := windowedNest(n.v); !n.bad && k >= 1 {
			var got []int
			var err error
			p, msg := enum.Try(func() { got, err = gogu.Flatten[int](w) })
			r.Eval("Flatten")
			switch {
			case p:
				r.Bad("Flatten/panic/leaves-share-one-array", wit, "panicked: %s", msg)
			case err != nil || !eqSlice(got, n.leaves):
				r.Bad("Flatten/not-leaves-left-to-right/leaves-share-one-array", wit+" with the []int leaves as consecutive windows of one array", "got (%v,%v), want %v", got, err, n.leaves)
			}
		}
	}
}

// windowedNest rebuilds a nesting (int | []int | []any) with every []int leaf replaced by a window of one
// backing array that holds all those leaves one after the other plus three spare slots; k = number of windows.
func windowedNest(v any) (any, int) {
	var all []int
	var collect func(v any)
	collect = func(v any) {
		switch x := v.(type) {
		case []int:
			all = append(all, x...)
		case []any:
			for _, e := range x {
				collect(e)
			}
		}
	}
	collect(v)
	backing := make([]int, len(all), len(all)+3)
	copy(backing, all)
	off, k := 0, 0
	var build func(v any) any
	build = func(v any) any {
		switch x := v.(type) {
		case []int:
			w := backing[off : off+len(x)]
			off += len(x)
			k++
			return w
		case []any:
			out := make([]any, len(x))
			for i, e := range x {
				out[i] = build(e)
			}
			return out
		}
		return v
	}
	return build(v), k
}

// c12FlattenDeep: nestings far deeper than the grammar above reaches. Every "comb" of depth d <= D:
// each level is []any{[leaf,] child [, leaf]} with the same one of four shapes at every level, or with
// two children at one level k and one child elsewhere; leaves are numbered left to right.
func c12FlattenDeep(r *R) {
	D := 24
	if thorough {
		D = 64
	}
	n := 0
	for d := 1; d <= D; d++ {
		for shape := 0; shape < 4; shape++ {
			for fork := 0; fork <= d; fork += 1 + d/6 { // level with two children (0 = none)
				next := 0
				var build func(level int) any
				build = func(level int) any {
					if level == d {
						next++
						return []int{next - 1, next - 1 + 1000}[:1]
					}
					var out []any
					if shape&1 != 0 {
						out = append(out, next)
						next++
					}
					out = append(out, build(level+1))
					if fork != 0 && level == fork-1 {
						out = append(out, build(level+1))
					}
					if shape&2 != 0 {
						out = append(out, next)
						next++
					}
					return out
				}
				v := build(0)
				want := make([]int, next)
				for i := range want {
					want[i] = i
				}
				var got []int
				var err error
				p, msg := enum.Try(func() { got, err = gogu.Flatten[int](v) })
				r.Eval("Flatten")
				n++
				wit := fmt.Sprintf("Flatten of a nesting %d levels deep (shape %d, two children at level %d, %d leaves)", d, shape, fork, next)
				switch {
				case p:
					r.Bad("Flatten/panic/deep-nesting", wit, "panicked: %s", msg)
				case err != nil || !eqSlice(got, want):
					r.Bad("Flatten/not-leaves-left-to-right/deep-nesting", wit, "got (%v,%v), want 0..%d", got, err, next-1)
				}
				if u, err := gogu.Union[int](v); err != nil || !eqSlice(u, want) {
					r.Bad("Union/wrong/deep-nesting", wit, "Union = (%v,%v), want 0..%d", u, err, next-1)
				}
			}
		}
	}
	r.Set("deep_nestings", n)
}

func c12ReverseStr(r *R) {
	// runes of 1, 2, 3 and 4 bytes, incl. U+FFFD (a valid rune that decoders also use as their error value)
	for _, s := range enum.Strings([]string{"a", "é", "b", "日", "\uFFFD", "😀"}, 4) {
		got := gogu.ReverseStr(s)
		r.Eval("ReverseStr")
		rs := []rune(s)
		for i, j := 0, len(rs)-1; i < j; i, j = i+1, j-1 {
			rs[i], rs[j] = rs[j], rs[i]
		}
		if got != string(rs) {
			r.Bad("ReverseStr/not-rune-reversal", fmt.Sprintf("ReverseStr(%q)", s), "got %q, want %q", got, string(rs))
		}
		if gogu.ReverseStr(got) != s {
			r.Bad("ReverseStr/not-an-involution", fmt.Sprintf("ReverseStr(ReverseStr(%q))", s), "got %q", gogu.ReverseStr(got))
		}
		if len(rs) >= 2 {
			r.Nontrivial("rs" + s)
		}
	}
}

// c12Stateful: "the part its predicate or key dictates" -- the verdict the callback gives when it is asked
// about an element. A callback may be stateful (a counter: round-robin buckets, "take the first k", a
// seen-set); the splitters ask it exactly once per element, in order (DropRightWhile: from the right).
// Every slice of distinct values up to length 4 (5) x EVERY sequence of verdicts: the k-th call answers
// verdicts[k], whatever element it is about.
func c12Stateful(r *R) {
	L := 4
	if thorough {
		L = 5
	}
	for n := 0; n <= L; n++ {
		s := make([]int, n)
		for i := range s {
			s[i] = 10 + i
		}
		for mask := 0; mask < 1<<n; mask++ {
			verdict := func(k int) bool { return mask>>k&1 == 1 }
			var yes, no, rno []int
			for i, v := range s {
				if verdict(i) {
					yes = append(yes, v)
				} else {
					no = append(no, v)
				}
			}
			for k := 0; k < n; k++ { // DropRightWhile asks from the right: call k is about element n-1-k
				if !verdict(k) {
					rno = append(rno, s[n-1-k])
				}
			}
			run := func(name string, want []int, call func(fn func(int) bool) []int) {
				calls := 0
				var asked []int
				got := call(func(v int) bool {
					asked = append(asked, v)
					calls++
					return calls <= n && verdict(calls-1)
				})
				r.Eval(name + "/stateful-callback")
				wit := fmt.Sprintf("%s(%v, k-th call answers %0*b read right to left)", name, s, n, mask)
				if calls != n {
					r.Bad(name+"/callback-not-asked-exactly-once-per-element", wit, "the callback was asked %d times about %v, want once per element", calls, asked)
					return
				}
				if !eqSlice(got, want) {
					r.Bad(name+"/wrong-with-stateful-callback", wit, "got %v, want %v (callback asked about %v)", got, want, asked)
				}
			}
			run("Filter", yes, func(fn func(int) bool) []int { return gogu.Filter(cp(s), fn) })
			run("Reject", no, func(fn func(int) bool) []int { return gogu.Reject(cp(s), fn) })
			run("DropWhile", no, func(fn func(int) bool) []int { return gogu.DropWhile(cp(s), fn) })
			run("DropRightWhile", rno, func(fn func(int) bool) []int { return gogu.DropRightWhile(cp(s), fn) })
			run("Partition[0]", yes, func(fn func(int) bool) []int { return gogu.Partition(cp(s), fn)[0] })
			run("Partition[1]", no, func(fn func(int) bool) []int { return gogu.Partition(cp(s), fn)[1] })
			// GroupBy: the k-th call returns bucket verdict(k)
			calls := 0
			got := gogu.GroupBy(cp(s), func(int) int {
				calls++
				if calls <= n && verdict(calls-1) {
					return 1
				}
				return 0
			})
			r.Eval("GroupBy/stateful-callback")
			wit := fmt.Sprintf("GroupBy(%v, k-th call returns bit k of %0*b)", s, n, mask)
			if calls != n {
				r.Bad("GroupBy/callback-not-asked-exactly-once-per-element", wit, "the key function was called %d times, want %d", calls, n)
			} else if !eqSlice(got[1], yes) || !eqSlice(got[0], no) || len(got) != b2i(len(yes) > 0)+b2i(len(no) > 0) {
				r.Bad("GroupBy/wrong-with-stateful-callback", wit, "got %v, want {1:%v 0:%v}", got, yes, no)
			}
		}
	}
	r.Nontrivial("stateful-a")
	r.Nontrivial("stateful-b")
}

func b2i(b bool) int {
	if b {
		return 1
	}
	return 0
}

// c12Large: the reshaping helpers on long inputs and with extreme arguments -- sizes and counts around
// 1024 and 4096 (fast paths for "large"), a chunk size or a drop count at the ends of int ("no limit").
func c12Large(r *R) {
	for _, n := range []int{2, 4, 1023, 1024, 1025, 1500, 4095, 4096, 4097, 5000} {
		s := make([]int, n)
		for i := range s {
			s[i] = i
		}
		// Drop: every count in a list around the thresholds and the length
		for _, k := range []int{0, 1, 2, 9, 10, 1000, 1023, 1024, 1025, n / 2, n - 11, n - 10, n - 1, n, n + 1, math.MaxInt - 1, math.MaxInt} {
			for _, sign := range []int{1, -1} {
				cnt := k * sign
				if k < 0 {
					continue
				}
				var got []int
				p, msg := enum.Try(func() { got = gogu.Drop(cp(s), cnt) })
				r.Eval("Drop/large")
				wit := fmt.Sprintf("Drop([0..%d], %d)", n-1, cnt)
				if p {
					r.Bad("Drop/panic/large", wit, "panicked: %s", msg)
					continue
				}
				kk := k
				if kk > n {
					kk = n
				}
				want := s[kk:]
				if sign < 0 {
					want = s[:n-kk]
				}
				if !eqSlice(got, want) {
					first := -1
					if len(got) > 0 {
						first = got[0]
					}
					r.Bad("Drop/wrong/large", wit, "got %d elements starting with %d, want %d elements", len(got), first, len(want))
				}
			}
		}
		// Chunk: sizes around the length and at the end of int
		for _, size := range []int{1, 2, 3, n - 1, n, n + 1, 1024, 4096, math.MaxInt/2 + 1, math.MaxInt - n, math.MaxInt - 1, math.MaxInt} {
			if size < 1 {
				continue
			}
			var got [][]int
			p, msg := enum.Try(func() { got = gogu.Chunk(cp(s), size) })
			r.Eval("Chunk/large")
			wit := fmt.Sprintf("Chunk([0..%d], %d)", n-1, size)
			if p {
				r.Bad("Chunk/panic/large", wit, "panicked: %s", msg)
				continue
			}
			var cat []int
			ok := true
			for i, c := range got {
				cat = append(cat, c...)
				if len(c) == 0 || len(c) > size || (i < len(got)-1 && len(c) != size) {
					ok = false
				}
			}
			if !eqSlice(cat, s) || !ok {
				r.Bad("Chunk/concatenation-differs-from-input/large", wit, "got %d chunks holding %d elements (chunk lengths ok: %t)", len(got), len(cat), ok)
			}
		}
		// the predicate splitters and Reverse on long inputs
		even := func(v int) bool { return v%2 == 0 }
		var yes, no []int
		for _, v := range s {
			if even(v) {
				yes = append(yes, v)
			} else {
				no = append(no, v)
			}
		}
		r.Eval("splitters/large")
		if part := gogu.Partition(cp(s), even); !eqSlice(part[0], yes) || !eqSlice(part[1], no) {
			r.Bad("Partition/wrong/large", fmt.Sprintf("Partition([0..%d], even)", n-1), "got %d and %d elements", len(part[0]), len(part[1]))
		}
		if !eqSlice(gogu.Filter(cp(s), even), yes) || !eqSlice(gogu.Reject(cp(s), even), no) {
			r.Bad("Filter-Reject/wrong/large", fmt.Sprintf("Filter/Reject([0..%d], even)", n-1), "results differ from the reference")
		}
		rv := gogu.Reverse(cp(s))
		for i := range rv {
			if rv[i] != n-1-i {
				r.Bad("Reverse/wrong/large", fmt.Sprintf("Reverse([0..%d])", n-1), "element %d is %d", i, rv[i])
				break
			}
		}
	}
	r.Nontrivial("large-a")
	r.Nontrivial("large-b")
}
