//go:build verif && !race

package vrt

const RaceBuild = false

func raceDisable() {}
func raceEnable()  {}

func spawn(fn func()) { go fn() }
func releasePool()    {}
