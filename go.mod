module verif

go 1.22

require github.com/esimov/gogu v0.0.0

replace github.com/esimov/gogu => /repo
