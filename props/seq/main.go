// Command seq runs the explicit-state (seqmc) checks: C03 C04 C05 C06 C07 C09 C10 C19.
package main

import (
	"encoding/json"
	"fmt"
	"os"
	"time"

	"verif/core"
	"verif/seqmc"
)

var thorough = core.Tier() == "thorough"

// specs returns the search spaces of one property.
var registry = map[string]func() []*seqmc.Spec{}

func main() {
	if len(os.Args) < 2 {
		fmt.Fprintln(os.Stderr, "usage: seq <property> | seq replay <file>")
		os.Exit(2)
	}
	if os.Args[1] == "replay" {
		os.Exit(replay(os.Args[2]))
	}
	prop := os.Args[1]
	mk, ok := registry[prop]
	if !ok {
		fmt.Fprintln(os.Stderr, "unknown property", prop)
		os.Exit(2)
	}
	rep := core.NewReport(prop)
	rep.Set("engine", "seqmc: explicit-state BFS, transition function = real method call, state key = reflection dump of private heap graph x reference model")
	for _, sp := range mk() {
		if sp.Deadline == 0 {
			sp.Deadline = 20 * time.Minute
			if !thorough {
				sp.Deadline = 4 * time.Minute
			}
		}
		st := sp.Run(rep)
		seqmc.Merge(rep, sp.Component, st)
		fmt.Printf("%s %-14s states=%d transitions=%d cut=%d depth=%d closure=%s\n", prop, sp.Component, st.States, st.Transitions, st.Cut, st.Depth, st.Closure)
	}
	if extra, ok := extras[prop]; ok {
		extra(rep)
	}
	os.Exit(rep.Finish())
}

// extras are additional exhaustive enumerations attached to a property
// (e.g. all insertion orders for the B-tree, all slices for FromSlice/Sort).
var extras = map[string]func(rep *core.Report){}

func replay(file string) int {
	b, err := os.ReadFile(file)
	if err != nil {
		fmt.Fprintln(os.Stderr, err)
		return 2
	}
	var f struct {
		Property string `json:"property"`
		Key      string `json:"key"`
		Replay   json.RawMessage
	}
	if err := json.Unmarshal(b, &f); err != nil {
		fmt.Fprintln(os.Stderr, err)
		return 2
	}
	var ri seqmc.ReplayInfo
	if err := json.Unmarshal(f.Replay, &ri); err != nil || ri.Engine != "seqmc" {
		if r, ok := extraReplay[f.Property]; ok {
			rc := r(f.Key, f.Replay)
			if rc == 1 {
				fmt.Printf("VIOLATION property=%s replay=%s\n", f.Property, file)
			}
			return rc
		}
		fmt.Fprintln(os.Stderr, "not a seqmc replay artefact")
		return 2
	}
	mk := registry[f.Property]
	if mk == nil {
		return 2
	}
	for _, sp := range mk() {
		if sp.Component != ri.Component {
			continue
		}
		fails := sp.Replay(ri.Path)
		fmt.Printf("replay %s %s\n", sp.Component, ri.Path)
		hit := false
		for _, fl := range fails {
			fmt.Printf("  FAIL %s: %s\n", fl.Key, fl.Detail)
			if fl.Key == f.Key {
				hit = true
			}
		}
		if hit {
			fmt.Printf("VIOLATION property=%s replay=%s\n", f.Property, file)
			return 1
		}
		fmt.Println("  not reproduced")
		return 0
	}
	return 2
}

var extraReplay = map[string]func(key string, raw json.RawMessage) int{}

func op(n string, i ...int) seqmc.Op { return seqmc.Op{N: n, I: i} }
