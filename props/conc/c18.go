//go:build verif

package main

import (
	"errors"
	"fmt"
	"os"
	"time"

	"github.com/esimov/gogu"
	"github.com/esimov/gogu/cache"
	"github.com/esimov/gogu/vrtshim/vrt"
	sync "github.com/esimov/gogu/vrtshim/vsync"
	"verif/core"
)

// C18 — Before / After / Once / Retry call counts. Single-threaded programs
// under the controlled runtime: the callback's success/failure is a Choose
// (every pattern enumerated), time is virtual (RetryWithDelay blocks on
// time.After and the discrete-event rule moves the clock).

func init() {
	registry["C18"] = func(rep *core.Report) {
		shards := []string{"after", "before", "once", "once-more", "once-two-caches", "before-more", "retry", "retrydelay"}
		rep.Set("engine", "vrt+explore (choice-only and virtual time): every n in -2..8 x every number of calls 0..12 x every success/failure pattern of the callback (Choose inside the callback) on the real wrappers")
		if !runWorkers(rep, "C18worker", shards, nil) {
			fmt.Fprintln(os.Stderr, "C18: worker failure")
			os.Exit(2)
		}
	}
	subcommands["C18worker"] = c18worker
}

func c18worker(arg string) {
	c := &c20ctx{check: "C18", out: newWorkerOut(), st: &wStats{Shard: arg, MinBound: -1, Extra: map[string]int{}}, states: map[string]struct{}{}}
	c.deadline = time.Now().Add(3 * time.Minute)
	c.budget = 200000
	if thorough {
		c.deadline = time.Now().Add(15 * time.Minute)
		c.budget = 2000000
	}
	switch arg {
	case "after":
		for n := -2; n <= 8; n++ {
			for calls := 0; calls <= 12; calls++ {
				c18after[int](c, n, calls, "int")
				c18after[int8](c, n, calls, "int8")
			}
		}
	case "before":
		for n := -2; n <= 8; n++ {
			for calls := 0; calls <= 12; calls++ {
				c18before(c, n, calls)
			}
		}
		// a callback that calls the wrapper itself, once, from its k-th run (round 7: C18-14)
		for n := -1; n <= 6; n++ {
			for k := 1; k <= n+1; k++ {
				for calls := 1; calls <= n+3; calls++ {
					c18beforeReentrant(c, n, k, calls)
				}
			}
		}
		for n1 := 1; n1 <= 3; n1++ {
			for n2 := -1; n2 <= 4; n2++ {
				for calls := 0; calls <= 6; calls++ {
					c18beforeRounds(c, n1, n2, calls)
				}
			}
		}
	case "once":
		for calls := 1; calls <= 5; calls++ {
			for _, zeroFirst := range []bool{false, true} {
				c18once(c, calls, false, zeroFirst)
				c18once(c, calls, true, zeroFirst)
			}
		}
	case "once-more":
		// other lifetimes, the cache's own cleanup goroutine sweeping between the calls, and a result
		// type whose zero value is an empty (named) string
		mc := 4
		if thorough {
			mc = 5
		}
		for calls := 1; calls <= mc; calls++ {
			for _, lc := range [][2]int{{5, 4}, {7, 4}, {7, 0}, {3, 2}} {
				if lc[1] > 0 && calls > 4 && !thorough {
					continue
				}
				c18onceT(c, calls, lc[0], lc[1], c18ints(false))
			}
			for z := 1; z <= 2; z++ {
				c18onceT(c, calls, 0, 0, c18shouts(z))
				c18onceT(c, calls, 5, 0, c18shouts(z))
			}
			if calls <= 3 {
				c18onceT(c, calls, 7, 4, c18shouts(1))
			}
		}
	case "once-two-caches":
		c18onceTwo(c)
	case "before-more":
		for n1 := 1; n1 <= 3; n1++ {
			for n2 := -1; n2 <= 3; n2++ {
				for calls := 0; calls <= 4; calls++ {
					if thorough || (n1 <= 2 && n2 >= 0 && n2 <= 2 && calls <= 3) {
						c18beforeRoundsT(c, n1, n2, calls, 7, 4, c18ints(false))
					}
					if n2 >= 1 && calls >= n2 {
						c18beforeRoundsG(c, n1, n2, calls, 7, 0, true, c18ints(false))
					}
					for _, z := range []int{n1, n1 + n2, n1 + 1} {
						if z >= 1 {
							c18beforeRoundsT(c, n1, n2, calls, 0, 0, c18shouts(z))
						}
					}
				}
			}
		}
	case "retry":
		for n := -2; n <= 8; n++ {
			c18retry(c, n, false)
		}
	case "retrydelay":
		for n := -2; n <= 8; n++ {
			c18retry(c, n, true)
		}
	}
	c.st.States = len(c.states)
	c.out.stats(*c.st)
}

func c18after[V int | int8](c *c20ctx, n, calls int, tn string) {
	var ran []bool
	name := fmt.Sprintf("After[%s](n=%d, %d calls)", tn, n, calls)
	c.explore(name, 0, func() {
		ran = make([]bool, calls)
		nn := V(n)
		for i := 0; i < calls; i++ {
			i := i
			cnt := 0
			gogu.After(&nn, func() { cnt++ })
			ran[i] = cnt == 1
			if cnt > 1 {
				ran[i] = false
				panic(fmt.Sprintf("callback ran %d times in one call", cnt))
			}
		}
	}, func(x *vrt.Exec) (string, string) {
		for i := 0; i < calls; i++ {
			want := i+1 > n
			if ran[i] != want {
				cls := "runs-too-early"
				if want {
					cls = "suppressed-after-n-calls"
				}
				return "After/" + cls, fmt.Sprintf("n=%d: on call %d the callback ran=%t, want %t", n, i+1, ran[i], want)
			}
		}
		return "", ""
	}, func() any { return fmt.Sprint(ran) })
}

func c18before(c *c20ctx, n, calls int) {
	var runOn []int // invocation number produced on call i (0 = no run)
	var got []int
	name := fmt.Sprintf("Before(n=%d, %d calls)", n, calls)
	c.explore(name, 0, func() {
		runOn, got = make([]int, calls), make([]int, calls)
		ca := cache.New[string, int](cache.DefaultExpiration, cache.NoExpiration)
		nn := n
		inv := 0
		for i := 0; i < calls; i++ {
			i := i
			got[i] = gogu.Before(&nn, ca, func() int { inv++; runOn[i] = inv; return 100 + inv })
		}
	}, func(x *vrt.Exec) (string, string) {
		last := 0
		for i := 0; i < calls; i++ {
			wantRun := i+1 <= n
			if (runOn[i] != 0) != wantRun {
				cls := "runs-after-n-calls"
				if wantRun {
					cls = "does-not-run-within-first-n-calls"
				}
				return "Before/" + cls, fmt.Sprintf("n=%d: on call %d callback ran=%t, want %t", n, i+1, runOn[i] != 0, wantRun)
			}
			want := 0
			if wantRun {
				last = 100 + runOn[i]
			}
			if n > 0 {
				want = last
			}
			if got[i] != want {
				return "Before/wrong-result", fmt.Sprintf("n=%d: call %d returned %d, want %d (result of the last run, zero value when n<=0)", n, i+1, got[i], want)
			}
		}
		return "", ""
	}, func() any { return fmt.Sprint(runOn, got) })
}

// c18beforeReentrant: the callback's k-th run makes one nested call of Before on the same counter and cache.
// The nested call is a call like any other: numbered in the order the calls BEGIN, call j runs the callback
// iff j <= n (only the run count is judged: which result "the last run" is, is ambiguous for nested runs).
func c18beforeReentrant(c *c20ctx, n, k, calls int) {
	var ranOn []bool
	started := 0
	name := fmt.Sprintf("Before(n=%d, %d calls, run %d of the callback calls the wrapper itself)", n, calls, k)
	c.explore(name, 0, func() {
		ranOn = make([]bool, calls+2)
		started = 0
		ca := cache.New[string, int](cache.DefaultExpiration, cache.NoExpiration)
		nn := n
		inv := 0
		nested := false
		var call func() int
		call = func() int {
			started++
			my := started
			return gogu.Before(&nn, ca, func() int {
				inv++
				me := inv
				ranOn[my] = true
				if me == k && !nested {
					nested = true
					call()
				}
				return 100 + me
			})
		}
		for i := 0; i < calls; i++ {
			call()
		}
	}, func(x *vrt.Exec) (string, string) {
		for j := 1; j <= started; j++ {
			if wantRun := j <= n; ranOn[j] != wantRun {
				cls := "runs-after-n-calls"
				if wantRun {
					cls = "does-not-run-within-first-n-calls"
				}
				return "Before/reentrant-callback/" + cls, fmt.Sprintf("n=%d, run %d of the callback makes a nested call: call %d (in the order the calls begin, %d in all) ran the callback=%t, want %t", n, k, j, started, ranOn[j], wantRun)
			}
		}
		return "", ""
	}, func() any { return fmt.Sprint(ranOn[:started+1]) })
}

// zeroFirst: the callback's first result is the zero value of its type (a legitimate result: 0, false,
// nil), later results are distinct non-zero values.
// c18codec: the callback's results as a function of the invocation number, for one result type.
type c18codec[T comparable] struct {
	name string
	enc  func(inv int) T
}

type c18shout string // a named string type: its empty value is an ordinary result

func c18ints(zeroFirst bool) c18codec[int] {
	if zeroFirst {
		return c18codec[int]{"int, first result is the zero value", func(inv int) int { return inv - 1 }}
	}
	return c18codec[int]{"int", func(inv int) int { return 100 + inv }}
}

// c18shouts: results "r1", "r2", ... except that invocation zeroAt returns "".
func c18shouts(zeroAt int) c18codec[c18shout] {
	return c18codec[c18shout]{fmt.Sprintf("named string type, result %d is empty", zeroAt), func(inv int) c18shout {
		if inv == zeroAt {
			return ""
		}
		return c18shout(fmt.Sprint("r", inv))
	}}
}

// c18cache builds the cache handed to Once/Before: lifetime in units (0: entries never expire) and
// the interval of the cache's own cleanup goroutine (0: none). With a cleanup goroutine the explorer
// also interleaves its sweeps with the calls.
func c18cache[T any](lifetime, cleanup int) *cache.Cache[string, T] {
	exp, cl := cache.DefaultExpiration, cache.NoExpiration
	if lifetime > 0 {
		exp = time.Duration(lifetime) * unit
	}
	if cleanup > 0 {
		cl = time.Duration(cleanup) * unit
	}
	n0 := vrt.ThreadCount()
	ca := cache.New[string, T](exp, cl)
	vrt.MarkSpawnedSinceDaemon(n0)
	return ca
}

func c18once(c *c20ctx, calls int, expiring, zeroFirst bool) {
	lifetime := 0
	if expiring {
		lifetime = 5
	}
	c18onceT(c, calls, lifetime, 0, c18ints(zeroFirst))
}

// c18onceT: `calls` calls of Once on one cache; with a finite lifetime the harness chooses how far the
// clock moves before each call (0, 2, 4 or 6 units; lifetimes are odd, so no call coincides with a
// deadline). While the entry of the storing call lives (t < stored + lifetime) the callback must not
// run and the first result is returned; otherwise it runs exactly once and its result is stored.
func c18onceT[T comparable](c *c20ctx, calls, lifetime, cleanup int, cd c18codec[T]) {
	type rec struct {
		t    int64
		runs int
		inv  int
		ret  T
	}
	var recs []rec
	name := fmt.Sprintf("Once(%d calls, expiring-entry=%t, first-result-is-zero=%t)", calls, lifetime > 0, cd.name == c18ints(true).name)
	if cleanup > 0 || lifetime > 5 || (cd.name != c18ints(true).name && cd.name != c18ints(false).name) {
		name = fmt.Sprintf("Once(%d calls, lifetime=%d, cleanup-interval=%d, results: %s)", calls, lifetime, cleanup, cd.name)
	}
	bound := 0
	if cleanup > 0 {
		bound = 3 // with the cleanup goroutine: every schedule with at most three preemptions
		if thorough {
			bound = 5
		}
	}
	c.explore(name, bound, func() {
		recs = recs[:0]
		ca := c18cache[T](lifetime, cleanup)
		inv := 0
		for i := 0; i < calls; i++ {
			if lifetime > 0 {
				vrt.Advance(time.Duration(2*vrt.Choose(4)) * unit)
			}
			before := inv
			t := now()
			r := gogu.Once[string, T, int](ca, func() T { inv++; return cd.enc(inv) })
			recs = append(recs, rec{t, inv - before, inv, r})
		}
	}, func(x *vrt.Exec) (string, string) {
		liveSince := int64(-1)
		var liveVal T
		for i, r := range recs {
			live := liveSince >= 0 && (lifetime == 0 || r.t < liveSince+int64(lifetime))
			if live {
				if r.runs != 0 {
					return "Once/runs-again-while-entry-lives", fmt.Sprintf("call %d at time %d ran the callback %d time(s) although the entry stored at %d (lifetime %d) is still alive", i+1, r.t, r.runs, liveSince, lifetime)
				}
				if r.ret != liveVal {
					return "Once/returns-other-than-first-result", fmt.Sprintf("call %d returned %v, want the first result %v", i+1, r.ret, liveVal)
				}
				continue
			}
			if r.runs != 1 {
				return fmt.Sprintf("Once/callback-runs-%d-times-on-the-storing-call", r.runs), fmt.Sprintf("call %d at time %d (no live entry) ran the callback %d times, want exactly once", i+1, r.t, r.runs)
			}
			liveSince = r.t
			if r.ret != cd.enc(r.inv) {
				return "Once/wrong-result", fmt.Sprintf("call %d ran the callback (invocation %d, result %v) and returned %v", i+1, r.inv, cd.enc(r.inv), r.ret)
			}
			liveVal = r.ret
		}
		return "", ""
	}, func() any { return fmt.Sprint(recs) })
}

func c18retry(c *c20ctx, n int, withDelay bool) {
	if !withDelay {
		c18retryD(c, n, false, 3*unit)
		return
	}
	// delays: a whole number of clock units, and two that are not (1.25 and 0.4 ms): the wait must
	// be at least the delay as given, not the delay rounded to some timer resolution
	for _, d := range []time.Duration{3 * unit, 1250 * time.Microsecond, 400 * time.Microsecond} {
		if d != 3*unit && n > 3 {
			continue
		}
		c18retryD(c, n, true, d)
	}
}

func c18retryD(c *c20ctx, n int, withDelay bool, delay time.Duration) {
	var pattern []bool // outcome of each callback invocation (true = success)
	var times, ends []int64
	var gotAttempts int
	var gotErr error
	var errs []error
	fn := "Retry"
	if withDelay {
		fn = "RetryWithDelay"
	}
	d := int64(delay)
	name := fmt.Sprintf("%s(n=%d)", fn, n)
	if withDelay {
		name = fmt.Sprintf("%s(n=%d, delay=%v)", fn, n, delay)
	}
	now := vrt.NowNanos // this scenario measures in nanoseconds
	c.explore(name, 0, func() {
		pattern, times, ends, errs = pattern[:0], times[:0], ends[:0], errs[:0]
		cb := func() error {
			if len(pattern) > 12 {
				panic("callback invoked more than 12 times")
			}
			times = append(times, now())
			if withDelay && n <= 4 {
				// the attempt itself takes 0, 1 or 4 units (delay = 3): every pattern of durations
				vrt.Advance(time.Duration([]int{0, 1, 4}[vrt.Choose(3)]) * unit)
			}
			ends = append(ends, now())
			ok := vrt.Choose(2) == 1
			pattern = append(pattern, ok)
			if ok {
				errs = append(errs, nil)
				return nil
			}
			e := errors.New(fmt.Sprintf("failure #%d", len(pattern)))
			errs = append(errs, e)
			return e
		}
		r := gogu.RType[string]{Input: "in"}
		if withDelay {
			_, gotAttempts, gotErr = r.RetryWithDelay(n, delay, func(_ time.Duration, _ string) error { return cb() })
		} else {
			gotAttempts, gotErr = r.Retry(n, func(string) error { return cb() })
		}
	}, func(x *vrt.Exec) (string, string) {
		np := n
		if np < 0 {
			np = 0
		}
		if len(pattern) > np {
			return fn + "/more-than-n-calls", fmt.Sprintf("n=%d but the callback ran %d times (pattern %v)", n, len(pattern), pattern)
		}
		fails := 0
		for i, ok := range pattern {
			if ok && i != len(pattern)-1 {
				return fn + "/continues-after-success", fmt.Sprintf("pattern %v: callback invoked again after it had succeeded", pattern)
			}
			if !ok {
				fails++
			}
		}
		succeeded := len(pattern) > 0 && pattern[len(pattern)-1]
		if !succeeded && len(pattern) < np {
			return fn + "/gives-up-early", fmt.Sprintf("n=%d, pattern %v: stopped after %d failures", n, pattern, len(pattern))
		}
		if n >= 0 {
			if gotAttempts != fails {
				return fn + "/wrong-attempt-count", fmt.Sprintf("n=%d, pattern %v: reported %d failed attempts, want %d", n, pattern, gotAttempts, fails)
			}
			var wantErr error
			if !succeeded && len(errs) > 0 {
				wantErr = errs[len(errs)-1]
			}
			if n > 0 && gotErr != wantErr {
				return fn + "/wrong-error", fmt.Sprintf("n=%d, pattern %v: returned error %v, want %v (the last error, nil after a success)", n, pattern, gotErr, wantErr)
			}
		}
		if withDelay {
			for i := 1; i < len(times); i++ {
				if times[i]-ends[i-1] < d {
					return fn + "/attempts-closer-than-delay", fmt.Sprintf("attempts started at %v and ended at %v: attempt %d began %dns after the previous one ended, want a wait of at least %dns", times, ends, i+1, times[i]-ends[i-1], d)
				}
			}
		}
		return "", ""
	}, func() any { return fmt.Sprint(pattern, gotAttempts, gotErr != nil, times, ends) })
}

// c18beforeRounds: the same cache serves two consecutive uses of Before (the counter is re-armed):
// round 1 with n1 and n1+1 calls, round 2 with n2 and `calls` calls. In each round the callback runs
// on each of the first n calls and never again; every call returns the result of the most recent run.
func c18beforeRounds(c *c20ctx, n1, n2, calls int) {
	c18beforeRoundsT(c, n1, n2, calls, 0, 0, c18ints(false))
}

// c18beforeRoundsT: with a finite lifetime (and the cache's cleanup goroutine) the harness may move the
// clock by 2 units before a call as long as the entry stored by the round's last run stays alive
// (the statement promises the last result, it says nothing about a cache that forgets it).
func c18beforeRoundsT[T comparable](c *c20ctx, n1, n2, calls, lifetime, cleanup int, cd c18codec[T]) {
	c18beforeRoundsG(c, n1, n2, calls, lifetime, cleanup, false, cd)
}

// gap: between the two rounds the clock moves past the lifetime, so the first round's entry is expired
// but (without a cleanup goroutine) still stored when the second round stores its own result.
func c18beforeRoundsG[T comparable](c *c20ctx, n1, n2, calls, lifetime, cleanup int, gap bool, cd c18codec[T]) {
	var runOn []int
	var got []T
	var round []int
	name := fmt.Sprintf("Before twice on one cache (n=%d with %d calls, then n=%d with %d calls)", n1, n1+1, n2, calls)
	if lifetime > 0 || cd.name != c18ints(false).name {
		name += fmt.Sprintf(" lifetime=%d, cleanup-interval=%d, results: %s", lifetime, cleanup, cd.name)
	}
	if gap {
		name += ", the first round's entry expired (not swept) before the second round"
	}
	bound := 0
	if cleanup > 0 {
		bound = 3
		if thorough {
			bound = 5
		}
	}
	c.explore(name, bound, func() {
		runOn, got, round = runOn[:0], got[:0], round[:0]
		ca := c18cache[T](lifetime, cleanup)
		inv := 0
		stored := int64(-1)
		for r, cfg := range [][2]int{{n1, n1 + 1}, {n2, calls}} {
			nn := cfg[0]
			if gap && r == 1 {
				vrt.Advance(time.Duration(lifetime+1) * unit)
				stored = -1
			}
			for i := 0; i < cfg[1]; i++ {
				if lifetime > 0 && (stored < 0 || now()+2 < stored+int64(lifetime)) && vrt.Choose(2) == 1 {
					vrt.Advance(2 * unit)
				}
				ran := 0
				t := now()
				g := gogu.Before(&nn, ca, func() T { inv++; ran = inv; return cd.enc(inv) })
				if ran != 0 && i+1 == cfg[0] {
					stored = t // the round's last run: its result is what the cache must keep
				}
				runOn, got, round = append(runOn, ran), append(got, g), append(round, r+1)
			}
		}
	}, func(x *vrt.Exec) (string, string) {
		var last T
		idx := 0
		for r, cfg := range [][2]int{{n1, n1 + 1}, {n2, calls}} {
			for i := 0; i < cfg[1]; i++ {
				wantRun := i+1 <= cfg[0]
				if (runOn[idx] != 0) != wantRun {
					cls := "runs-after-n-calls"
					if wantRun {
						cls = "does-not-run-within-first-n-calls"
					}
					return "Before/reused-cache/" + cls, fmt.Sprintf("round %d (n=%d): on call %d the callback ran=%t, want %t", r+1, cfg[0], i+1, runOn[idx] != 0, wantRun)
				}
				if wantRun {
					last = cd.enc(runOn[idx])
				}
				if got[idx] != last {
					return "Before/reused-cache/wrong-result", fmt.Sprintf("round %d (n=%d): call %d returned %v, want %v (the result of the most recent run)", r+1, cfg[0], i+1, got[idx], last)
				}
				idx++
			}
		}
		return "", ""
	}, func() any { return fmt.Sprint(round, runOn, got) })
}

// c18onceTwo: two wrappers on two different caches of the same type, used by two goroutines at once (the
// callbacks take a few scheduling points). They have nothing to do with each other: each callback runs
// exactly once and each caller gets its own callback's result -- in every interleaving. (Whatever Once
// keeps at package level -- a shared single-flight table, a shared key -- would tie them together.)
func c18onceTwo(c *c20ctx) {
	var runs [2]int
	var got [2][2]int
	for _, lat := range []int{0, 1, 2} {
		name := fmt.Sprintf("Once on two caches, two goroutines, two calls each (callback latency %d)", lat)
		c.explore(name, 0, func() {
			runs, got = [2]int{}, [2][2]int{}
			cas := [2]*cache.Cache[string, int]{c18cache[int](0, 0), c18cache[int](0, 0)}
			var wg sync.WaitGroup
			wg.Add(2)
			for ti := 0; ti < 2; ti++ {
				ti := ti
				vrt.GoNamed(fmt.Sprintf("caller%d", ti), false, func() {
					defer wg.Done()
					for call := 0; call < 2; call++ {
						got[ti][call] = gogu.Once[string, int, int](cas[ti], func() int {
							runs[ti]++
							for i := 0; i < lat; i++ {
								vrt.Sched("callback")
							}
							return 100*(ti+1) + runs[ti]
						})
					}
				})
			}
			wg.Wait()
		}, func(x *vrt.Exec) (string, string) {
			for ti := 0; ti < 2; ti++ {
				if runs[ti] != 1 {
					return "Once/two-caches/callback-does-not-run-exactly-once", fmt.Sprintf("the callback of wrapper %d ran %d times (results %v)", ti+1, runs[ti], got)
				}
				for call := 0; call < 2; call++ {
					if got[ti][call] != 100*(ti+1)+1 {
						return "Once/two-caches/returns-other-than-own-first-result", fmt.Sprintf("wrapper %d, call %d returned %d, want %d (results %v)", ti+1, call+1, got[ti][call], 100*(ti+1)+1, got)
					}
				}
			}
			return "", ""
		}, func() any { return fmt.Sprint(runs, got) })
	}
}
